#!/bin/bash
# Run every registered check (quick or thorough) on the unchanged tree and summarise. usage: run_all.sh [quick|thorough] [seed]
cd "$(dirname "$(readlink -f "$0")")/.."
tier=${1:-quick}; seed=${2:-0}
ids=$(python3 -c "import json; print(' '.join(c['property_id'] for c in json.load(open('MANIFEST.json'))['checks']))")
for p in $ids; do
  start=$(date +%s)
  out=$(VERIF_SEED=$seed ./check $p $tier 2>&1); rc=$?
  end=$(date +%s)
  nk=$(echo "$out" | grep -c '^KNOWN-FINDING')
  nv=$(echo "$out" | grep -c '^VIOLATION')
  echo "$p rc=$rc wall=$((end-start))s known=$nk violations=$nv :: $(echo "$out" | tail -1)"
  if [ $rc -ne 0 ]; then echo "$out" | grep '^VIOLATION' | head -3; fi
done

#!/usr/bin/env python3
"""Run a seeded change against the checks in /repo ITSELF, as the brief prescribes:
   git -C /repo apply <patch> ; demo ; ./check <Cxx> quick ; git -C /repo checkout -- .
usage: in_repo_pass.py <seeded-name>...     (nothing else may use /repo while this runs)
Records the outcome in seeded/<name>/meta.json under "confirmed_in_repo" and verifies /repo is clean afterwards."""
import json
import os
import subprocess
import sys

VERIF = "/verif"


def sh(cmd, **kw):
    p = subprocess.run(cmd, shell=True, stdout=subprocess.PIPE, stderr=subprocess.STDOUT, text=True, **kw)
    return p.returncode, p.stdout


def main():
    assert sh("git -C /repo status --porcelain")[1].strip() == "", "/repo is not clean"
    head = sh("git -C /repo rev-parse --short HEAD")[1].strip()
    env = dict(os.environ, PYTHONPATH="/repo/src", PYTHONHASHSEED="0")
    for name in sys.argv[1:]:
        d = os.path.join(VERIF, "seeded", name)
        prop = name[:3]
        res = {"repo_head": head}
        try:
            rc, out = sh(f"git -C /repo apply {d}/patch.diff")
            res["patch_applies"] = rc == 0
            if rc == 0:
                rc, out = sh(f"cd /repo && timeout 600 /venv/bin/python {d}/demo.py", env=env)
                res["demo_patched_rc"] = rc
                rc, out = sh(f"cd {VERIF} && timeout 1500 ./check {prop} quick")
                lines = [l for l in out.splitlines() if l.startswith(("VIOLATION", f"[{prop}]"))]
                res["check_rc"] = rc
                res["check_lines"] = lines[:4]
                res["detected"] = rc == 1 and any(l.startswith("VIOLATION") for l in lines)
                res["detected_with_input"] = any(l.startswith("VIOLATION") and "no-failing-input-found" not in l for l in lines)
        finally:
            sh("git -C /repo checkout -- .")
            sh("git -C /repo clean -fdq src")
        res["repo_clean_after"] = sh("git -C /repo status --porcelain")[1].strip() == ""
        rc, out = sh(f"cd /repo && timeout 600 /venv/bin/python {d}/demo.py", env=env)
        res["demo_clean_rc"] = rc
        mp = os.path.join(d, "meta.json")
        meta = json.load(open(mp))
        meta["confirmed_in_repo"] = res
        json.dump(meta, open(mp, "w"), indent=1)
        print(name, {k: res.get(k) for k in ("patch_applies", "demo_patched_rc", "demo_clean_rc", "check_rc", "detected",
                                            "detected_with_input", "repo_clean_after")}, flush=True)
    # restore evidence/Gen from the clean tree for the properties touched
    for prop in sorted({n[:3] for n in sys.argv[1:]}):
        sh(f"cd {VERIF} && ./check {prop} quick")


if __name__ == "__main__":
    main()

#!/usr/bin/env python3
"""Confirm a seeded change and run a property check against it.

usage: seed_eval.py <Cxx> <dir with patch.diff demo.py meta.json> <seeded-name> [--suite] [--tier quick]

Steps (all in a scratch git worktree of /repo under /tmp, removed afterwards; /repo itself is not touched):
  1. demo passes on the clean tree           2. patch applies         3. demo fails with the patch
  4. (--suite) the pinned test suite still passes with the patch
  5. `VERIF_REPO=<worktree> ./check Cxx <tier>` reports VIOLATION (exit 1)?
Then copies the change to /verif/seeded/<seeded-name>/ with meta.json extended by what was run, and reruns the
clean check so Gen/ and evidence come from /repo again.
"""
import json
import os
import shutil
import subprocess
import sys
import xml.etree.ElementTree as ET
import ast

VERIF = "/verif"


def sh(cmd, **kw):
    p = subprocess.run(cmd, shell=True, stdout=subprocess.PIPE, stderr=subprocess.STDOUT, text=True, **kw)
    return p.returncode, p.stdout


def main():
    prop, src, name = sys.argv[1], sys.argv[2], sys.argv[3]
    suite = "--suite" in sys.argv
    tier = "thorough" if "--thorough" in sys.argv else "quick"
    wt = f"/tmp/seedwt-{name}"
    sh(f"git -C /repo worktree remove --force {wt}")
    rc, out = sh(f"git -C /repo worktree add -q {wt} HEAD")
    assert rc == 0, out
    res = {"property": prop, "seed_name": name}
    env = dict(os.environ, PYTHONPATH=f"{wt}/src", PYTHONHASHSEED="0")
    try:
        rc, out = sh(f"cd {wt} && timeout 600 /venv/bin/python {src}/demo.py", env=env)
        res["demo_clean_rc"] = rc
        rc, out = sh(f"cd {wt} && git apply {src}/patch.diff")
        res["patch_applies"] = rc == 0
        if rc != 0:
            res["patch_error"] = out[-500:]
        rc, out = sh(f"cd {wt} && timeout 600 /venv/bin/python {src}/demo.py", env=env)
        res["demo_patched_rc"] = rc
        res["demo_patched_tail"] = out[-600:]
        if suite:
            junit = f"/tmp/seed-{name}.xml"
            env2 = {k: v for k, v in env.items() if k != "ONNX_IR_PY_VERIF"}
            sh(f"cd {wt} && /venv/bin/python -m pytest -q -p no:cacheprovider --timeout=900 "
               f"--continue-on-collection-errors --junitxml={junit} > /dev/null 2>&1", env=env2)
            b = json.load(open("/root/.vp/BASELINE.json"))
            stable = b["stable_pass"]
            if isinstance(stable, str):
                stable = ast.literal_eval(stable)
            passed = set()
            for tc in ET.parse(junit).getroot().iter("testcase"):
                if not any(c.tag in ("failure", "error", "skipped") for c in tc):
                    passed.add(f"{tc.get('classname')}::{tc.get('name')}")
            missing = [t for t in stable if t not in passed]
            res["suite_missing"] = len(missing)
            res["suite_missing_names"] = missing[:5]
            os.remove(junit)
        rc, out = sh(f"cd {VERIF} && VERIF_REPO={wt} timeout 3000 ./check {prop} {tier}")
        res["check_rc"] = rc
        lines = [l for l in out.splitlines() if l.startswith(("VIOLATION", "KNOWN-FINDING", f"[{prop}]"))]
        res["check_lines"] = lines[:12]
        res["detected"] = rc == 1 and any(l.startswith("VIOLATION") for l in lines)
        res["detected_with_input"] = any(l.startswith("VIOLATION") and "no-failing-input-found" not in l for l in lines)
        # keep one replay for the record
        for l in lines:
            if l.startswith("VIOLATION") and "replay=" in l:
                rp = l.split("replay=")[1].split()[0]
                try:
                    res["replay_excerpt"] = open(rp).read()[:1500]
                except OSError:
                    pass
                break
    finally:
        sh(f"git -C /repo worktree remove --force {wt}")
        shutil.rmtree(wt, ignore_errors=True)
    dst = os.path.join(VERIF, "seeded", name)
    os.makedirs(dst, exist_ok=True)
    for fn in ("patch.diff", "demo.py"):
        if os.path.abspath(os.path.join(src, fn)) != os.path.abspath(os.path.join(dst, fn)):
            shutil.copy(os.path.join(src, fn), os.path.join(dst, fn))
    meta = {}
    try:
        meta = json.load(open(os.path.join(src, "meta.json")))
    except Exception:  # noqa: BLE001
        pass
    meta["property"] = prop
    # keep what tools/seed_suite.py recorded earlier (suite_* keys) for this seeded change
    keep = {}
    for mp in (os.path.join(dst, "meta.json"), os.path.join(src, "meta.json")):
        try:
            old_c = json.load(open(mp)).get("confirmed", {})
            keep.update({k: v for k, v in old_c.items() if k.startswith("suite_") and k not in keep})
        except Exception:  # noqa: BLE001
            pass
    for k in ("rebased",):
        try:
            om = json.load(open(os.path.join(dst, "meta.json")))
            if k in om and k not in meta:
                meta[k] = om[k]
        except Exception:  # noqa: BLE001
            pass
    meta["confirmed"] = {
        **keep,
        "how": "scratch git worktree of /repo HEAD under /tmp (removed afterwards): demo on clean tree, git apply, "
               "demo again" + (", pinned suite vs BASELINE.json" if suite else "") +
               f", then VERIF_REPO=<worktree> ./check {prop} {tier}",
        **res,
    }
    json.dump(meta, open(os.path.join(dst, "meta.json"), "w"), indent=1)
    print(json.dumps(res, indent=1))
    # restore Gen/ and evidence from /repo (skipped during the final pass, which restores once per property at the end)
    if not os.path.exists(os.path.join(VERIF, ".scratch", "NO_RESTORE")) and not os.environ.get("SEED_EVAL_NO_RESTORE"):
        sh(f"cd {VERIF} && ./check {prop} quick")


if __name__ == "__main__":
    main()

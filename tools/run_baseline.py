#!/usr/bin/env python3
"""Run the repository's pinned baseline suite (guard OFF) and compare with /root/.vp/BASELINE.json."""
import ast
import json
import os
import subprocess
import sys
import xml.etree.ElementTree as ET

out = sys.argv[1] if len(sys.argv) > 1 else "/verif/.scratch/baseline.junit.xml"
os.makedirs(os.path.dirname(out), exist_ok=True)
env = {k: v for k, v in os.environ.items() if k != "ONNX_IR_PY_VERIF"}
subprocess.run(f"cd /repo && /venv/bin/python -m pytest -ra -q -p no:cacheprovider --timeout=900 "
               f"--continue-on-collection-errors --junitxml={out} > {out}.log 2>&1", shell=True, env=env)
b = json.load(open("/root/.vp/BASELINE.json"))
stable = b["stable_pass"]
if isinstance(stable, str):
    stable = ast.literal_eval(stable)
passed = set()
for tc in ET.parse(out).getroot().iter("testcase"):
    if not any(c.tag in ("failure", "error", "skipped") for c in tc):
        passed.add(f"{tc.get('classname')}::{tc.get('name')}")
missing = [t for t in stable if t not in passed]
print(f"baseline stable={len(stable)} passed_now={len(passed)} missing_from_baseline={len(missing)}")
for t in missing[:40]:
    print("  MISSING", t)
sys.exit(1 if missing else 0)

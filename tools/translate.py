"""Fail-closed Python-ast -> Gallina translator for the small pure pieces of onnx/ir-py.

Scope (anything else raises Unsupported, no partial output):
  * module level integer constants (``X = 1 << 30``, ``X = 4096``)
  * module level dict / set / frozenset / tuple / list literals of constants and enum members
  * functions whose parameters are annotated ``int`` / ``int | None`` / ``bool`` and whose body
    is made of ``if`` / ``return`` / simple assignments / ``raise`` over integer expressions
    (+ - * // % << max min, comparisons, ``is None`` / ``is not None``, and/or/not).

Semantics of the output: Python ``int`` -> ``Z`` (unbounded, like Python), ``//`` -> ``Z.div``
and ``%`` -> ``Z.modulo`` (Coq's ``Z.div``/``Z.modulo`` are floor division/modulo, i.e. they
coincide with Python's for every sign of both operands, divisor != 0).  A function that can
``raise`` returns ``res T`` (Base/Exn.v).  ``if x is None: <returns>`` followed by code using
``x`` as an int becomes a ``match`` so the option is unwrapped exactly where Python narrows it.

The translator is part of the trusted base; its output is additionally run against the Python
function on a grid by the correspondence check of each property that uses it.
"""

from __future__ import annotations

import ast
import hashlib
import os


class Unsupported(Exception):
    pass


def _src(path: str) -> ast.Module:
    with open(path, encoding="utf-8") as f:
        return ast.parse(f.read(), filename=path)


def find_function(mod: ast.Module, qualname: str) -> ast.FunctionDef:
    parts = qualname.split(".")
    body = mod.body
    node = None
    for p in parts:
        node = None
        for n in body:
            if isinstance(n, (ast.FunctionDef, ast.ClassDef)) and n.name == p:
                node = n
                break
        if node is None:
            raise Unsupported(f"definition {qualname} not found")
        body = node.body
    if not isinstance(node, ast.FunctionDef):
        raise Unsupported(f"{qualname} is not a function")
    return node


def find_assign(mod: ast.Module, name: str, cls: str | None = None) -> ast.expr:
    body = mod.body
    if cls is not None:
        for n in body:
            if isinstance(n, ast.ClassDef) and n.name == cls:
                body = n.body
                break
        else:
            raise Unsupported(f"class {cls} not found")
    for n in body:
        if isinstance(n, ast.Assign) and len(n.targets) == 1:
            t = n.targets[0]
            if isinstance(t, ast.Name) and t.id == name:
                return n.value
        if isinstance(n, ast.AnnAssign) and isinstance(n.target, ast.Name) and n.target.id == name:
            if n.value is None:
                raise Unsupported(f"{name} has no value")
            return n.value
    raise Unsupported(f"assignment {name} not found")


def ast_digest(node: ast.AST) -> str:
    """Digest of the normalised AST (no positions, no docstring)."""
    if isinstance(node, ast.FunctionDef):
        body = node.body
        if body and isinstance(body[0], ast.Expr) and isinstance(body[0].value, ast.Constant) \
                and isinstance(body[0].value.value, str):
            node = ast.FunctionDef(name=node.name, args=node.args, body=body[1:] or [ast.Pass()],
                                   decorator_list=node.decorator_list, returns=node.returns)
    return hashlib.sha256(ast.dump(node, include_attributes=False).encode()).hexdigest()[:16]


# ---------------------------------------------------------------- constants

def const_int(e: ast.expr, env: dict[str, int] | None = None) -> int:
    env = env or {}
    if isinstance(e, ast.Constant) and isinstance(e.value, int) and not isinstance(e.value, bool):
        return e.value
    if isinstance(e, ast.Name) and e.id in env:
        return env[e.id]
    if isinstance(e, ast.UnaryOp) and isinstance(e.op, ast.USub):
        return -const_int(e.operand, env)
    if isinstance(e, ast.BinOp):
        a, b = const_int(e.left, env), const_int(e.right, env)
        if isinstance(e.op, ast.Add):
            return a + b
        if isinstance(e.op, ast.Sub):
            return a - b
        if isinstance(e.op, ast.Mult):
            return a * b
        if isinstance(e.op, ast.LShift):
            return a << b
        if isinstance(e.op, ast.Pow) and b >= 0:
            return a ** b
        if isinstance(e.op, ast.FloorDiv) and b != 0:
            return a // b
    raise Unsupported(f"not a constant integer expression: {ast.dump(e)}")


def literal(e: ast.expr):
    """Python literal (dict/set/tuple/list/str/int/bool/None, enum members as 'Enum.NAME')."""
    if isinstance(e, ast.Constant):
        return e.value
    if isinstance(e, ast.Attribute):
        parts = []
        cur = e
        while isinstance(cur, ast.Attribute):
            parts.append(cur.attr)
            cur = cur.value
        if isinstance(cur, ast.Name):
            parts.append(cur.id)
            return ("enum", ".".join(reversed(parts)))
        raise Unsupported(ast.dump(e))
    if isinstance(e, ast.Name):
        return ("name", e.id)
    if isinstance(e, (ast.Tuple, ast.List)):
        return [literal(x) for x in e.elts]
    if isinstance(e, ast.Set):
        return [literal(x) for x in e.elts]
    if isinstance(e, ast.Dict):
        return [(literal(k), literal(v)) for k, v in zip(e.keys, e.values)]
    if isinstance(e, ast.Call) and isinstance(e.func, ast.Name) and e.func.id in ("frozenset", "set", "tuple", "list") \
            and len(e.args) == 1 and not e.keywords:
        return literal(e.args[0])
    if isinstance(e, ast.UnaryOp) and isinstance(e.op, ast.USub):
        v = literal(e.operand)
        if isinstance(v, (int, float)):
            return -v
    try:
        return const_int(e)
    except Unsupported:
        pass
    raise Unsupported(f"unsupported literal: {ast.dump(e)}")


# ---------------------------------------------------------------- Coq text helpers

def coq_Z(n: int) -> str:
    return f"({n})%Z"


def coq_string_codes(s: str) -> str:
    """A Python str as list N of code points."""
    return "[" + "; ".join(f"{ord(c)}%N" for c in s) + "]"


# ---------------------------------------------------------------- functions

_TY = {"int": "Z", "bool": "bool"}


def _param_type(a: ast.arg) -> str:
    ann = a.annotation
    if ann is None:
        raise Unsupported(f"parameter {a.arg} has no annotation")
    if isinstance(ann, ast.Name) and ann.id in _TY:
        return _TY[ann.id]
    if isinstance(ann, ast.BinOp) and isinstance(ann.op, ast.BitOr):
        l, r = ann.left, ann.right
        if isinstance(r, ast.Constant) and r.value is None and isinstance(l, ast.Name) and l.id in _TY:
            return f"option {_TY[l.id]}"
    raise Unsupported(f"unsupported annotation on {a.arg}: {ast.dump(ann)}")


_EXN = {"ValueError", "TypeError", "IndexError", "KeyError", "AssertionError", "RuntimeError",
        "AttributeError", "OSError"}


class _Fn:
    def __init__(self, fn: ast.FunctionDef, consts: dict[str, int]):
        self.fn = fn
        self.consts = consts
        self.raises = any(isinstance(n, ast.Raise) for n in ast.walk(fn))
        self.types: dict[str, str] = {}
        self.counter = 0

    # expressions -----------------------------------------------------
    def expr(self, e: ast.expr, env: dict[str, str]) -> tuple[str, str]:
        """returns (coq text, type) ; env maps python name -> coq name"""
        if isinstance(e, ast.Constant):
            if isinstance(e.value, bool):
                return ("true" if e.value else "false"), "bool"
            if isinstance(e.value, int):
                return coq_Z(e.value), "Z"
            raise Unsupported(f"constant {e.value!r}")
        if isinstance(e, ast.Name):
            if e.id in env:
                return env[e.id], self.types[env[e.id]]
            if e.id in self.consts:
                return coq_Z(self.consts[e.id]), "Z"
            raise Unsupported(f"unknown name {e.id}")
        if isinstance(e, ast.UnaryOp):
            t, ty = self.expr(e.operand, env)
            if isinstance(e.op, ast.USub) and ty == "Z":
                return f"(- {t})%Z", "Z"
            if isinstance(e.op, ast.Not) and ty == "bool":
                return f"(negb {t})", "bool"
            raise Unsupported(ast.dump(e))
        if isinstance(e, ast.BinOp):
            a, ta = self.expr(e.left, env)
            b, tb = self.expr(e.right, env)
            if ta != "Z" or tb != "Z":
                raise Unsupported(f"non-integer arithmetic: {ast.dump(e)}")
            ops = {ast.Add: "+", ast.Sub: "-", ast.Mult: "*", ast.FloorDiv: "/", ast.Mod: "mod"}
            for k, v in ops.items():
                if isinstance(e.op, k):
                    return f"({a} {v} {b})%Z", "Z"
            if isinstance(e.op, ast.LShift):
                return f"(Z.shiftl {a} {b})", "Z"
            raise Unsupported(ast.dump(e.op))
        if isinstance(e, ast.Compare):
            if len(e.ops) != 1:
                raise Unsupported("chained comparison")
            op, r = e.ops[0], e.comparators[0]
            if isinstance(op, (ast.Is, ast.IsNot)) and isinstance(r, ast.Constant) and r.value is None:
                t, ty = self.expr(e.left, env)
                if not ty.startswith("option"):
                    raise Unsupported("`is None` on a non-optional")
                s = f"(match {t} with None => true | Some _ => false end)"
                return (s if isinstance(op, ast.Is) else f"(negb {s})"), "bool"
            a, ta = self.expr(e.left, env)
            b, tb = self.expr(r, env)
            if ta != "Z" or tb != "Z":
                raise Unsupported(f"comparison of non-integers: {ast.dump(e)}")
            tbl = {ast.Lt: f"({a} <? {b})%Z", ast.LtE: f"({a} <=? {b})%Z", ast.Gt: f"({b} <? {a})%Z",
                   ast.GtE: f"({b} <=? {a})%Z", ast.Eq: f"({a} =? {b})%Z", ast.NotEq: f"(negb ({a} =? {b})%Z)"}
            for k, v in tbl.items():
                if isinstance(op, k):
                    return v, "bool"
            raise Unsupported(ast.dump(op))
        if isinstance(e, ast.BoolOp):
            if isinstance(e.op, ast.And):
                # `x is not None and x <= 0` : narrowing of x through a match
                return self._and_chain(e.values, env), "bool"
            out = None
            for v in e.values:
                t, ty = self.expr(v, env)
                if ty != "bool":
                    raise Unsupported("non-boolean operand of or")
                out = t if out is None else f"({out} || {t})"
            return out, "bool"
        if isinstance(e, ast.Call) and isinstance(e.func, ast.Name) and e.func.id in ("max", "min") \
                and len(e.args) == 2 and not e.keywords:
            a, ta = self.expr(e.args[0], env)
            b, tb = self.expr(e.args[1], env)
            if ta != "Z" or tb != "Z":
                raise Unsupported("max/min of non-integers")
            return f"(Z.{e.func.id} {a} {b})", "Z"
        raise Unsupported(f"unsupported expression: {ast.dump(e)}")

    def _and_chain(self, values, env) -> str:
        if not values:
            return "true"
        v, rest = values[0], values[1:]
        if isinstance(v, ast.Compare) and len(v.ops) == 1 and isinstance(v.ops[0], ast.IsNot) \
                and isinstance(v.comparators[0], ast.Constant) and v.comparators[0].value is None \
                and isinstance(v.left, ast.Name) and v.left.id in env \
                and self.types[env[v.left.id]].startswith("option"):
            old = env[v.left.id]
            new = self._fresh(v.left.id, self.types[old].split(" ", 1)[1])
            env2 = dict(env)
            env2[v.left.id] = new
            return f"(match {old} with None => false | Some {new} => {self._and_chain(rest, env2)} end)"
        t, ty = self.expr(v, env)
        if ty != "bool":
            raise Unsupported("non-boolean operand of and")
        if not rest:
            return t
        return f"({t} && {self._and_chain(rest, env)})"

    def _fresh(self, base: str, ty: str) -> str:
        self.counter += 1
        n = f"{base}_{self.counter}"
        self.types[n] = ty
        return n

    # statements ------------------------------------------------------
    def ret(self, text: str) -> str:
        return f"Ok {text}" if self.raises else text

    def block(self, stmts: list[ast.stmt], env: dict[str, str], rettype: str) -> str:
        if not stmts:
            if rettype == "unit":
                return self.ret("tt")
            raise Unsupported("function may fall off the end")
        s, rest = stmts[0], stmts[1:]
        if isinstance(s, ast.Expr) and isinstance(s.value, ast.Constant) and isinstance(s.value.value, str):
            return self.block(rest, env, rettype)  # docstring
        if isinstance(s, ast.Pass):
            return self.block(rest, env, rettype)
        if isinstance(s, ast.Return):
            if s.value is None or (isinstance(s.value, ast.Constant) and s.value.value is None):
                if rettype != "unit":
                    raise Unsupported("bare return in a value function")
                return self.ret("tt")
            t, ty = self.expr(s.value, env)
            if ty != rettype:
                raise Unsupported(f"return type {ty} vs {rettype}")
            return self.ret(t)
        if isinstance(s, ast.Raise):
            exc = s.exc
            if isinstance(exc, ast.Call):
                exc = exc.func
            if isinstance(exc, ast.Name) and exc.id in _EXN:
                return f"Raise {exc.id}"
            raise Unsupported(f"raise of {ast.dump(s)}")
        if isinstance(s, ast.Assign) and len(s.targets) == 1 and isinstance(s.targets[0], ast.Name):
            t, ty = self.expr(s.value, env)
            new = self._fresh(s.targets[0].id, ty)
            env2 = dict(env)
            env2[s.targets[0].id] = new
            return f"let {new} := {t} in\n  {self.block(rest, env2, rettype)}"
        if isinstance(s, ast.If):
            # narrowing form: if x is None: <terminating> ; rest uses x as int
            c = s.test
            if isinstance(c, ast.Compare) and len(c.ops) == 1 and isinstance(c.ops[0], ast.Is) \
                    and isinstance(c.comparators[0], ast.Constant) and c.comparators[0].value is None \
                    and isinstance(c.left, ast.Name) and c.left.id in env and not s.orelse \
                    and self._terminates(s.body):
                old = env[c.left.id]
                inner = self.types[old].split(" ", 1)[1]
                new = self._fresh(c.left.id, inner)
                env2 = dict(env)
                env2[c.left.id] = new
                return (f"match {old} with\n  | None => {self.block(s.body, env, rettype)}\n"
                        f"  | Some {new} =>\n  {self.block(rest, env2, rettype)}\n  end")
            t, ty = self.expr(c, env)
            if ty != "bool":
                raise Unsupported("non-boolean condition")
            if self._terminates(s.body):
                els = self.block(list(s.orelse) + rest, env, rettype)
                return f"if {t} then {self.block(s.body, env, rettype)}\n  else {els}"
            if s.orelse and self._terminates(s.orelse):
                return f"if {t} then {self.block(list(s.body) + rest, env, rettype)}\n  else {self.block(s.orelse, env, rettype)}"
            raise Unsupported("if-branch that falls through (assignments joining) is not supported")
        raise Unsupported(f"unsupported statement: {ast.dump(s)[:200]}")

    def _terminates(self, stmts) -> bool:
        if not stmts:
            return False
        last = stmts[-1]
        if isinstance(last, (ast.Return, ast.Raise)):
            return True
        if isinstance(last, ast.If):
            return self._terminates(last.body) and self._terminates(last.orelse)
        return False


def translate_function(path: str, qualname: str, coq_name: str | None = None,
                       consts: dict[str, int] | None = None, skip_params: tuple[str, ...] = ("self",)) -> str:
    mod = _src(path)
    fn = find_function(mod, qualname)
    if fn.args.vararg or fn.args.kwarg or fn.args.kwonlyargs or fn.args.posonlyargs:
        raise Unsupported("only plain positional parameters are supported")
    tr = _Fn(fn, consts or {})
    env: dict[str, str] = {}
    params = []
    for a in fn.args.args:
        if a.arg in skip_params:
            continue
        ty = _param_type(a)
        tr.types[a.arg] = ty
        env[a.arg] = a.arg
        params.append(f"({a.arg} : {ty})")
    r = fn.returns
    if isinstance(r, ast.Name) and r.id in _TY:
        rettype = _TY[r.id]
    elif isinstance(r, ast.Constant) and r.value is None:
        rettype = "unit"
    else:
        raise Unsupported(f"unsupported return annotation on {qualname}")
    body = tr.block(fn.body, env, rettype)
    full = f"res {rettype}" if tr.raises else rettype
    name = coq_name or qualname.replace(".", "_").lstrip("_")
    digest = ast_digest(fn)
    return (f"(* translated from {os.path.basename(path)}::{qualname}  ast={digest} *)\n"
            f"Definition {name} {' '.join(params)} : {full} :=\n  {body}.\n")


def translate_int_constant(path: str, name: str, coq_name: str | None = None, cls: str | None = None,
                           env: dict[str, int] | None = None) -> tuple[str, int]:
    mod = _src(path)
    v = const_int(find_assign(mod, name, cls), env)
    cn = coq_name or name.lstrip("_")
    return f"(* translated from {os.path.basename(path)}::{name} *)\nDefinition {cn} : Z := {coq_Z(v)}.\n", v


def read_literal(path: str, name: str, cls: str | None = None):
    return literal(find_assign(_src(path), name, cls))


HEADER = ("(* GENERATED by /verif/tools/translate.py from /repo/src on every run — do not edit. *)\n"
          "From Coq Require Import ZArith List Bool.\nFrom IRV Require Import Base.Exn.\n"
          "Import ListNotations.\nOpen Scope Z_scope.\n\n")


def write_if_changed(path: str, text: str) -> bool:
    try:
        with open(path, encoding="utf-8") as f:
            if f.read() == text:
                return False
    except FileNotFoundError:
        pass
    os.makedirs(os.path.dirname(path), exist_ok=True)
    with open(path, "w", encoding="utf-8") as f:
        f.write(text)
    return True

#!/usr/bin/env python3
"""Fail-closed translation of accumulator loops over a tensor sequence into Gallina folds.

Handles the small imperative fragment used by the external-data layout code:

    <init assignments>                      x = 0 | x: list[T] = [] | x = [[]]
    for tensor in tensors:
        logger.<level>(...)                 (skipped: pure logging)
        v = <expr>      v += <expr>
        xs.append(<expr>)                   xs := xs ++ [e]
        xss[-1].append(<expr>)              xss := py_append_to_last xss e
        if <cond>: <stmts>                  (no else; joins the assigned variables)
    return <var>

Items of the sequence are abstract (`A`, with `nbytes : A -> Z`): `tensor.nbytes` becomes `nbytes tensor`, a bare
`tensor` is the item itself.  `_ExternalDataInfo(name, offset, length)` becomes the pair `(offset, length)` (the name
is dropped — stated in the trusted base), `.offset` / `.length` its projections.  `xss[-1]` in boolean position is
`py_last_nonempty xss`.  Calls are allowed only to functions registered in `known_calls` (already translated).
Anything else raises `Unsupported`, which the caller turns into a broken obligation.

The emitted definitions live in a Coq `Section` with `Context {A : Type} (nbytes : A -> Z)` and use
`IRV.Base.PyList` (py_append, py_append_to_last, py_last_nonempty).
"""
from __future__ import annotations

import ast

from translate import Unsupported, ast_digest, coq_Z

LOGGER_NAMES = {"logger"}


class Loop:
    def __init__(self, known_calls: dict[str, tuple[str, list[str], str]], item_name: str = "tensor"):
        # known_calls: python name -> (coq name, argument kinds, result type) ; kind "item" = pass `nbytes item`… see call()
        self.known = known_calls
        self.item = item_name
        self.types: dict[str, str] = {}
        self.n = 0

    def fresh(self, base: str, ty: str) -> str:
        self.n += 1
        name = f"{base}_{self.n}"
        self.types[name] = ty
        return name

    # ------------------------------------------------------------------ expressions
    def expr(self, e: ast.expr, env: dict[str, str], want: str | None = None) -> tuple[str, str]:
        if isinstance(e, ast.Constant):
            if isinstance(e.value, bool):
                return ("true" if e.value else "false"), "bool"
            if isinstance(e.value, int):
                return coq_Z(e.value), "Z"
            raise Unsupported(f"constant {e.value!r}")
        if isinstance(e, ast.List):
            if not e.elts:
                if want is None or not want.startswith("list"):
                    raise Unsupported("empty list literal of unknown type")
                return "[]", want
            if len(e.elts) == 1 and isinstance(e.elts[0], ast.List) and not e.elts[0].elts:
                return "[[]]", "list (list A)"
            raise Unsupported(f"list literal {ast.unparse(e)}")
        if isinstance(e, ast.Name):
            if e.id == self.item:
                return self.item, "A"
            if e.id in env:
                return env[e.id], self.types[env[e.id]]
            raise Unsupported(f"unknown name {e.id}")
        if isinstance(e, ast.Attribute):
            if isinstance(e.value, ast.Name) and e.value.id == self.item:
                if e.attr == "nbytes":
                    return f"(nbytes {self.item})", "Z"
                if e.attr == "name":
                    return "tt", "unit"       # names are not modelled
                raise Unsupported(f"attribute {self.item}.{e.attr}")
            t, ty = self.expr(e.value, env)
            if ty == "info" and e.attr in ("offset", "length"):
                return (f"(fst {t})" if e.attr == "offset" else f"(snd {t})"), "Z"
            raise Unsupported(f"attribute access {ast.unparse(e)}")
        if isinstance(e, ast.Subscript):
            raise Unsupported(f"subscript outside boolean position: {ast.unparse(e)}")
        if isinstance(e, ast.BinOp):
            a, ta = self.expr(e.left, env)
            b, tb = self.expr(e.right, env)
            if ta != "Z" or tb != "Z":
                raise Unsupported(f"non-integer arithmetic {ast.unparse(e)}")
            for k, v in {ast.Add: "+", ast.Sub: "-", ast.Mult: "*", ast.FloorDiv: "/"}.items():
                if isinstance(e.op, k):
                    return f"({a} {v} {b})%Z", "Z"
            raise Unsupported(ast.dump(e.op))
        if isinstance(e, ast.Compare):
            if len(e.ops) != 1:
                raise Unsupported("chained comparison")
            op, r = e.ops[0], e.comparators[0]
            a, ta = self.expr(e.left, env)
            b, tb = self.expr(r, env)
            if ta != "Z" or tb != "Z":
                raise Unsupported(f"comparison of non-integers {ast.unparse(e)}")
            tbl = {ast.Lt: f"({a} <? {b})%Z", ast.LtE: f"({a} <=? {b})%Z", ast.Gt: f"({b} <? {a})%Z",
                   ast.GtE: f"({b} <=? {a})%Z", ast.Eq: f"({a} =? {b})%Z"}
            for k, v in tbl.items():
                if isinstance(op, k):
                    return v, "bool"
            raise Unsupported(ast.dump(op))
        if isinstance(e, ast.BoolOp):
            parts = [self.cond(v, env) for v in e.values]
            j = " && " if isinstance(e.op, ast.And) else " || "
            return "(" + j.join(parts) + ")", "bool"
        if isinstance(e, ast.Call) and isinstance(e.func, ast.Name) and e.func.id in self.known and not e.keywords:
            cname, kinds, rty = self.known[e.func.id]
            if len(kinds) != len(e.args):
                raise Unsupported(f"call {ast.unparse(e)}: expected {len(kinds)} arguments")
            args = []
            for k, a in zip(kinds, e.args):
                if k == "item":             # the callee takes the tensor itself
                    if not (isinstance(a, ast.Name) and a.id == self.item):
                        raise Unsupported(f"call {ast.unparse(e)}: tensor argument expected")
                    args.append(self.item)
                else:
                    t, ty = self.expr(a, env)
                    if ty != k:
                        raise Unsupported(f"call {ast.unparse(e)}: argument {ast.unparse(a)} has type {ty}, wanted {k}")
                    args.append(t)
            return f"({cname} {' '.join(args)})", rty
        if isinstance(e, ast.Call) and isinstance(e.func, ast.Name) and e.func.id == "_ExternalDataInfo" \
                and len(e.args) == 3 and not e.keywords:
            _n, tn = self.expr(e.args[0], env)
            o, to = self.expr(e.args[1], env)
            ln, tl = self.expr(e.args[2], env)
            if tn != "unit" or to != "Z" or tl != "Z":
                raise Unsupported(f"_ExternalDataInfo arguments: {ast.unparse(e)}")
            return f"({o}, {ln})", "info"
        raise Unsupported(f"unsupported expression: {ast.unparse(e)}")

    def cond(self, e: ast.expr, env: dict[str, str]) -> str:
        """expression in boolean position (Python truthiness of `xss[-1]` = last list non-empty)"""
        if isinstance(e, ast.Subscript) and isinstance(e.value, ast.Name) and e.value.id in env \
                and isinstance(e.slice, ast.UnaryOp) and isinstance(e.slice.op, ast.USub) \
                and isinstance(e.slice.operand, ast.Constant) and e.slice.operand.value == 1 \
                and self.types[env[e.value.id]] == "list (list A)":
            return f"(py_last_nonempty {env[e.value.id]})"
        t, ty = self.expr(e, env)
        if ty != "bool":
            raise Unsupported(f"non-boolean condition {ast.unparse(e)}")
        return t

    # ------------------------------------------------------------------ statements
    @staticmethod
    def assigned(stmts: list[ast.stmt]) -> list[str]:
        out: list[str] = []

        def add(n):
            if n not in out:
                out.append(n)
        for s in stmts:
            if isinstance(s, ast.Assign) and len(s.targets) == 1 and isinstance(s.targets[0], ast.Name):
                add(s.targets[0].id)
            elif isinstance(s, ast.AnnAssign) and isinstance(s.target, ast.Name):
                add(s.target.id)
            elif isinstance(s, ast.AugAssign) and isinstance(s.target, ast.Name):
                add(s.target.id)
            elif isinstance(s, ast.Expr) and isinstance(s.value, ast.Call) and isinstance(s.value.func, ast.Attribute) \
                    and s.value.func.attr == "append":
                tgt = s.value.func.value
                if isinstance(tgt, ast.Name):
                    add(tgt.id)
                elif isinstance(tgt, ast.Subscript) and isinstance(tgt.value, ast.Name):
                    add(tgt.value.id)
            elif isinstance(s, ast.If):
                for n in Loop.assigned(list(s.body) + list(s.orelse)):
                    add(n)
        return out

    def stmts(self, body: list[ast.stmt], env: dict[str, str], tail) -> str:
        """translate a statement list; `tail(env)` produces the final expression"""
        if not body:
            return tail(env)
        s, rest = body[0], body[1:]
        if isinstance(s, ast.Expr) and isinstance(s.value, ast.Constant) and isinstance(s.value.value, str):
            return self.stmts(rest, env, tail)
        if isinstance(s, ast.Expr) and isinstance(s.value, ast.Call) and isinstance(s.value.func, ast.Attribute):
            f = s.value.func
            if isinstance(f.value, ast.Name) and f.value.id in LOGGER_NAMES:
                return self.stmts(rest, env, tail)          # pure logging
            if f.attr == "append" and len(s.value.args) == 1 and not s.value.keywords:
                tgt = f.value
                if isinstance(tgt, ast.Name) and tgt.id in env and self.types[env[tgt.id]].startswith("list"):
                    lty = self.types[env[tgt.id]]
                    ety = lty[5:].strip("()") if lty != "list (list A)" else "list A"
                    t, ty = self.expr(s.value.args[0], env, want=ety)
                    if ty != ety:
                        raise Unsupported(f"append of {ty} to {lty}")
                    new = self.fresh(tgt.id, lty)
                    return f"let {new} := py_append {env[tgt.id]} {t} in\n    " + self.stmts(rest, dict(env, **{tgt.id: new}), tail)
                if isinstance(tgt, ast.Subscript) and isinstance(tgt.value, ast.Name) and tgt.value.id in env \
                        and self.types[env[tgt.value.id]] == "list (list A)" and ast.unparse(tgt.slice) == "-1":
                    t, ty = self.expr(s.value.args[0], env)
                    if ty != "A":
                        raise Unsupported("append of a non-item to the last shard")
                    new = self.fresh(tgt.value.id, "list (list A)")
                    return (f"let {new} := py_append_to_last {env[tgt.value.id]} {t} in\n    "
                            + self.stmts(rest, dict(env, **{tgt.value.id: new}), tail))
            raise Unsupported(f"unsupported call statement {ast.unparse(s)}")
        if isinstance(s, (ast.Assign, ast.AnnAssign, ast.AugAssign)):
            if isinstance(s, ast.Assign):
                if len(s.targets) != 1 or not isinstance(s.targets[0], ast.Name):
                    raise Unsupported(f"assignment target {ast.unparse(s)}")
                name, val, want = s.targets[0].id, s.value, None
            elif isinstance(s, ast.AnnAssign):
                if not isinstance(s.target, ast.Name) or s.value is None:
                    raise Unsupported(f"annotated assignment {ast.unparse(s)}")
                name, val, want = s.target.id, s.value, self.ann_type(s.annotation)
            else:
                if not isinstance(s.target, ast.Name) or not isinstance(s.op, ast.Add) or s.target.id not in env:
                    raise Unsupported(f"augmented assignment {ast.unparse(s)}")
                name, val, want = s.target.id, ast.BinOp(left=ast.Name(id=s.target.id), op=ast.Add(), right=s.value), None
            t, ty = self.expr(val, env, want=want)
            if name in env and self.types[env[name]] != ty:
                raise Unsupported(f"{name} changes type from {self.types[env[name]]} to {ty}")
            new = self.fresh(name, ty)
            return f"let {new} := {t} in\n    " + self.stmts(rest, dict(env, **{name: new}), tail)
        if isinstance(s, ast.If) and not s.orelse:
            c = self.cond(s.test, env)
            names = self.assigned(s.body)
            if any(n not in env for n in names):
                raise Unsupported(f"variable first assigned inside an if: {names}")
            inner = self.stmts(list(s.body), dict(env), lambda e2: "(" + ", ".join(e2[n] for n in names) + ")")
            if not names:
                # the branch has no effect on the state (pure logging): nothing to emit
                return self.stmts(rest, env, tail)
            news = [self.fresh(n, self.types[env[n]]) for n in names]
            pat = news[0] if len(news) == 1 else "'(" + ", ".join(news) + ")"
            old = "(" + ", ".join(env[n] for n in names) + ")"
            env2 = dict(env, **dict(zip(names, news)))
            return f"let {pat} := if {c} then ({inner}) else {old} in\n    " + self.stmts(rest, env2, tail)
        raise Unsupported(f"unsupported statement: {ast.unparse(s)[:160]}")

    @staticmethod
    def ann_type(a: ast.expr) -> str:
        txt = ast.unparse(a)
        if txt == "int":
            return "Z"
        if txt == "list[_ExternalDataInfo]":
            return "list info"
        if txt.startswith("list[list[") and "TensorProtocol" in txt:
            return "list (list A)"
        raise Unsupported(f"annotation {txt}")


def translate_fold(fn: ast.FunctionDef, coq_name: str, params: list[tuple[str, str]], known_calls, *,
                   seq: str = "tensors", result: str | None = None, start: int = 0, stop: int | None = None,
                   comment: str = "") -> str:
    """Translate statements fn.body[start:stop] of the shape <inits> ; for item in seq: <body> ; [return result]."""
    body = [s for s in fn.body[start:stop]
            if not (isinstance(s, ast.Expr) and isinstance(s.value, ast.Constant) and isinstance(s.value.value, str))]
    loops = [i for i, s in enumerate(body) if isinstance(s, ast.For)]
    if len(loops) != 1:
        raise Unsupported(f"{coq_name}: expected exactly one for loop, found {len(loops)}")
    li = loops[0]
    loop = body[li]
    if loop.orelse or not isinstance(loop.target, ast.Name) or ast.unparse(loop.iter) != seq:
        raise Unsupported(f"{coq_name}: loop header {ast.unparse(loop.target)} in {ast.unparse(loop.iter)}")
    tr = Loop(known_calls, loop.target.id)
    env: dict[str, str] = {}
    for p, ty in params:
        tr.types[p] = ty
        env[p] = p
    # initialisations
    carried = Loop.assigned(loop.body)
    inits: list[tuple[str, str, str]] = []
    for s in body[:li]:
        if isinstance(s, ast.Assign) and len(s.targets) == 1 and isinstance(s.targets[0], ast.Name):
            name, val, want = s.targets[0].id, s.value, None
        elif isinstance(s, ast.AnnAssign) and isinstance(s.target, ast.Name) and s.value is not None:
            name, val, want = s.target.id, s.value, Loop.ann_type(s.annotation)
        else:
            raise Unsupported(f"{coq_name}: statement before the loop: {ast.unparse(s)[:120]}")
        t, ty = tr.expr(val, env, want=want)
        inits.append((name, t, ty))
    state = [n for n, _, _ in inits if n in carried]
    if not state:
        raise Unsupported(f"{coq_name}: no loop-carried variable")
    for n, _, _ in inits:
        if n not in carried:
            raise Unsupported(f"{coq_name}: {n} initialised before the loop but not updated in it")
    after = body[li + 1:]
    if result is None:
        if len(after) != 1 or not isinstance(after[0], ast.Return) or not isinstance(after[0].value, ast.Name):
            raise Unsupported(f"{coq_name}: expected `return <var>` after the loop")
        result = after[0].value.id
    elif after:
        raise Unsupported(f"{coq_name}: unexpected statements after the loop region")
    if result not in state:
        raise Unsupported(f"{coq_name}: result {result} is not loop state")
    sty = {n: ty for n, _, ty in inits}
    st_ty = " * ".join(sty[n] for n in state)
    # step function
    senv = dict(env)
    for n in state:
        tr.types[n] = sty[n]
        senv[n] = n
    step_body = tr.stmts(list(loop.body), senv, lambda e2: "(" + ", ".join(e2[n] for n in state) + ")")
    pdecl = " ".join(f"({p} : {ty})" for p, ty in params)
    pargs = " ".join(p for p, _ in params)
    pat = state[0] if len(state) == 1 else "'(" + ", ".join(state) + ")"
    init_tuple = "(" + ", ".join(t for n, t, _ in inits if n in state) + ")"
    digest = ast_digest(fn)
    return (f"(* translated from {comment or fn.name}  ast={digest} *)\n"
            f"Definition {coq_name}_step {pdecl} (st : {st_ty}) ({tr.item} : A) : {st_ty} :=\n"
            f"    let {pat} := st in\n    {step_body}.\n"
            f"Definition {coq_name} ({seq} : list A) {pdecl} : {sty[result]} :=\n"
            f"    let {pat} := fold_left ({coq_name}_step {pargs}) {seq} {init_tuple} in {result}.\n")


def translate_straight(fn: ast.FunctionDef, coq_name: str, params: list[tuple[str, str]], known_calls, *,
                       item: str = "tensor", rettype: str = "info") -> str:
    """Straight-line function of an item and scalars ending in `return <expr>` (e.g. _compute_external_data_info)."""
    tr = Loop(known_calls, item)
    env: dict[str, str] = {}
    for p, ty in params:
        tr.types[p] = ty
        env[p] = p
    body = list(fn.body)
    if not body or not isinstance(body[-1], ast.Return) or body[-1].value is None:
        raise Unsupported(f"{coq_name}: must end in `return <expr>`")
    ret = body[-1].value

    def tail(e2):
        t, ty = tr.expr(ret, e2)
        if ty != rettype:
            raise Unsupported(f"{coq_name}: returns {ty}, wanted {rettype}")
        return t
    text = tr.stmts(body[:-1], env, tail)
    pdecl = " ".join(f"({p} : {ty})" for p, ty in params)
    return (f"(* translated from {fn.name}  ast={ast_digest(fn)} *)\n"
            f"Definition {coq_name} ({item} : A) {pdecl} : {rettype} :=\n    {text}.\n")

#!/usr/bin/env python3
"""Regenerate the generated part of DESIGN.md §10 (between the BEGIN/END GENERATED markers) from MANIFEST.json,
evidence/*.json, known_findings.json + known_findings.d/*.json and seeded/*/meta.json."""
import glob
import json
import os
import re

V = os.path.dirname(os.path.dirname(os.path.abspath(__file__)))


def load(p):
    with open(p) as f:
        return json.load(f)


def findings():
    out = load(os.path.join(V, "known_findings.json"))["findings"]
    for fn in sorted(glob.glob(os.path.join(V, "known_findings.d", "*.json"))):
        out += load(fn)["findings"]
    # de-duplicate by (property, key)
    seen, res = set(), []
    for f in out:
        k = (f.get("property"), f.get("key"))
        if k in seen:
            continue
        seen.add(k)
        res.append(f)
    return res


def main():
    man = load(os.path.join(V, "MANIFEST.json"))
    lines = []
    lines.append("### 10.1 Per-property status (generated from MANIFEST.json and the last committed evidence)\n")
    lines.append("| Id | level | obligations (discharged/total) | theorems in Property.v | cases/run (quick) | distinct non-trivial | wall s | deciding method |")
    lines.append("|---|---|---|---|---|---|---|---|")
    for c in man["checks"]:
        pid = c["property_id"]
        ev = {}
        try:
            ev = load(os.path.join(V, "evidence", f"{pid}.json"))
        except Exception:  # noqa: BLE001
            pass
        cov = ev.get("coverage", {})
        thms = [o["name"] for o in cov.get("obligation_list", []) if o["name"] != "no-admits-axioms-scan"]
        partial = [t for t in thms if "partial" in t]
        refuted = [t for t in thms if "refuted" in t]
        tdesc = f"{len(thms)}" + (f" ({len(partial)} partial)" if partial else "") + (f" ({len(refuted)} refutations)" if refuted else "")
        lines.append(f"| {pid} | {c['level_claimed']['category']} | {cov.get('discharged', '?')}/{cov.get('obligations', '?')} | {tdesc} | "
                     f"{cov.get('evaluations', '?')} | {cov.get('distinct_nontrivial', '?')} | {ev.get('wall_s', '?')} | {c.get('technique', '')} |")
    for na in man.get("not_applicable", []):
        lines.append(f"| {na['property_id']} | not claimed | | | | | | {na['reason']} |")
    lines.append("")
    lines.append("### 10.2 Findings (generated from known_findings.json and known_findings.d/)\n")
    lines.append("`fixed` = repaired in /repo by the named `fix:` commit (suppresses nothing; witness replayed as an ordinary case). "
                 "`known` = recorded, not repaired: the check prints `KNOWN-FINDING` for exactly this site/witness and exits 0.\n")
    lines.append("| Property | status | key | commit | what |")
    lines.append("|---|---|---|---|---|")
    for f in sorted(findings(), key=lambda f: (f.get("property", ""), f.get("status", ""), f.get("key", ""))):
        what = (f.get("what") or f.get("text") or "").replace("|", "\\|").replace("\n", " ")
        what = re.sub(r"^fixed: property=\S+ \S+ ", "", what)
        lines.append(f"| {f.get('property')} | {f.get('status')} | {f.get('key')} | {f.get('commit', '')} | {what[:300]} |")
    lines.append("")
    lines.append("### 10.3 Seeded property-breaking changes (generated from seeded/*/meta.json)\n")
    lines.append("Written by independent sub-agents that saw only the property text and a scratch worktree; each confirmed "
                 "(demo passes clean / fails patched; pinned suite passes with the patch) and then run against the check.\n")
    lines.append("| Seeded change | property | what it changes | needs to manifest | caught by check | with concrete replay |")
    lines.append("|---|---|---|---|---|---|")
    for d in sorted(glob.glob(os.path.join(V, "seeded", "*"))):
        try:
            m = load(os.path.join(d, "meta.json"))
        except Exception:  # noqa: BLE001
            continue
        c = m.get("confirmed", {})
        what = str(m.get("what_changed", m.get("title", ""))).replace("|", "\\|").replace("\n", " ")[:220]
        needs = str(m.get("needs_to_manifest", "")).replace("|", "\\|").replace("\n", " ")[:200]
        lines.append(f"| {os.path.basename(d)} | {m.get('property')} | {what} | {needs} | "
                     f"{'yes' if c.get('detected') else 'NO'} | {'yes' if c.get('detected_with_input') else 'no'} |")
    text = "\n".join(lines) + "\n"
    p = os.path.join(V, "DESIGN.md")
    s = open(p).read()
    b, e = "<!-- BEGIN GENERATED -->", "<!-- END GENERATED -->"
    if b in s and e in s:
        s = s[:s.index(b) + len(b)] + "\n" + text + s[s.index(e):]
    else:
        s += "\n## 10. As-built record\n\n" + b + "\n" + text + e + "\n"
    open(p, "w").write(s)
    print("DESIGN.md §10 tables regenerated")


if __name__ == "__main__":
    main()

#!/bin/bash
# Final confirmation of every seeded change against the current checks, in a scratch worktree of /repo HEAD
# (tools/seed_eval.py). usage: final_seeded_pass.sh <lane-name> <Cxx>...   (one lane per group of properties)
cd "$(dirname "$(readlink -f "$0")")/.."
lane=$1; shift
for p in "$@"; do
  for d in seeded/$p-*/; do
    n=$(basename $d)
    src=/tmp/fs-$lane-$n
    rm -rf $src; cp -r $d $src
    python3 tools/seed_eval.py $p $src $n 2>&1 | python3 -c "
import json,sys
try:
    d=json.load(sys.stdin); print('$n', {k:d.get(k) for k in ('demo_clean_rc','patch_applies','demo_patched_rc','check_rc','detected','detected_with_input')})
except Exception as e: print('$n ERROR', e)
"
    rm -rf $src
  done
done

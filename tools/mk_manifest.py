#!/usr/bin/env python3
"""Regenerate /verif/MANIFEST.json from the per-property table below (single source of truth)."""

import json
import os

VERIF = os.path.dirname(os.path.dirname(os.path.abspath(__file__)))

TRUST = ("Trusted: Coq 8.16.1 kernel (coqc, vm_compute; no native_compute); no axioms of our own (Print Assumptions "
         "under every property theorem is parsed on every run; a source scan rejects Admitted/admit/Axiom/Parameter/...); "
         "the fail-closed translator tools/translate.py where a Gen/*.v file is used; the correspondence harness "
         "(generators, Python->Coq literal printers, canonicalisation). ")

# id -> dict(level, text, note, technique, design_ref) ; properties missing here go to not_applicable
CHECKS = {
    "C07": dict(
        level="proof",
        text="Layout/shard/read-back/restore theorems proved in Coq for all tensor lists and options. The code of "
             "_align_offset, _validate_write_options, _compute_external_data_info, the offset loop of "
             "convert_tensors_to_external, external_data._shard_tensors, _safetensors._shard_tensors and the threshold "
             "comparison of unload_from_model is re-translated from the source on every run (tools/translate.py, "
             "tools/translate_loops.py, fail closed; the statements around the offset loop are pinned) and proved equal, "
             "for every input, to the model functions the theorems are stated over (C07_source_*). The byte-file image, "
             "shard file names and save()'s try/finally are hand models; everything is tied to the running code by "
             "differential execution of real save/load over the option grid (observed files, ranges, shard groupings "
             "and file bytes are evaluated against the model inside Coq); the property oracle (save->load->compare, "
             "range checks) supplies replays.",
        note=TRUST + "Translation abstracts a tensor to its nbytes and drops _ExternalDataInfo.name; logging calls are "
             "skipped. Modelled, not verified: tensor byte production (C04), the file system, onnx.save/load, the "
             "safetensors writer's file format, the writer threads (C09).",
        technique="Coq proof over a model regenerated from the source loops (ast->Gallina, equivalence theorems) + hand "
                  "model of the file image; vm_compute correspondence with real save/load",
        design_ref="§6 C07"),
    "C01": dict(
        level="proof",
        text="A heap model of Value/Node/Graph with 30 public mutators returning the partially mutated state on Raise. Proved "
             "for every history, rejected calls included: I1 (uses <-> node inputs) for every configuration of the model; I2 "
             "(outputs <-> producer/index) for the repaired model and for current-model histories avoiding the open defect "
             "sites; I3-I7 (node.graph <-> node sequence, ownership flags/ref counters <-> collections, initializers keyed by "
             "name, inputs/initializers without producer) per op and for histories (C01_inv_reachable_partial: Graph(...) "
             "called with arguments is outside these clauses). Open sites are refuted with vm_compute witnesses replayed on "
             "the implementation (known findings); sites repaired by fix commits are switched in current_cfg. Tie: every op "
             "of generated histories (incl. malformed calls at every argument position, exhaustive length<=2 container "
             "histories) is executed on real objects and outcome + hash of the full public observation is compared inside "
             "Coq after every op; the oracle recomputes I1-I7 through public accessors.",
        note=TRUST + "Oracle-only (not in the Coq model): slices, Graph.sort, popitem/update/setdefault/|=, register_initializer, "
             "the convenience functions. The executor rebinds onnx_ir._core.frozenset to an insertion-ordered set "
             "(Graph.remove iterates a frozenset of nodes in address order). Node sequence is a plain list here (C11).",
        technique="Coq invariant proof over heap model of the mutator alphabet; per-step vm_compute correspondence (hashed observations)",
        design_ref="§6 C01, §10"),
    "C04": dict(
        level="proof",
        text="Ten theorems over dtype tables and dispatch sets re-extracted from _enums.py/_core.py/serde.py on every run: "
             "table consistency (vm_compute over the generated finite tables), every representation reports dtype/shape, "
             "len(tobytes) = nbytes = ceil(size*bw/8), pack/unpack laws for 2- and 4-bit data (any length incl. odd, "
             "non-multiple of 4, zero), numpy() of every representation holds the logical elements, tobytes() = little-endian "
             "packing for every representation, tofile() writes exactly those bytes at the current position for every "
             "copy_file_range partial-copy schedule and chunk size leaving the rest unchanged, external tensors at any "
             "offset, serialization represents the same data; strings partial (trailing-NUL refutation is a known finding). "
             "Tie: 25 dtypes x sizes 0..9 x 28 representation/storage variants + random, compared inside Coq, with "
             "onnx.numpy_helper as third voice and the torch adapter where torch has the dtype.",
        note=TRUST + "Modelled, not verified: numpy view/astype/resize/frombuffer, ml_dtypes low-bit contract (checked on all 256 "
             "bytes each run), mmap, copy_file_range, torch; nbytes float arithmetic exact below 2^50 elements.",
        technique="Coq proof over regenerated dtype tables + hand model of packing/representations; vm_compute correspondence",
        design_ref="§6 C04, §10"),
    "C05": dict(
        level="proof",
        text="A term language for models (nested subgraphs, functions, initializers, opaque annotations) with a denotational "
             "semantics over UNINTERPRETED operators (interp is a Section variable constrained only by what the passes rely "
             "on) and executable models of the passes. 26 closed theorems, for every interp/environment/fuel: semantics + "
             "signature preservation of CommonSubexpressionElimination (whole pass), RemoveUnusedNodes (incl. schema-driven "
             "optional-output trimming; the BatchNormalization training_mode case is refuted = known finding), "
             "IdentityElimination, both initializer deduplication passes, LiftConstantsToInitializers, OutputFix, "
             "LiftSubgraphInitializers, Add/RemoveInitializersFromInputs, AddDefaultAttributes, TopologicalSort (checked "
             "relation), RemoveUnusedFunctions and InlinePass (environment-changing simulation; nested calls, attribute "
             "parameters and defaults, calls inside subgraphs), the frame passes NameFix/ClearMetadata/ShapeInference/"
             "RemoveUnusedOpsets (den ignores annotations), and C05_sequence over all thirteen modelled passes. The models "
             "of RemoveUnusedFunctions and Inline are CERTIFICATE-CHECKED: they apply the implementation's rule only when an "
             "executable certificate (drop_closedb / inline_certb / live_agreeb, proved sound) holds, else leave the model "
             "unchanged — which the correspondence would show as a mismatch with the code. Tie: the real pass output, "
             "converted to terms, must agree with the model pass inside Coq on generated valid models and pass sequences; the "
             "oracle executes before/after with onnx.reference / onnxruntime (bitwise, NaN-aware), checks the I/O signature "
             "and runs onnx.checker. The CSE non-deterministic operator set is regenerated from source.",
        note=TRUST + "Modelled, not verified: real operator semantics (uninterpreted; hypothesis interp_graph_ids: operators see "
             "graph attributes only through their denotations), onnx.checker beyond the structural Valid, shape inference, "
             "schemas (optional outputs, default attributes).",
        technique="Coq simulation proofs for all modelled passes (certificate-checked models for Inline/RemoveUnusedFunctions); vm_compute correspondence; execution oracle",
        design_ref="§6 C05, §10"),
    "C06": dict(
        level="proof",
        text="Over the C01 heap model: a raising op returns the input heap itself, hence every observation is unchanged "
             "(C06_raise_frame_partial for current-model histories avoiding the open sites, C06_raise_frame_fixed_partial "
             "for the repaired model; multi-element ops validate the whole argument first so a failure at any position k is "
             "covered; 'partial': Graph(...) with arguments is out of scope). Open sites refuted with witnesses replayed on "
             "the implementation (known findings: Graph(...) rejected midway, the two non-transactional convenience "
             "functions). Tie: as C01, with a malformed stream placing the offending element at every position; the oracle "
             "deep-snapshots all reachable objects before each op and compares after a raising op.",
        note=TRUST + "Same trusted base as C01.",
        technique="Coq frame theorem over the C01 heap model; per-step vm_compute correspondence; snapshot oracle",
        design_ref="§6 C06, §10"),
    "C09": dict(
        level="proof",
        text="Nine theorems, none partial, for every configuration and every schedule of an executable labelled transition "
             "system of the parallel writer (single-file, serial inner writers, sharded two-level driver sharing one budget, "
             "lock table and outer callback lock; explicit condition-variable wait set): budget invariant and memory bound, "
             "callback mutual exclusion and exactly-once, per-tensor-object mutual exclusion, no lost wake-up, error path "
             "(exception delivered only after all workers stopped with the budget released), termination with an explicit "
             "bound, deadlock freedom, files equal to the serial writer's. The guard/update expressions of _ByteBudget and "
             "_reservation_bytes are re-extracted from the source on every run. Tie: threading/concurrent.futures/_ByteBudget "
             "rebound to a cooperative runtime where one thread runs at a time and every synchronisation call is a "
             "scheduling point; recorded traces are checked inside Coq to be paths of the LTS with equal budget state, "
             "outcome, callback order and files (exhaustive DFS on small configs, random/PCT beyond, real-thread soak).",
        note=TRUST + "Modelled, not verified: the GIL, Lock/Condition/ThreadPoolExecutor contracts (they are the LTS rules), OS "
             "semantics of several r+b writers on disjoint ranges, callback=None paths.",
        technique="Coq proof over LTS model (invariants by induction over schedules); cooperative-scheduler trace acceptance in Coq",
        design_ref="§6 C09, §10"),
    "C10": dict(
        level="proof",
        text="Eleven theorems, none partial, for any file-system tree (directories, files, arbitrary symlinks incl. loops, hard "
             "links), any cwd, base and location strings and any history: os.path.realpath (modelled after CPython) agrees "
             "with kernel resolution whenever open() succeeds; the string test startswith(base+sep) equals component-wise "
             "prefix (prefix-sibling case); if the three-layer check passes and the open succeeds, the file read lies inside "
             "the resolved base, is regular and singly linked; every entry point opens at most once and only after a passing "
             "check, nothing is read when the check raises; load() gives every tensor (graph and model-local functions) a "
             "non-empty base that resolves to the model's directory for every spelling. Tie: generated worlds materialised "
             "on disk and snapshotted into Coq terms; real ExternalTensor histories, os.path functions, stat/lstat and ir.load "
             "spellings compared inside Coq; canary files make escapes visible to the oracle.",
        note=TRUST + "Modelled, not verified: TOCTOU between check and open, non-POSIX normcase, the kernel's 40-link rule "
             "(nesting bound), permissions, FIFOs/devices, non-ASCII names, mmap.",
        technique="Coq proof over path/FS model (realpath vs resolution, prefix lemma, check-before-read); on-disk world correspondence",
        design_ref="§6 C10, §10"),
    "C02": dict(
        level="proof",
        text="Gallina datatypes mirroring onnx.proto with explicit presence, deser/ser written after serde.py, and the documented "
             "normalisation norm. C02_roundtrip (= C02_model_roundtrip) is a closed theorem: forall p, wf_model p -> exists q, "
             "ser (deser p) = Ok q /\\ norm q = norm p, proved by induction on nesting depth through the stage theorems: dims and "
             "denotations, arbitrarily nested types, tensor fields (proto-backed, external, string; initializer rename), "
             "value-info, metadata on every carrier, attributes of all kinds incl. reference attributes, node scoping, "
             "graph stage (name tables after each phase of _deserialize_graph, initializer-for-an-input, outputs declared "
             "before nodes are read, value-info application/emission/completion, quantization annotations exactly once, "
             "pass-through inputs, trailing outputs), function stage (overloads, attribute parameters, IR-10 value_info incl. "
             "function inputs), model stage; fuel proved sufficient. IR-version gates and enum members are regenerated from "
             "serde.py/_enums.py on every run. Tie: a proto->Coq-term converter; the implementation's "
             "to_proto(from_proto(p)) is compared inside Coq with the model's output and with p after norm on generated "
             "protos covering the quantifier's feature list + unsupported-construct mutations; stricter norm-aware Python "
             "diff oracle.",
        note=TRUST + "Modelled, not verified: protobuf presence/CopyFrom, tensor payload decoding (C04). wf excludes sparse "
             "attributes, map types and external_data keys other than location/offset/length (known finding).",
        technique="Coq proof of the proto->IR->proto round trip over a field-level proto model; vm_compute correspondence with serde",
        design_ref="§6 C02, §10"),
    "C03": dict(
        level="proof",
        text="C03_iso is a closed theorem for whole models: for every IR state with serializable_tm (boolean, non-vacuous: leaf "
             "table sane and unfolding well formed — no dangling/duplicated/empty value names per scope), ser succeeds, deser of "
             "the result succeeds, the unfolding of the result (every value occurrence replaced by (scope depth, index among the "
             "values the scope defines) from object identity; names, payloads, op ids, tensors, node order kept) equals the "
             "original's, and the result satisfies the use-def/ownership invariant — covering nested graphs with captured "
             "outer-scope values, unsorted node order, optional inputs, empty-named outputs, initializers and model-local "
             "functions. Also proved: serialization is read-only except aligning initializer tensor names "
             "(C03_ser_readonly), a second to_proto returns the same proto (C03_ser_twice_equal), ser(deser(ser h)) = ser h "
             "(C03_ser_deser_ser), determinism. Tie: IR models built through the public API incl. edit histories, several "
             "tensor implementations, functions, device configurations; to_proto / from_proto(to_proto) observations and the "
             "theorem's statement are evaluated inside Coq per case; independent Python isomorphism oracle, accessor "
             "snapshot before/after to_proto, serialize-twice comparison.",
        note=TRUST + "Leaf payloads (tensor bytes, types/shapes, plain attributes, metadata, device configurations) are opaque "
             "tokens computed by the library's own leaf (de)serializers (C02/C04); protobuf itself; Python recursion limit. "
             "Documented deviation kept as hypothesis: a non-input initializer gets type/shape filled from its tensor.",
        technique="Coq proof of the IR->proto->IR isomorphism (equality of unfoldings) + read-only/twice-equal; vm_compute correspondence",
        design_ref="§6 C03, §10"),
    "C05": dict(
        level="translation_validation",
        text="A term language for models (nested subgraphs, functions, initializers) with a denotational semantics over "
             "UNINTERPRETED operators (interp is a Section variable constrained only by what the passes rely on) and executable "
             "models of 15 passes. Proved in Coq for every interp/environment (closed): a generic simulation theorem "
             "(replace-uses, remove-dead, eliminate-identity, lift-constant), semantics + signature preservation of "
             "IdentityElimination, both initializer deduplication passes, LiftConstantsToInitializers, TopologicalSort "
             "(as a relation), and of any sequence of identity elimination / dedup / DCE; DCE and one CSE merge step are "
             "partial; the BatchNormalization training_mode defect is refuted with a witness (known finding). NOT proved: CSE "
             "as a whole, OutputFix, LiftSubgraphInitializers, Add/RemoveInitializersFromInputs, RemoveUnusedFunctions "
             "(modelled, compared structurally), Inline and AddDefaultAttributes (oracle only) — hence translation validation: "
             "the real pass output, converted to terms, must agree with the model pass inside Coq on generated valid models "
             "and pass sequences, and the oracle executes before/after with onnx.reference / onnxruntime (bitwise, NaN-aware), "
             "checks the I/O signature and runs onnx.checker. The CSE non-deterministic operator set is regenerated from source.",
        note=TRUST + "Modelled, not verified: real operator semantics (uninterpreted), onnx.checker beyond the structural Valid, "
             "shape inference, schemas (optional outputs, default attributes). NameFix/ClearMetadata/ShapeInference/"
             "RemoveUnusedOpsets: frame check only (names and metadata are outside the term language).",
        technique="Coq simulation proofs for 5 passes + per-case Coq comparison of real pass outputs with model passes; execution oracle",
        design_ref="§6 C05, §10"),
    "C06": dict(
        level="proof",
        text="Over the C01 heap model: a raising op returns the input heap itself, hence every observation is unchanged "
             "(C06_raise_frame_partial for current-model histories avoiding the open sites, C06_raise_frame_fixed_partial "
             "for the repaired model; multi-element ops validate the whole argument first so a failure at any position k is "
             "covered; 'partial': Graph(...) with arguments is out of scope). Open sites refuted with witnesses replayed on "
             "the implementation (known findings: Graph(...) rejected midway, the two non-transactional convenience "
             "functions). Tie: as C01, with a malformed stream placing the offending element at every position; the oracle "
             "deep-snapshots all reachable objects before each op and compares after a raising op.",
        note=TRUST + "Same trusted base as C01.",
        technique="Coq frame theorem over the C01 heap model; per-step vm_compute correspondence; snapshot oracle",
        design_ref="§6 C06, §10"),
    "C09": dict(
        level="proof",
        text="Nine theorems, none partial, for every configuration and every schedule of an executable labelled transition "
             "system of the parallel writer (single-file, serial inner writers, sharded two-level driver sharing one budget, "
             "lock table and outer callback lock; explicit condition-variable wait set): budget invariant and memory bound, "
             "callback mutual exclusion and exactly-once, per-tensor-object mutual exclusion, no lost wake-up, error path "
             "(exception delivered only after all workers stopped with the budget released), termination with an explicit "
             "bound, deadlock freedom, files equal to the serial writer's. The guard/update expressions of _ByteBudget and "
             "_reservation_bytes are re-extracted from the source on every run. Tie: threading/concurrent.futures/_ByteBudget "
             "rebound to a cooperative runtime where one thread runs at a time and every synchronisation call is a "
             "scheduling point; recorded traces are checked inside Coq to be paths of the LTS with equal budget state, "
             "outcome, callback order and files (exhaustive DFS on small configs, random/PCT beyond, real-thread soak).",
        note=TRUST + "Modelled, not verified: the GIL, Lock/Condition/ThreadPoolExecutor contracts (they are the LTS rules), OS "
             "semantics of several r+b writers on disjoint ranges, callback=None paths.",
        technique="Coq proof over LTS model (invariants by induction over schedules); cooperative-scheduler trace acceptance in Coq",
        design_ref="§6 C09, §10"),
    "C10": dict(
        level="proof",
        text="Eleven theorems, none partial, for any file-system tree (directories, files, arbitrary symlinks incl. loops, hard "
             "links), any cwd, base and location strings and any history: os.path.realpath (modelled after CPython) agrees "
             "with kernel resolution whenever open() succeeds; the string test startswith(base+sep) equals component-wise "
             "prefix (prefix-sibling case); if the three-layer check passes and the open succeeds, the file read lies inside "
             "the resolved base, is regular and singly linked; every entry point opens at most once and only after a passing "
             "check, nothing is read when the check raises; load() gives every tensor (graph and model-local functions) a "
             "non-empty base that resolves to the model's directory for every spelling. Tie: generated worlds materialised "
             "on disk and snapshotted into Coq terms; real ExternalTensor histories, os.path functions, stat/lstat and ir.load "
             "spellings compared inside Coq; canary files make escapes visible to the oracle.",
        note=TRUST + "Modelled, not verified: TOCTOU between check and open, non-POSIX normcase, the kernel's 40-link rule "
             "(nesting bound), permissions, FIFOs/devices, non-ASCII names, mmap.",
        technique="Coq proof over path/FS model (realpath vs resolution, prefix lemma, check-before-read); on-disk world correspondence",
        design_ref="§6 C10, §10"),
    "C02": dict(
        level="proof",
        text="Gallina datatypes mirroring onnx.proto with explicit presence, deser/ser written after serde.py, and the documented "
             "normalisation norm. C02_roundtrip (= C02_model_roundtrip) is a closed theorem: forall p, wf_model p -> exists q, "
             "ser (deser p) = Ok q /\\ norm q = norm p, proved by induction on nesting depth through the stage theorems: dims and "
             "denotations, arbitrarily nested types, tensor fields (proto-backed, external, string; initializer rename), "
             "value-info, metadata on every carrier, attributes of all kinds incl. reference attributes, node scoping, "
             "graph stage (name tables after each phase of _deserialize_graph, initializer-for-an-input, outputs declared "
             "before nodes are read, value-info application/emission/completion, quantization annotations exactly once, "
             "pass-through inputs, trailing outputs), function stage (overloads, attribute parameters, IR-10 value_info incl. "
             "function inputs), model stage; fuel proved sufficient. IR-version gates and enum members are regenerated from "
             "serde.py/_enums.py on every run. Tie: a proto->Coq-term converter; the implementation's "
             "to_proto(from_proto(p)) is compared inside Coq with the model's output and with p after norm on generated "
             "protos covering the quantifier's feature list + unsupported-construct mutations; stricter norm-aware Python "
             "diff oracle.",
        note=TRUST + "Modelled, not verified: protobuf presence/CopyFrom, tensor payload decoding (C04). wf excludes sparse "
             "attributes, map types and external_data keys other than location/offset/length (known finding).",
        technique="Coq proof of the proto->IR->proto round trip over a field-level proto model; vm_compute correspondence with serde",
        design_ref="§6 C02, §10"),
    "C03": dict(
        level="translation_validation",
        text="Proved in Coq for all IR states: serialization is read-only except aligning an initializer tensor's name with its "
             "value (C03_ser_readonly), a second to_proto on the state the first left returns the same proto "
             "(C03_ser_twice_equal), determinism, and the round-tripped state always satisfies the use-def/ownership "
             "invariant (C03_roundtrip_consistent_partial). The isomorphism clause (C03_iso) is stated in Property.v but NOT "
             "proved: it is evaluated inside Coq on every generated case (iso_statement_b on the model's ser/deser) and "
             "compared with the implementation, plus an independent Python isomorphism oracle — hence translation "
             "validation, not proof, for that clause.",
        note=TRUST + "Leaf payloads (tensor bytes, types/shapes, plain attributes, metadata) are opaque tokens computed by the "
             "library's own leaf (de)serializers (C02/C04 territory); protobuf itself; Python recursion limit. "
             "serializable_b: const_value only on initializers, no tensor shared by two values, non-input initializers typed.",
        technique="Coq proofs (read-only, twice-equal) + per-case Coq evaluation of the isomorphism statement against from_proto(to_proto(m))",
        design_ref="§6 C03, §10"),
    "C08": dict(
        level="proof",
        text="An effect-list model of _write_external_data / the sharded path over a small file-system model; proved for every "
             "input, every kill point k and every single fault: the destination is its old node or a file moved wholesale by "
             "os.replace after every action of the write returned normally (never a mixture or truncation) "
             "(C08_crash_atomic, C08_interrupt_atomic, C08_new_is_image: new bytes = every tensor's bytes at its offset, for "
             "every tensor kind incl. the chunked ExternalTensor copy; interruptions include BaseException kinds); on an exception the whole "
             "directory equals the initial one, no temp left, external tensors valid and reading old bytes "
             "(C08_exception_clean, full, single-fault assumption in the statement); sharded saves never change a "
             "pre-existing path; invalidation only if replaced. Tie: FS-affecting names rebound to logging proxies; the "
             "un-interrupted trace must equal the model's, then EVERY effect index is failed in-process and used as a kill "
             "point in a forked child, outcomes compared inside Coq.",
        note=TRUST + "Modelled, not verified: atomicity of os.replace, power loss, copy_file_range fast path, the parallel "
             "writer (oracle only). Contracts as hypotheses: mkdtemp returns a fresh name; destination is not a directory.",
        technique="Coq proof over effect-list/FS model; fault+kill injection at every effect index compared in Coq",
        design_ref="§6 C08, §10"),
    "C11": dict(
        level="proof",
        text="27 theorems, none partial, proved for all states and all schedules (any number of forward/backward cursors "
             "interleaved with append/extend/insert_before/insert_after/remove/move): well-formedness invariant preserved; "
             "every edit refines the plain-list operation (len, g[i], membership, list, reversed agree); a cursor yields only "
             "live nodes, terminates within len+1 steps once edits stop, never raises; untouched nodes are yielded exactly "
             "once in graph order; inserted-after yielded / inserted-before skipped; removed or moved current node resumes "
             "at its original successor; cursors are independent; RecursiveGraphIterator (stack of lazily entered cursors over a "
             "forest, enter/exit callbacks, forward and reverse) never raises, yields only nodes of the frame's graph, "
             "terminates, and yields untouched nodes exactly once in pre-order under every interleaving with edits. Tie: the model (live sequence + frozen tombstone links, "
             "generator-resume semantics) is replayed inside Coq against DoublyLinkedSet, ir.Graph and ir.Function on random "
             "schedules and exhaustive small scopes; the oracle states the property against a plain-list spec.",
        note=TRUST + "Graph.sort's order enters as a permutation (C12); the iterator's `recursive` predicate is not modelled; "
             "CPython generator semantics are the model's cursor rules.",
        technique="Coq proof over tombstone-list model; vm_compute replay of schedules against DoublyLinkedSet/Graph",
        design_ref="§6 C11, §10"),
    "C13": dict(
        level="proof",
        text="21 theorems, none partial, over a heap model with separate cells for every mutable sub-object the cloner shares or "
             "copies (values, nodes, graphs, shapes, types, metadata dicts, meta stores, Attr cells; tensors immutable): a clone "
             "only allocates (no existing cell is written, also when rejected); every cell reachable from the clone is fresh "
             "except shared non-graph Attr cells, shallow meta objects, and explicitly allowed outer-scope values; closedness "
             "for graphs whose values are defined before use; the clone's canonical serialization equals the original's; for "
             "each of 19 setters and any edit history on one copy the other copy's cells and serialization are unchanged "
             "(C13_independent*); a functionalized pass leaves its input unchanged. The unsorted + allow_outer_scope_values "
             "defect is refuted with a vm_compute witness (known finding). Tie: models built through the public API are "
             "cloned by the real code through all four entry points, the full object graph (identity -> ids) is dumped and "
             "the model's clone must be heap-isomorphic inside Coq (same sharing structure); edit histories applied on both "
             "sides; canonical-serialization projection compared with to_proto.",
        note=TRUST + "Modelled, not verified: back-pointers/name authority (C01), tensor objects' own fields (known finding "
             "tensor-rename-alias), in-place mutation of shared Attr objects; Iso.v (case-file support) is trusted harness.",
        technique="Coq proof over heap model of the cloner; vm_compute heap-isomorphism correspondence with clone() + edit histories",
        design_ref="§6 C13, §10"),
    "C14": dict(
        level="proof",
        text="Proved in Coq: the identity rule for every pass term (primitive, Sequential, PassManager, functionalize), the "
             "modified flag of compositions, PassManager convergence under a measure, call_onnx_api leaves inputs, initializer "
             "order and every tensor/shape/dtype unchanged for every outcome of serialization and of the ONNX call "
             "(C14_analysis_readonly), and flag soundness + convergence with explicit measures for the modelled passes "
             "(clear, DCE on flat graphs, toposort flag, Add/RemoveInitializers). Tie: 2600 cases/run compared inside Coq "
             "with the real pass infrastructure; the oracle sweeps all 22 built-in pass variants and compositions, with "
             "faults injected at the ONNX boundary (rebound checker/shape inference, raising LazyTensor).",
        note=TRUST + "Passes not modelled in Coq (inliner, CSE, identity elimination, lifting, shape inference merge, ...) are "
             "covered by the oracle only; onnx.checker/shape_inference are section variables that may raise.",
        technique="Coq proof over pass-infrastructure and call_onnx_api models; vm_compute correspondence; fault injection",
        design_ref="§6 C14, §10"),
    "C15": dict(
        level="proof",
        text="19 theorems, none partial. NameAuthority: generated names never collide with any name registered or generated "
             "before, for every add/remove/re-add history with arbitrary explicit names (fuel suffices via injectivity of "
             "decimal printing); explicit names are kept. rename_values: all-or-nothing for every assignment (swaps, cycles, "
             "initializers). NameFixPass (model of the code after fix 25cf9b5): the whole pass never raises (C15_fix_total, "
             "under clause I5 of the C01 invariant and closed_run); after it every value/node has a non-empty name, value "
             "names are pairwise distinct per graph and from visible enclosing values, node names distinct per graph, "
             "initializers keyed by current names (C15_fix_post, under well_scoped); already-unique value and node names are "
             "kept (C15_fix_keeps_unique*); nothing but names changes (C15_fix_only_names over an opaque payload). Each "
             "hypothesis is shown necessary by a _refuted witness reproduced on the real code (known findings on ill-scoped "
             "models). Tie: histories on real ir.Graph objects, generated models with colliding names across nested scopes "
             "and functions, random rename assignments — all compared inside Coq.",
        note=TRUST + "Hypotheses well_scoped / closed_run / disjoint function runs exclude models that are not valid ONNX scoping "
             "(function body reading a main-graph value; subgraph reading a value produced later).",
        technique="Coq proof (name authority, NameFixPass, rename_values) + vm_compute correspondence",
        design_ref="§6 C15, §10"),
    "C16": dict(
        level="proof",
        text="10 theorems, none partial: the recursive-descent parser (tokenizer at character level, fuel proved sufficient) is "
             "sound and complete w.r.t. an unambiguous reference grammar with standard precedence/associativity; exact "
             "rational evaluation has integer semantics for // % floor ceil trunc min max; partial then complete binding = "
             "complete binding; printing then parsing preserves every evaluation. The operator sets per precedence level, "
             "the call structure of the _parse_* methods, tokenizer character tests and the allowed-function table are "
             "regenerated from _symbolic_shapes.py on every run (C16_tables_current). Tie: the real parser run with SymPy "
             "replaced by a recording stub (trees compared in Coq), real SymbolicDim operators/evaluate/simplify/serde "
             "compared with the model's exact evaluation.",
        note=TRUST + "SymPy's algebra, simplify and printer are an oracle (three SymPy 1.14 auto-evaluation defects are known "
             "findings attributed only when SymPy alone reproduces them); Sqrt only on perfect squares.",
        technique="Coq proof (parser = reference grammar; exact evaluation laws) over regenerated tables; stubbed-SymPy correspondence",
        design_ref="§6 C16, §10"),
    "C17": dict(
        level="proof",
        text="deser_model is a total Gallina function (structural recursion on the proto: termination for every proto); "
             "C17_consistent is proved with NO well-formedness hypothesis: whenever deserialization returns an IR, the "
             "use-def/ownership invariant I1-I7 holds; C17_ser_fixpoint is proved for EVERY proto: if deser p returns an IR "
             "and serializing it returns q, then q deserializes and re-serializes to q (generalised unfolding handling "
             "placeholders, duplicated/empty input names, unknown outputs), under three boolean contracts on the opaque leaf "
             "(de)serializers that are evaluated by vm_compute on every accepted case. Tie: 28+ field-level mutation kinds, "
             "byte-level mutations and random protos; outcome class, canonical IR and re-serialized proto compared inside "
             "Coq; the oracle checks I1-I7 through public accessors, the fixpoint and absence of file access (audit hook "
             "during from_proto and during name/dtype/shape/size inspection).",
        note=TRUST + "Leaf payloads opaque (C02/C04) with contracts np_ok, np_idem, leaf_fill_m; Python recursion limit; IR<10 "
             "function value-info, device configurations, quantization annotations and invalid UTF-8 are oracle-only.",
        technique="Coq proof (totality, consistency of any returned IR, re-serialization fixpoint) + vm_compute correspondence on mutated protos",
        design_ref="§6 C17, §10"),
    "C18": dict(
        level="proof",
        text="Proved in full: the walk terminates; the extracted node set is exactly the least region closed under "
             "'producer of a needed value' (both inclusions) in original order; exactly the needed initializers; uncovered "
             "required values raise; analyze_implicit_usage returns exactly the outer-scope values used in each nested graph "
             "or deeper, at every depth; C18_semantics / C18_semantics_nested: for every operator semantics and environment, "
             "running the extracted nodes with inputs bound to the source's boundary values and initializers to the source's "
             "tensors gives the source's values at the outputs (nested bodies evaluated recursively; control operators "
             "uninterpreted but extensional); source-kind differences (Function, GraphView) stated and proved. Tie: real extract / analyze_implicit_usage on "
             "generated graphs x cuts compared inside Coq; oracle: brute-force scopes, independence, ReferenceEvaluator.",
        note=TRUST + "The cloner's value copying is not modelled (C13); Python set order is a universally quantified shuffle; "
             "value.graph/producer/is_initializer are read from the implementation into the model's value table.",
        technique="Coq proof (least closed region, exact captures) + vm_compute correspondence over graphs x cuts",
        design_ref="§6 C18, §10"),
    "C19": dict(
        level="proof",
        text="16 theorems, none partial, for unbounded histories of the annotation/edit ops over nested scopes (main graph, function, subgraph bodies): DevInv holds in every reachable "
             "state; DevInv and non-empty names imply the library's own check reports nothing; annotations are dropped "
             "exactly when a value leaves the node; every rejected request leaves the state unchanged; serialized references "
             "use current names; deserialization resolves names through the scope stack to the very objects, so a round trip at IR>=11 is the identity on DevInv states for arbitrary nesting (captured values, shadowing). Tie: "
             "histories on real objects (main graph + function) with clones and to_proto/from_proto round trips, "
             "observations after every op compared inside Coq; oracle through the public API.",
        note=TRUST + "Reading decisions as ops_ok (configuration registered at request time, device indices in range, cascade "
             "removal; no shape edits after sharding) — probed on every run and reported as observations. Subgraph scopes, "
             "protobuf presence and shape/type serialization are not modelled.",
        technique="Coq invariant proof over annotation state machine; vm_compute correspondence with clone/round-trip ops",
        design_ref="§6 C19, §10"),
    "C12": dict(
        level="proof",
        text="Theorems, none partial, proved in Coq for all scopes (any DAG/cyclic graph, nesting depth, captures): "
             "outcome is Ok or ValueError (fuel = node count suffices), every graph keeps exactly its nodes (permutation), "
             "Ok result respects same-graph producers of values used by a node or anything nested in it, ValueError iff the "
             "dependency relation is cyclic, nothing changes on ValueError, an ordered well-scoped scope is left exactly "
             "as it was, determinism. The executable model of Graph.sort/Function.sort/TopologicalSortPass is proved equal "
             "(C12_source_is_model) to a fail-closed statement-by-statement translation of Graph.sort's source regenerated "
             "on every run (heapq by contract; the predecessor-collection loop, Function.sort, the iterator and the pass "
             "pinned textually) and is additionally tied by Coq-evaluated correspondence on generated forests: single "
             "sorts, multi-step edit/sort histories, shared-subgraph malformed inputs, sorts of graphs nested in function "
             "bodies, reruns under other hash seeds and allocation orders; the oracle supplies replays.",
        note=TRUST + "Modelled, not verified: heapq (contract: pop returns the smallest key), CPython object identity/hash "
             "order (reruns under other PYTHONHASHSEED), RecursiveGraphIterator pre-order (pinned + correspondence). "
             "Hypothesis wf excludes only one Graph object under two attributes (covered by the correspondence: spurious "
             "ValueError, atomic) and a self-nested graph (RecursionError; oracle-only probe). The frame property for graphs "
             "outside the sorted scope is oracle-checked.",
        technique="Coq proof over a model proved equal to the per-run translation of Graph.sort's source; vm_compute "
                  "correspondence with Graph.sort",
        design_ref="§6 C12, §10"),
    "C20": dict(
        level="proof",
        text="Restore and transparency theorems proved in Coq for all well-nested programs (unbounded depth, exceptions "
             "anywhere, try/except anywhere) over the saved/patched/restored key lists and the statement sequences of the "
             "wrapper factories re-extracted from _wrappers.py on every run (patched ⊆ restored ⊆ saved by vm_compute on the "
             "generated lists, so a wrapper without its restore breaks the proof); Journal.__enter__/__exit__/record pinned "
             "by AST digest: after leaving a journal the class table and current journal equal what they were before "
             "(C20_restore), a wrapped call has the original's heap effect, result and exception plus exactly one entry when "
             "it returns (C20_wrapped_call), whole journaled programs equal plain runs with entries in program order "
             "(C20_transparent, C20_entries_count). Tie: journaled-vs-plain differential runs over the C01-style alphabet "
             "(nesting 0-4, exceptions escaping journals), class-attribute identity at every exit, weak-reference liveness "
             "after gc, and Coq-evaluated entry logs from a tracer installed beneath the journals.",
        note=TRUST + "Hypothesis wf: a Journal object is not re-entered while active (C20_reentrant_use_not_restored shows it is "
             "needed; observation, not a violation). Modelled, not verified: purity of details_func/repr/getattr inside "
             "wrappers, determinism of the original methods, hooks, threads.",
        technique="Coq proof over class-table model with wrapper lists regenerated from source; differential journaled/plain runs",
        design_ref="§6 C20, §10"),
}

NOT_YET = "no check registered yet in this revision (model under construction; see DESIGN.md §6)"


# ---- updates after the deepening round (kept separate so that the original entries above stay readable)
CHECKS["C09"].update(
    text="Proved in Coq for all configurations and all schedules of an executable LTS of the concurrent writer (single-file "
         "parallel, serial inner, sharded two-level; budget with explicit wait set; per-worker descriptor open/close with "
         "OSError outcomes): budget bound, callback and tensor-object mutual exclusion, callback exactly once, each tensor "
         "evaluated at most once, no lost wake-up, untimed waits (timeout arguments re-extracted from the source on every "
         "run), descriptors valid while writing and all closed on every return path, exception delivered only after all "
         "workers stopped with the budget released, termination measure, deadlock freedom, files equal to the serial save. "
         "The LTS is tied to the code by regenerated budget arithmetic plus Coq-checked event traces of the real "
         "unload_from_model under a cooperative scheduler (exhaustive DFS for tiny configurations, random/PCT beyond; fault "
         "kinds RuntimeError/BaseException/OSError/short source/EMFILE on open), plus a real-thread soak.",
    note=TRUST + "Modelled, not verified: the GIL, Lock/Condition/ThreadPoolExecutor contracts (they are the LTS rules), OS "
         "semantics of several r+b writers on disjoint ranges. Oracle only: callback=None paths; the serial writer's single "
         "`with open` descriptor and the truncate descriptor; the streams use dense layouts (aligned offsets are data of "
         "the model). 'An open fault makes the save raise' follows from C09_error_path plus the failing POpen step.",
    technique="Coq proof over LTS of the writer (all schedules) + Coq-checked event traces under a cooperative scheduler")
CHECKS["C10"].update(
    text="Coq theorems over an executable file-system/posixpath/kernel model (containment of every read, fail-closed, "
         "world-changing histories, load base = directory of the model file's entry), over the call structure of the read "
         "methods extracted from the source on every run (every open dominated by a passing check with no store to "
         "base_dir/location in between: checker proved sound for all runs, C10_reading_methods_checked), and over a model of "
         "load()'s tensor traversal (complete for every tensor position: initializers at any depth, TENSOR/TENSORS "
         "attributes, functions). Tied by differential execution on generated directory trees, histories, load spellings, "
         "nested models and per-call event traces evaluated in Coq; the oracle is independent of os.path.realpath.",
    note=TRUST + "Modelled, not verified: TOCTOU between check and open, non-POSIX normcase, the kernel's symlink nesting "
         "bound (a universally quantified parameter of every theorem), permissions, FIFOs/devices, mmap. The extraction "
         "treats `<tensor>.path` passed to os.path.* and _paths_refer_to_same_file as name-only uses.",
    technique="Coq proof over fs/realpath model + call-structure checker over per-run extraction of the read methods; "
              "vm_compute correspondence on generated worlds and event traces")
CHECKS["C14"].update(
    text="Proved in Coq: identity rule, Sequential/PassManager flag algebra and convergence, call_onnx_api read-only for "
         "every outcome, and - for ClearMetadataAndDocString, RemoveUnusedNodes (flat), TopologicalSort, "
         "Add/RemoveInitializers(To/From)Inputs, OutputFix (contract level) and RemoveUnusedOpsets - an EXACT modified flag "
         "(False iff the model state is unchanged) and a fixpoint theorem with explicit bound; OutputFix additionally: "
         "inserted nodes live in the graph that owns the output. Tied by vm_compute correspondence on 9 streams (infra, "
         "call_onnx_api, clear, dce, toposort, inits/inputs, outputfix, unused_opsets, translated size limit). The other "
         "built-in passes (CSE, identity elimination, lifting, inliner, dedup, NameFix, unused functions, shape-inference "
         "merge) are decided by the property oracle over every pass, compositions, pass-instance reuse and ONNX-boundary "
         "faults, with deterministic families (optional outputs, function call graphs, duplicated outputs).",
    technique="Coq contract models of the pass infrastructure and 7 passes + vm_compute correspondence; public-API oracle "
              "sweep over all passes")
CHECKS["C18"].update(
    text="Coq theorems on an executable model of _find_subgraph_bounded_by_values / extract / the cloner's definedness "
         "checks / analyze_implicit_usage. The model runs inside Coq on a value table DERIVED from the graph structure "
         "(C18_derived_accessors); the implementation's value.graph / producer() / is_initializer() are pinned against that "
         "derivation on every generated graph. C18_semantics and C18_semantics_nested are full strength; "
         "C18_captures_exact_structural states capture exactness on the structure alone (every nested graph, all depths).",
    note=TRUST + "Outside the proof: list.sort by node index is modelled as a filter of the original order; Python set "
         "iteration order is a universally quantified shuffle parameter; the value-copying part of the cloner is checked by "
         "the oracle only (C13); the extractor and analysis sources are not translated, they are tied by correspondence.",
    technique="Coq proof over model run on a structure-derived value table; vm_compute correspondence incl. accessor pin")

CHECKS["C13"].update(
    text="Freshness, closure (without the sortedness hypothesis for accepted clones; unsorted use-before-def is rejected since "
         "82dd72c), faithfulness of the canonical serialization (tied to to_proto by a projection), and independence under a "
         "21-operation edit alphabet are proved in Coq for all heaps/histories over a heap model in which tensors are shared "
         "cells with a mutable name and non-graph Attr objects are shared cells: every non-tensor cell of the other copy is "
         "unchanged by any history on one copy; all cells and the serialization for rename-free histories (also through "
         "functionalize); the tensor-rename alias and the shared-Attr in-place edit are refuted/characterised by vm_compute "
         "witnesses. Tied by heap-isomorphism correspondence with the real clone() entry points plus interleaved edit "
         "histories evaluated inside Coq; a public-API oracle supplies replays.",
    note=TRUST + "Modelled, not verified: back-pointers/name authority (C01), tensor fields other than the name, Attr.meta, "
         "renaming of initializers (dict re-keying), inner element-type sharing, functionalize's wrapper itself (tied by the "
         "oracle over 5 pass compositions); Iso.v (case-file support) is trusted harness.",
    technique="Coq proof over a hand heap model (cloner + edit alphabet, separation/frame); vm_compute heap-isomorphism + "
              "to_proto-projection correspondence; public-API oracle")
CHECKS["C15"].update(
    text="Coq proofs over three executable models. (A) NameAuthority and Graph construction / append / extend / insert: "
         "freshness against the full log of registered and assigned names for every edit history, and at construction "
         "against every explicit name of the graph being built (after f54d66f). (B) NameFixPass after 25cf9b5 and 5fabe37, "
         "including recording of captured names in the owning scopes: never raises, full per-graph post-condition, unique "
         "names kept across functions, only names change, and never worse on any scoping; each holds under an explicit "
         "hypothesis (I5 invariant / closed traversal / well-scoped / disjoint functions) shown necessary by a refuted "
         "witness. (C) rename_values is all-or-nothing for every assignment, pending initializers included. Tied on every "
         "run by Coq-evaluated correspondence of names, initializer dictionaries, outcomes, owner map, non-name payload "
         "tokens and const flags; three known findings (ill-scoped models) are replayed, four fixed ones are corpus cases.",
    technique="Coq proof over models of the name authority, NameFixPass and rename_values; vm_compute correspondence per case")
CHECKS["C19"].update(
    text="DevInv (annotations target current inputs/outputs and registered configurations; axes, shards and devices valid) "
         "is proved inductive over all histories of 13 ops (shard, set_pipeline_stage, add/remove configuration, rename, "
         "replace_input_with, resize_outputs, resize_inputs, remove node, clone with deep_copy and allow_outer_scope_values, "
         "round trip at any IR version, shape edit) on models with nested subgraph bodies and a function; "
         "deserialize∘serialize = id on the annotation state through an explicit by-name proto and scope-stack resolution "
         "(C19_deser_ser_id); the library checker is silent on DevInv states and reports at most axis messages on the weak "
         "invariant DevInvW that survives arbitrary shape edits; drop, reject-frame and rejection theorems. Tied to /repo by "
         "per-step correspondence evaluated in Coq (node state, checker output, per-configuration serialization, the full "
         "to_proto multi-device content) plus a public-API oracle.",
    note=TRUST + "Round trips are modelled only where the graph wiring itself survives them (rt_domain). Subgraph bodies have "
         "no inputs of their own; values are used only inside their own root graph; function-input shapes are not carried by "
         "FunctionProto. Behaviour after shape edits of sharded values is unspecified by the library (C19_shape_edit_unspecified: "
         "observation, not a violation).",
    technique="Coq invariant proof over annotation heap model incl. explicit proto round trip; per-step vm_compute correspondence")
CHECKS["C08"].update(
    text="Coq model of the single-file external-data save (serial AND parallel writer) as a try/finally program of OS effects "
         "over a path->node file system; proved for every kill point combined with any single fault and any exception kind: "
         "destination = old node or exactly the complete new bytes (C08_crash_atomic, C08_interrupt_atomic and their "
         "_parallel versions: faults at preallocation open/truncate/close, worker open r+b, every write, worker close); a "
         "failed save leaves the whole directory and tensor validity untouched; a sharded save changes no existing path; "
         "invalidation only for realpath = destination. Tied by effect-trace equality plus post-state comparison at every "
         "fault/kill index inside Coq (serial, and parallel under a deterministic one-worker schedule).",
    note=TRUST + "Modelled, not verified: atomicity of os.replace, power loss. Oracle only: real multi-thread schedules (C09), "
         "the real-file copy_file_range path, lossy-close faults, the sharded pre-flight. Contracts as hypotheses: mkdtemp "
         "returns a fresh name; destination is not a directory.",
    technique="Coq proof over effect-program model with kill/fault points; vm_compute trace + post-state correspondence")

CHECKS["C02"].update(
    text="C02_roundtrip (forall well-formed ModelProto: ser (deser p) = Ok q and norm q = norm p) and its stage theorems, plus "
         "entry-point theorems for standalone GraphProto, FunctionProto, AttributeProto (every kind except sparse; present-"
         "but-empty vs absent sub-messages distinguished), TensorProto (external tensors with arbitrary extra external_data "
         "entries, after fb2515e), ValueInfoProto and TypeProto (arbitrarily nested), all proved in Coq and closed. The model "
         "is tied to serde.py by a converter proto -> Coq term and a per-case comparison inside Coq over 6 message kinds "
         "(supported and unsupported streams), with a norm-aware Python oracle; IR-version gates and enum tables are "
         "regenerated from the source on every run.",
    note=TRUST + "No open findings; five defects found by this check are fixed in /repo (c4d9dd5, 952a3c2, 86f4e6a, 66aa20a, "
         "fb2515e). Protobuf presence of map-entry keys/values and OperatorSetId fields, UTF-8 validity and decimal int parsing "
         "are modelled, not verified; sparse attributes and map types raise NotImplementedError in serde (outside wf); "
         "duplicated graph/function input names are outside the model.",
    technique="Coq proof of proto->IR->proto round trip over a term model of the protos; vm_compute per-case correspondence "
              "over 6 message kinds; per-run regenerated gates/enums")
CHECKS["C11"].update(
    text="Coq model of DoublyLinkedSet iteration (live sequence + frozen tombstone links, generator cursors) and of "
         "RecursiveGraphIterator (stack of cursors over a forest, lazy subgraph entry, `recursive` predicate, enter/exit "
         "callback trace), 35 closed theorems, none partial: list refinement, termination, schedule law (untouched nodes once "
         "in order / pre-order), position laws, cursor independence, predicate asked exactly once per yielded node, callbacks "
         "properly nested and balanced for every history of next() calls interleaved with edits. Tied by per-event "
         "correspondence on DoublyLinkedSet, Graph, Function, all_nodes and reversed-of variants, and exhaustive schedule "
         "trees; an exact plain-list oracle is the violation search.",
    note=TRUST + "Graph.sort's order enters as a permutation (C12); CPython generator semantics are the model's cursor rules; "
         "RecursiveGraphIterator.__iter__ (restart) is outside the model; the model pins the current number of enter/exit "
         "callbacks per subgraph (twice), so a harmless clean-up there breaks the correspondence without an oracle failure.",
    technique="Coq proof over cursor/tombstone model of iteration under edits; per-event vm_compute correspondence + exhaustive "
              "schedule trees")
CHECKS["C20"]["text"] = CHECKS["C20"]["text"] + (
    " Journal hooks are in the model: hooks that never raise are transparent and are called exactly once per entry in order "
    "(C20_hooks_transparent); restoration holds for every hook behaviour (C20_restore_hooks); what a raising hook does "
    "(aborts the wrapped operation) is characterised as an observation outside the property's quantifier.")
CHECKS["C20"]["note"] = CHECKS["C20"]["note"] + (
    " Hooks are modelled as per-journal functions entry -> option exn fixed before entry; hooks that mutate the IR and hooks "
    "added or cleared mid-block are not modelled.")

CHECKS["C01"].update(
    text="Coq proof over an executable 36-op heap model of Value/Node/Graph (Graph(...) with arguments, container mutators "
         "incl. popitem/update/setdefault, slices, Graph.sort installation included), every op returning the partially "
         "mutated state on Raise. Proved for every history, rejected calls included: I1 (uses <-> node inputs) for every "
         "configuration; I1 and I3-I7 (node.graph <-> node sequence, ownership flags/ref counters <-> collections, "
         "initializers keyed by name, inputs/initializers without producer) after every history of the repaired model "
         "(C01_inv_reachable_fixed) and of the current code on histories avoiding its open site (a node output that is a "
         "graph input or initializer: known finding node-output-owned); I2 (outputs <-> producer/index) as its own theorem. "
         "Sites repaired by fix commits are switched in current_cfg, their old behaviour kept as *_refuted_before_fix "
         "witnesses. Tie: every op of generated histories (incl. malformed calls at every argument position, exhaustive "
         "short container histories, nested sorts) is executed on real objects and outcome + hash of the full public "
         "observation is compared inside Coq after every op; the oracle recomputes I1-I7 through public accessors.",
    technique="Coq invariant proof over heap model of the 36-op mutator alphabet; per-step vm_compute correspondence "
              "(hashed observations)")
CHECKS["C01"]["note"] = TRUST + ("Oracle-only (not in the Coq model): stepped/negative slices, list.sort, "
    "register_initializer, the convenience functions. Graph.sort's order and cycle verdict enter from the implementation "
    "(C12). The executor rebinds onnx_ir._core.frozenset to an insertion-ordered set (Graph.remove iterates a frozenset of "
    "nodes in address order). Node sequence is a plain list here (C11).")
CHECKS["C06"]["text"] = ("Same heap model as C01. Every raising op of the repaired model returns the input heap itself "
    "(C06_raise_frame_fixed, whole 36-op alphabet, every argument position); the current code likewise on histories avoiding "
    "the open sites (C06_raise_frame, stated on the full observation obs_all). Sites repaired upstream (graph list "
    "extend/insert/setitem, initializer setitem/update, empty names, Graph.extend/insert, replace_all_uses_with on outputs, "
    "Graph(...), convenience.replace_all_uses_with) are kept as *_refuted_before_fix witnesses. replace_nodes_and_values "
    "remains a recorded non-atomic finding (oracle-only). Tie: rejection shapes at every argument position and random "
    "histories executed on real objects, full observation compared inside Coq after every op.")

CHECKS["C16"].update(
    text="Theorems (all closed): parser soundness and completeness against the reference grammar, totality and reference "
         "unambiguity; exact integer semantics of //, %, ceil, trunc, min, max and ** (Python-int semantics for negative "
         "operands, exact powers) with partial-binding consistency (full, for every tree and pair of environments); "
         "print->parse identity at character level for a fully parenthesised and a minimal-parenthesis printer over the whole "
         "operator set (precedence/associativity corner cases included); fail-closed structural and per-method AST-digest "
         "pins of the tokenizer and parser source. The model is tied to the implementation by five Coq-evaluated "
         "correspondences: parser via a SymPy stub, string evaluation, operator trees, Python-int semantics, minimal-paren "
         "print->parse (+ large flat expressions).",
    note=TRUST + "SymPy's algebra, simplify and printer remain an oracle/trusted base (recorded SymPy 1.14 defects are known "
         "findings attributed only when SymPy alone reproduces them); Sqrt only on perfect squares; the parser methods are "
         "pinned by digest, not translated statement by statement.",
    technique="Executable Gallina model of tokenizer/parser/evaluator; generated tables and source digests (fail-closed); "
              "vm_compute case files; property oracle with exact Fractions and Python's ast")
CHECKS["C03"].update(
    text="C03_iso (IR->proto->IR is the identity on the canonical tree of every serializable model, functions included), "
         "C03_ser_readonly, C03_ser_twice_equal, C03_ser_deser_ser proved in Coq for the Gallina model of serde; the model covers "
         "both function value-info formats (IR>=10, and the IR<10 'domain::function/value' main-graph entries via ModelOld.v "
         "with C03_ser_readonly_old). model = code is checked per run inside Coq on every generated case (models built by "
         "construction and through edit histories of the public mutators) except those carrying quantization annotations "
         "(decided by the isomorphism oracle only).")
CHECKS["C17"].update(
    text="C17_deser_total, C17_consistent and C17_consistent_x (every accepted proto yields an IR satisfying I1-I7, in both "
         "function value-info formats), C17_ser_fixpoint (full: EVERY proto, IR>=10 format; only leaf-contract hypotheses) "
         "proved in Coq; in the IR<10 format the fixpoint is refuted in the model (C17_ser_fixpoint_old_refuted), matching the "
         "open known finding experimental-function-value-info-name-collision; correspondence by vm_compute on every "
         "generated/mutated proto; a leaf oracle compares every dimension/payload the library reads with an independent "
         "reading of the proto.")

CHECKS["C04"].update(
    text="All representation theorems (dtype/shape, numpy values, little-endian packed bytes, tofile under every copy "
         "schedule, external data at any offset, serialization, nbytes) proved in Coq for all dtypes/sizes/values over (a) "
         "dtype tables and dispatch sets re-extracted from _enums/_core/serde, (b) the statement-by-statement translation of "
         "_type_casting.py (pack/unpack 4-bit and 2-bit, regenerated on every run) proved equal to its recursion form for "
         "every input and target size (C04_type_casting_translated), and (c) a hand model of the representations with nbytes "
         "as computed by the code; tied by in-Coq evaluation of the model on real numpy()/tobytes()/tofile()/nbytes "
         "observations and on direct calls of the translated functions (strided, 2-D, Fortran-order inputs; every dims case).",
    note=TRUST + "Modelled, not verified: the numpy primitives of C04/Np.v (slicing, resize, in-place ops), ml_dtypes storage "
         "(checked on all 256 bytes each run), protobuf, mmap, copy_file_range, torch memory, Python files; byte-order "
         "branches are shape-checked and a little-endian machine is assumed.",
    technique="Coq proof over translated tables and translated packing code plus hand model; vm_compute correspondence; ONNX "
              "reference encoder and decoder as third voice")

CHECKS["C05"].update(
    text="28 closed Coq theorems: every modelled pass (13, including InlinePass and RemoveUnusedFunctions as certificate-"
         "checked models) and any sequence of them preserve `computes`, inputs, outputs and validity (C05_sequence; "
         "C05_sequence_checked with executable hypotheses that are evaluated in Coq on every generated step). "
         "RemoveUnusedOpsets is modelled with the opset tables in the term (C05_remove_unused_opsets_keeps_versions). "
         "NameFix/ClearMetadata/ShapeInference leave the term unchanged (checked per run, C05_frame_passes_preserve). "
         "Excluded: RemoveUnusedNodes on BatchNormalization with a training_mode attribute (known finding, refuted in Coq).",
    technique="Gallina model of the pass pipeline over an uninterpreted operator semantics, plus untrusted producers with "
              "executable certificates proved sound (inline step, live region, side conditions); per-run structural "
              "correspondence (terms, opset tables, side conditions) by vm_compute; checker and execution oracle "
              "(ReferenceEvaluator/onnxruntime) with replays, reused pass objects, multi-opset histories, targeted templates")

CHECKS["C12"].update(
    text="Coq proof of the seven C12 theorems (none partial) plus frame (C12_frame: a sort of graph t anywhere in the forest "
         "leaves every graph outside t's scope exactly as it was, whatever the outcome), write-back consistency through C11's "
         "box-level linked-set model (C12_writeback_views_agree: forward, backward, len, getitem and membership all describe "
         "the new order) and finiteness (C12_no_self_nesting), about an executable model proved EQUAL to a fail-closed per-run "
         "translation of Graph.sort's source: the Kahn loop with heapq by contract (C12_source_is_model) and the predecessor-"
         "collection loop (C12_collection_is_model). Function.sort, the iterator step and the pass are pinned. A Coq-decided "
         "correspondence on whole forests ties it further: single sorts, edit/sort histories with position-preserving moves, "
         "sorts inside active journals, shared-subgraph inputs, nested targets including function bodies, hash-seed and "
         "allocation reruns.",
    note=TRUST + "Modelled, not verified: heapq (contract: pop returns the smallest key), CPython object identity/hash order "
         "(reruns under other PYTHONHASHSEED). wf excludes only one Graph under two attributes (covered by correspondence; "
         "spurious ValueError, atomic) and a self-nested graph (documented exclusion, probe). Inputs without producer are "
         "identified with None inputs. C12's Property.v imports C11's linked-set model.",
    technique="Coq proof over a model proved equal to the per-run translation of Graph.sort (Kahn loop + predecessor "
              "collection); vm_compute correspondence on whole forests")
CHECKS["C10"].update(
    text="Containment, fail-closed and load theorems about an executable fs/posixpath/kernel model that is proved EQUAL to a "
         "per-run statement-by-statement translation of ExternalTensor._check_path_containment "
         "(C10_check_model_equals_source), of the `path` property and of load()'s base_dir expression "
         "(C10_path_and_load_base_equal_source); C10_contained_source_check restates containment for the translated check. "
         "The call structure of every read method is extracted per run and a checker proved sound shows every open dominated "
         "by a passing check; load()'s straight-line structure, set_base_dir and the base_dir setter are shape-pinned; a "
         "complete model of load()'s tensor traversal (every tensor position, base independent of external_data entries). "
         "Tied by differential execution on generated directory trees, world-changing histories, load spellings, nested "
         "models and per-call event traces evaluated in Coq; the oracle is independent of os.path.realpath.",
    note=TRUST + "Modelled, not verified: TOCTOU between check and open, non-POSIX normcase, the kernel's symlink nesting bound "
         "(a universally quantified parameter of every theorem), permissions, FIFOs/devices, mmap. _all_tensors / "
         "RecursiveGraphIterator are hand-modelled (tied by the generated-model correspondence), not translated.",
    technique="Fail-closed ast->Gallina translation (check, path, load base, call structure) + equivalence and containment "
              "theorems in Coq + differential execution on generated worlds, histories, nested models and per-call traces")

# ---- second deepening round
CHECKS["C19"]["text"] = CHECKS["C19"]["text"] + (
    " The annotation ops of the model are proved equal to a per-run translation of the 20 decision sites of shard, "
    "set_pipeline_stage, sharding_of, _drop_sharding_for_value and remove_device_configuration (C19_model_is_translation, "
    "C19_drop_is_translation); 25 methods (incl. serde's multi-device (de)serializers and the cloner's remap) are pinned by "
    "AST digest; configurations are recognised by identity, not equality (C19_configurations_by_identity); cross-root value "
    "uses are modelled.")
CHECKS["C19"]["note"] = TRUST + ("Round trips are modelled where the wiring survives them (rt_domain). Subgraph bodies have no "
    "inputs of their own. Function-input shapes are not carried by FunctionProto. The loop skeletons of the translated methods "
    "and the clone and serde methods are statement-pinned rather than translated. Behaviour after shape edits of sharded values "
    "is unspecified by the library (observation).")
CHECKS["C19"]["technique"] = ("Hand model tied to the source by a per-run translation of the decision sites with machine-checked "
    "equivalence + AST pins; per-step vm_compute correspondence (node state, checker output, serialization, to_proto content)")
CHECKS["C14"].update(
    text="PassBase.__call__, Sequential.call, PassManager.call and functionalize are transcribed from the source on every run "
         "(fail closed) into a small statement language with an interpreter in Coq and proved equal to the model "
         "(C14_*_call_translated); on that model: identity rule, flag = OR, early-stop trace, manager convergence under a "
         "measure, result describes this application only (PassResult arguments); call_onnx_api read-only for every outcome; "
         "exact modified flag (False iff unchanged) and fixpoint bounds for ClearMetadataAndDocString, RemoveUnusedNodes (flat), "
         "TopologicalSort, Add/RemoveInitializers(To/From)Inputs, OutputFix (contract level, inserted nodes owned by the "
         "output's graph) and RemoveUnusedOpsets. CSE, identity elimination, lifting, dedup, NameFix, unused functions, inliner "
         "and shape-inference merge are decided by the property oracle (every pass, compositions, r = p(r) repetition, "
         "pass-instance reuse, ONNX-boundary faults, deterministic families).",
    technique="Per-run source transcription + Coq equivalence proofs for the pass infrastructure; hand models + vm_compute "
              "correspondence (9 streams) for call_onnx_api and seven passes; public-API oracle sweep")
CHECKS["C14"]["note"] = CHECKS["C14"]["note"] + (" Trusted additionally: the transcriber in c14.py and the interpreter "
    "PyInfra.run (the semantics given to that Python fragment).")
CHECKS["C15"].update(
    text="Coq proofs over three executable models, with a per-run fail-closed ast->Gallina translation of the naming primitives "
         "(the four NameAuthority methods, _find_and_record_next_unique_name, the SimpleNameGenerator and the _assign / "
         "_fix_duplicate functions) and equality theorems between the hand models and the translation (C15_gen_*). (A) "
         "Freshness of generated names against the full log of registered and assigned names for every edit history, and at "
         "construction against every explicit name of the graph. (B) NameFixPass after 25cf9b5 and 5fabe37: never raises, full "
         "per-graph post-condition under a scoping hypothesis that admits captures from enclosing graphs in any order, unique "
         "names kept across functions, only names change, never worse on any scoping; each remaining hypothesis is shown "
         "necessary by a refuted witness. (C) rename_values is all-or-nothing for every assignment, pending initializers "
         "included. Tied on every run by Coq-evaluated correspondence of names, initializer dictionaries, outcomes, owner map, "
         "payload tokens and const flags; three known findings (ill-scoped models) are replayed, fixed ones are corpus cases.",
    technique="Coq proof over models of the name authority, NameFixPass and rename_values, proved equal to a per-run "
              "translation of the naming primitives; vm_compute correspondence per case")
CHECKS["C16"]["note"] = CHECKS["C16"]["note"] + (" The SymbolicDim arithmetic methods are translated statement by statement "
    "from _core.py on every run; C16_operator_methods proves each branch equals Python integer / rational arithmetic and the "
    "tree correspondence evaluates build trees through the translated methods inside Coq. _ALLOWED_FUNCTIONS is pinned entry "
    "by entry (C16_function_table_exact). The tokenizer remains a hand model under per-method AST digests.")
CHECKS["C16"]["technique"] = ("Executable Gallina model of tokenizer/parser/evaluator; generated tables, source digests and a "
    "per-run translation of the operator methods (fail-closed); vm_compute case files; property oracle with exact Fractions")
CHECKS["C13"]["text"] = CHECKS["C13"]["text"] + (
    " The source the model describes is regenerated on every run: the statements of the seven Cloner methods, the four clone() "
    "entry points and functionalize's wrapper are proved equal to the pinned statements the model was written against "
    "(C13_source_pinned, fail closed), and Cloner._remap_device_configurations is translated statement by statement into "
    "Gallina and proved equal to the model's remap for every None-free value map (C13_remap_translation), the translation also "
    "run against the method on a grid inside Coq. Type denotation, MetadataStore invalid keys and Node.overload are observed by "
    "the canonical form (C13_canon_observes_denotation_invalid_keys_overload).")
CHECKS["C13"]["note"] = CHECKS["C13"]["note"] + (" Six of the seven Cloner methods are tied by the statement pin + "
    "correspondence, not by translation; inner element-type object sharing between two values of the original is not modelled.")
CHECKS["C09"]["text"] = CHECKS["C09"]["text"] + (
    " The per-task program of the LTS (callback lock(s) -> callback -> unlock -> open descriptor -> tensor lock -> "
    "budget.acquire -> write -> release -> unlock) is proved equal, on every run, to the statement order extracted from "
    "_write_one / _write_serial / _write_tensor / _write_tensor_with_budget_at / _locked_callback "
    "(C09_program_order_matches_source). Further theorems: one global acquisition order for serial and parallel writers "
    "(C09_lock_order); every evaluation under a reservation of the single shared budget (C09_write_under_budget). The "
    "extractor also pins that every writer path receives that budget and that there is one job per tensor. Zero-length "
    "tensors, the convert_tensors_to_external / _write_external_tensors entry points and aligned multi-KiB layouts are in the "
    "generated streams and the Coq-checked traces.")
CHECKS["C20"].update(
    text="Restore and transparency proved in Coq for all well-nested programs (unbounded depth, exceptions at any exit, "
         "try/except anywhere) over the key lists, wrapper shapes and argument forwarding re-extracted from _wrappers.py on "
         "every run (C20_forwarding_complete: every original is called with self, *args, **kwargs unchanged). "
         "Journal.__init__, __enter__, __exit__ and record are translated statement by statement from _journaling.py and proved "
         "equal to the model's enter, exit_ and record, including that __exit__ returns None (C20_*_translated). The weak-"
         "reference clause is a theorem over the translation (C20_journal_weak_only: entries keep only weakref.ref(obj); no "
         "parameter, exception or traceback is stored). Hooks that do not raise are proved transparent and restoration holds "
         "for every hook behaviour; a raising hook is characterised as an observation outside the property's quantifier. "
         "Tied by Coq-evaluated correspondence of journaled, traced and plain runs.",
    technique="Per-run ast->Gallina translation of the Journal methods plus equivalence theorems; extracted wrapper tables; "
              "Coq-evaluated correspondence of journaled, traced and plain runs; raising-hook stream")
CHECKS["C20"]["note"] = TRUST + ("Hypothesis wf: a Journal object is not re-entered while active (observation "
    "C20_reentrant_use_not_restored shows it is needed). Modelled, not verified: purity of details_func/repr/getattr inside "
    "wrappers, determinism of the original methods, threads. Hooks are per-journal functions entry -> option exn fixed before "
    "entry; hooks that mutate the IR or are added/cleared mid-block are not modelled. The JournalEntry field list and "
    "_get_stack_trace are pinned by text; the classification of JournalEntry keyword arguments (scalar/weak/strong) is done "
    "by the translator (trusted).")
CHECKS["C18"].update(
    text="Coq theorems on an executable model whose core loops are regenerated from _extractor.py / _implicit_usage.py on every "
         "run by a fail-closed statement translator and proved equal to the hand model (C18_translated_walk, _walk_body, "
         "_frontier, _captures, _implicit_usages): the backward walk and frontier validation of "
         "_find_subgraph_bounded_by_values, _collect_all_external_values and _collect_implicit_usages. The model's value table "
         "is derived from the graph structure inside Coq and the implementation's value.graph / producer() / is_initializer() "
         "are pinned against it. C18_semantics and C18_semantics_nested are full strength; C18_captures_exact_structural is "
         "stated on the structure alone. The initialisation / sort / return of the walk, extract, _process_node and "
         "analyze_implicit_usage are hand-modelled and AST-pinned. The correspondence includes extract -> edit -> extract "
         "histories on the same objects.",
    technique="Coq proof over a model proved equal to a per-run translation of the extractor/analysis loops; vm_compute "
              "correspondence incl. accessor pin and edit histories")
CHECKS["C18"]["note"] = TRUST + ("Oracle only: the cloner's copying of types, shapes, metadata and const_value (only its "
    "definedness checks are modelled; C13); list.sort by node index is modelled as a filter of the original order; Python set "
    "iteration order is a universally quantified shuffle parameter.")

CHECKS["C08"].update(
    text="Coq model of ir.save with external data as a try/finally program of OS effects over a path->node file system. The plan "
         "is a per-run fail-closed translation of the statement sequences of _write_external_data, "
         "_check_no_existing_shard_files and the sharded branch of _write_external_tensors (C08_plan_is_translated_source, "
         "C08_sharded_plan_is_translated_source). Proved for every kill point combined with any single fault and any exception "
         "kind, serial and parallel writer: the destination is its old node or exactly the complete new bytes, and the parallel "
         "bytes equal the serial image; a failed save leaves the whole directory and tensor validity untouched; a sharded save "
         "changes no existing path; invalidation only when the tensor's realpath is the destination; after a successful data "
         "write the destination stays complete whatever happens at the model file (C08_model_file_failure); the "
         "copy_file_range loop returns only after all bytes were copied and raises on a short source (C08_copy_file_range_*). "
         "Tied by effect-trace equality and post-state comparison at every fault or kill index inside Coq, including the "
         "model-file write, and by a scripted-kernel stream for tofile.",
    note=TRUST + "Modelled, not verified: atomicity of os.replace, power loss. Oracle only: real multi-thread schedules (C09), "
         "the real-file flavour of whole saves, lossy-close faults. Contracts as hypotheses: mkdtemp returns a fresh name; "
         "destination is not a directory.",
    technique="Coq proof over an effect-program model obtained by per-run translation of the save statement sequences, with "
              "kill/fault points; vm_compute trace + post-state correspondence; scripted copy_file_range stream")
CHECKS["C04"]["text"] = ("All representation theorems (dtype/shape, numpy values, little-endian packed bytes, tofile under every "
    "copy schedule, external data at any offset, serialization, nbytes for every size, string tensors for all byte strings) "
    "proved in Coq for all dtypes/sizes/values over (a) dtype tables, dispatch sets and the nbytes formula re-extracted from "
    "_enums/_core/serde, (b) the statement-by-statement translation of _type_casting.py (regenerated on every run) proved equal "
    "to its recursion form for every input and target size, and (c) a hand model of the representations; tied by in-Coq "
    "evaluation of the model on real numpy()/tobytes()/tofile()/nbytes observations and direct calls of the translated "
    "functions (strided, 2-D, Fortran-order inputs; every dims case; append-mode destinations; torch views incl. lazy conj).")

CHECKS["C11"].update(
    text="Per-run fail-closed translation of _linked_list.py (_LinkBox, the DoublyLinkedSet mutators and both generators) into a "
         "Gallina box heap (prev/next/value/owning_list, root, length, id->box dict), proved to refine the sequence+tombstone "
         "model (C11_heap_edit_refines, C11_heap_iter_refines, C11_heap_observers_refine), so every model theorem transfers to "
         "the pointer code; 41 closed theorems, none partial: list refinement, termination, schedule law (untouched nodes once "
         "in order / pre-order), position laws, cursor independence, recursive traversal with the `recursive` predicate "
         "(asked exactly once per yielded node) and restart, enter/exit callbacks properly nested and balanced for every "
         "history of next() calls interleaved with edits. Hand model and translated code are both evaluated in Coq on every "
         "schedule (DoublyLinkedSet/Graph/Function/all_nodes/reversed-of variants, exhaustive schedule trees) against the "
         "implementation; an exact plain-list oracle is the violation search.",
    note=TRUST + "Graph.sort's order enters as a permutation (C12); CPython generator semantics are the model's cursor rules; "
         "__getitem__/__contains__/__len__'s assertion are a thin hand-written layer over the translated iterators; callback "
         "traces are compared up to repetition of the same call (the property needs nesting and balance, not the count).",
    technique="Per-run ast->Gallina translation of the linked list into a box heap + refinement proofs to the cursor/tombstone "
              "model; per-event vm_compute correspondence + exhaustive schedule trees")

CHECKS["C04"]["text"] = ("All representation theorems (dtype/shape, numpy values, little-endian packed bytes, tofile under every "
    "copy schedule, external data at any offset, serialization, nbytes for every size, string tensors for all byte strings, "
    "torch views including lazily conjugated ones) proved in Coq for all dtypes/sizes/values over (a) dtype tables, dispatch "
    "sets and the nbytes formula re-extracted from _enums/_core/serde, (b) the statement-by-statement translation of "
    "_type_casting.py proved equal to its recursion form for every input, and (c) a hand model of the representations; tied by "
    "in-Coq evaluation of the model on real numpy()/tobytes()/tofile()/nbytes observations (all representations, storage "
    "fields, offsets, views, accessor orders, regular/append-mode/in-memory destinations, Python-value constructors) and direct "
    "calls of the translated functions, with the ONNX reference encoder and decoder as third voice. No open findings: the "
    "recorded defects are fixed in /repo, their witnesses are corpus cases, and `_before_fix` theorems keep the refutations of "
    "the old code.")
CHECKS["C02"]["note"] = CHECKS["C02"]["note"] + (" Below IR 10 the experimental function value-info format is proved at "
    "function level (C02_function_experimental_ir9); at model level it is covered by the model-vs-implementation stream and the "
    "oracle, outside wf_model.")

CHECKS["C02"]["note"] = TRUST + ("No open findings; six defects found by this check are fixed in /repo (c4d9dd5, 952a3c2, 86f4e6a, "
    "66aa20a, fb2515e, b6bf1ea). Below IR 10 the experimental function value-info format is proved at function level "
    "(C02_function_experimental_ir9). At model level it, repeated graph outputs and value_info entries naming graph outputs are "
    "covered by model-vs-implementation streams and the oracle, outside wf_model. Protobuf presence of map-entry keys/values, "
    "UTF-8 validity and decimal int parsing are modelled, not verified; sparse attributes and map types raise "
    "NotImplementedError in serde (outside wf).")
CHECKS["C05"].update(
    text="31+ closed Coq theorems. C05_sequence and C05_sequence_checked cover 13 modelled passes, including certificate-checked "
         "InlinePass and RemoveUnusedFunctions, with executable hypotheses evaluated in Coq per step. RemoveUnusedOpsets is "
         "modelled with the opset tables (C05_remove_unused_opsets_keeps_versions); its body _process_graph_like and DCE's "
         "_remove_trailing_empty_inputs are translated from the source on every run and proved equal to the hand models "
         "(C05_remove_unused_opsets_translation_equiv, C05_trim_translation_equiv). The inliner's import merge is covered by "
         "C05_inline_merges_opset_imports. NameFix, ClearMetadata and ShapeInference leave the term unchanged "
         "(C05_frame_passes_preserve; the annotations they write are judged by the full checker and the execution oracle). "
         "Excluded: RemoveUnusedNodes on BatchNormalization with a training_mode attribute (known finding, refuted in Coq).")
CHECKS["C05"]["technique"] = CHECKS["C05"]["technique"] + ("; fail-closed ast->Gallina translations of two pass bodies with "
    "equivalence theorems; de-overloaded execution for IR 10 overloads")

# C03 and C05 were first registered as translation_validation; their principal theorems (C03_iso, C17_ser_fixpoint; the
# C05 sequence theorem over all modelled passes incl. the certificate-checked inliner) are proved and closed, and the
# evidence records level "proof".
CHECKS["C03"]["level"] = "proof"
CHECKS["C05"]["level"] = "proof"

CHECKS["C03"]["technique"] = ("Coq proof of IR->proto->IR isomorphism (C03_iso), read-only and deterministic serialization over a "
    "heap+proto model of serde (both function value-info formats); per-case vm_compute correspondence with the real to_proto / "
    "from_proto on generated and edited models")
CHECKS["C17"]["technique"] = ("Coq proof over the same serde model: totality, consistency (I1-I7) of every returned IR, "
    "re-serialization fixpoint for every proto; vm_compute correspondence on generated and mutated protos; leaf and identity oracles")


def main():
    props = [json.loads(l) for l in open(os.path.join(VERIF, "properties.jsonl"))]
    checks, na = [], []
    for p in props:
        pid = p["id"]
        c = CHECKS.get(pid)
        if c is None:
            na.append({"property_id": pid, "reason": NA.get(pid, NOT_YET)})
            continue
        checks.append({
            "property_id": pid,
            "quick_cmd": f"./check {pid} quick",
            "thorough_cmd": f"./check {pid} thorough",
            "evidence_file": f"evidence/{pid}.json",
            "replay_cmd_template": f"./check {pid} --replay {{path}}",
            "engine": "coq-model+correspondence",
            "level_claimed": {"category": c["level"], "text": c["text"], "design_ref": c["design_ref"]},
            "level_note": c["note"],
            "technique": c["technique"],
        })
    man = {
        "version": 1,
        "setup_cmd": "./check --setup",
        "hooks": {
            "guard": "ONNX_IR_PY_VERIF",
            "enable": "no source hooks are needed: the harness rebinds module globals of onnx_ir from outside; "
                      "checks export ONNX_IR_PY_VERIF=1 and import /repo/src via PYTHONPATH",
            "baseline_off_cmd": "cd /repo && /venv/bin/python -m pytest -ra -q -p no:cacheprovider --timeout=900 "
                                "--continue-on-collection-errors",
            "source_commits": [],
            "add_only": True,
        },
        "engines": [{
            "name": "coq-model+correspondence",
            "path": "check",
            "serves_properties": [c["property_id"] for c in checks],
            "kind_free_text": "Coq 8.16 theorems over executable Gallina models (translated from /repo where pure, "
                              "hand-written otherwise) + differential execution of model (vm_compute) and "
                              "implementation + property oracle for replays",
        }],
        "checks": checks,
        "not_applicable": na,
        "notes": "Genuine defects repaired in /repo by 'fix:' commits and findings kept are listed in known_findings.json.",
    }
    with open(os.path.join(VERIF, "MANIFEST.json"), "w") as f:
        json.dump(man, f, indent=1)
    print(f"MANIFEST.json: {len(checks)} checks, {len(na)} not_applicable")


NA: dict[str, str] = {}

if __name__ == "__main__":
    main()

#!/usr/bin/env python3
"""Regenerate /verif/MANIFEST.json from the per-property table below (single source of truth)."""

import json
import os

VERIF = os.path.dirname(os.path.dirname(os.path.abspath(__file__)))

TRUST = ("Trusted: Coq 8.16.1 kernel (coqc, vm_compute; no native_compute); no axioms of our own (Print Assumptions "
         "under every property theorem is parsed on every run; a source scan rejects Admitted/admit/Axiom/Parameter/...); "
         "the fail-closed translator tools/translate.py where a Gen/*.v file is used; the correspondence harness "
         "(generators, Python->Coq literal printers, canonicalisation). ")

# id -> dict(level, text, note, technique, design_ref) ; properties missing here go to not_applicable
CHECKS = {
    "C07": dict(
        level="proof",
        text="Layout/shard/read-back/restore theorems proved in Coq for all tensor lists and options over the "
             "regenerated _align_offset/_validate_write_options and a hand model of the offset loop, both shard "
             "functions, the byte-file image and save()'s try/finally; the model is tied to the code by differential "
             "execution of real save/load over the option grid (observed files and ranges are evaluated against the "
             "model inside Coq) and the property oracle (save->load->compare) supplies replays.",
        note=TRUST + "Modelled, not verified: tensor byte production (C04), the file system, onnx.save/load, the "
             "safetensors writer, shard file naming (checked by the oracle only).",
        technique="Coq proof over translated+hand model; vm_compute correspondence with real save/load",
        design_ref="§6 C07"),
    "C12": dict(
        level="proof",
        text="Seven theorems, none partial, proved in Coq for all scopes (any DAG/cyclic graph, nesting depth, captures): "
             "outcome is Ok or ValueError (fuel = node count suffices), every graph keeps exactly its nodes (permutation), "
             "Ok result respects same-graph producers of values used by a node or anything nested in it, ValueError iff the "
             "dependency relation is cyclic, nothing changes on ValueError, an ordered well-scoped scope is left exactly "
             "as it was, determinism. The model of Graph.sort/Function.sort/TopologicalSortPass is tied to the code by "
             "Coq-evaluated correspondence on generated forests (all orders, outcome, modified flag), reruns under other "
             "hash seeds and allocation orders; the oracle states the property on the implementation and supplies replays.",
        note=TRUST + "Modelled, not verified: heapq (only its contract 'pop returns the largest original index'), "
             "CPython object identity/hash order (reruns under other PYTHONHASHSEED), RecursiveGraphIterator pre-order "
             "(tied by the correspondence). Hypothesis wf: no node/graph object occurs twice in the scope.",
        technique="Coq proof over hand model of reverse-Kahn sort; vm_compute correspondence with Graph.sort",
        design_ref="§6 C12, §10"),
}

NOT_YET = "no check registered yet in this revision (model under construction; see DESIGN.md §6)"


def main():
    props = [json.loads(l) for l in open(os.path.join(VERIF, "properties.jsonl"))]
    checks, na = [], []
    for p in props:
        pid = p["id"]
        c = CHECKS.get(pid)
        if c is None:
            na.append({"property_id": pid, "reason": NA.get(pid, NOT_YET)})
            continue
        checks.append({
            "property_id": pid,
            "quick_cmd": f"./check {pid} quick",
            "thorough_cmd": f"./check {pid} thorough",
            "evidence_file": f"evidence/{pid}.json",
            "replay_cmd_template": f"./check {pid} --replay {{path}}",
            "engine": "coq-model+correspondence",
            "level_claimed": {"category": c["level"], "text": c["text"], "design_ref": c["design_ref"]},
            "level_note": c["note"],
            "technique": c["technique"],
        })
    man = {
        "version": 1,
        "setup_cmd": "./check --setup",
        "hooks": {
            "guard": "ONNX_IR_PY_VERIF",
            "enable": "no source hooks are needed: the harness rebinds module globals of onnx_ir from outside; "
                      "checks export ONNX_IR_PY_VERIF=1 and import /repo/src via PYTHONPATH",
            "baseline_off_cmd": "cd /repo && /venv/bin/python -m pytest -ra -q -p no:cacheprovider --timeout=900 "
                                "--continue-on-collection-errors",
            "source_commits": [],
            "add_only": True,
        },
        "engines": [{
            "name": "coq-model+correspondence",
            "path": "check",
            "serves_properties": [c["property_id"] for c in checks],
            "kind_free_text": "Coq 8.16 theorems over executable Gallina models (translated from /repo where pure, "
                              "hand-written otherwise) + differential execution of model (vm_compute) and "
                              "implementation + property oracle for replays",
        }],
        "checks": checks,
        "not_applicable": na,
        "notes": "Genuine defects repaired in /repo by 'fix:' commits and findings kept are listed in known_findings.json.",
    }
    with open(os.path.join(VERIF, "MANIFEST.json"), "w") as f:
        json.dump(man, f, indent=1)
    print(f"MANIFEST.json: {len(checks)} checks, {len(na)} not_applicable")


NA: dict[str, str] = {}

if __name__ == "__main__":
    main()

#!/usr/bin/env python3
"""Confirm that the pinned test suite still passes with each seeded change applied.

usage: seed_suite.py <seeded-name>...      (names under /verif/seeded)

For each name: scratch git worktree of /repo HEAD under /tmp, git apply patch.diff, run the pinned suite (guard off),
compare with BASELINE.json stable_pass, record the result in seeded/<name>/meta.json under confirmed.suite_*, remove
the worktree.  /repo itself is not touched."""
import ast
import json
import os
import shutil
import subprocess
import sys
import xml.etree.ElementTree as ET

VERIF = "/verif"


def sh(cmd, **kw):
    p = subprocess.run(cmd, shell=True, stdout=subprocess.PIPE, stderr=subprocess.STDOUT, text=True, **kw)
    return p.returncode, p.stdout


def main():
    b = json.load(open("/root/.vp/BASELINE.json"))
    stable = b["stable_pass"]
    if isinstance(stable, str):
        stable = ast.literal_eval(stable)
    head = sh("git -C /repo rev-parse --short HEAD")[1].strip()
    for name in sys.argv[1:]:
        d = os.path.join(VERIF, "seeded", name)
        wt = f"/tmp/suitewt-{name}"
        sh(f"git -C /repo worktree remove --force {wt}")
        rc, out = sh(f"git -C /repo worktree add -q {wt} HEAD")
        res = {}
        try:
            rc, out = sh(f"cd {wt} && git apply {d}/patch.diff")
            res["suite_patch_applies"] = rc == 0
            if rc == 0:
                junit = f"/tmp/suite-{name}.xml"
                env = {k: v for k, v in os.environ.items() if k not in ("ONNX_IR_PY_VERIF", "PYTHONPATH")}
                sh(f"cd {wt} && /venv/bin/python -m pytest -q -p no:cacheprovider --timeout=900 "
                   f"--continue-on-collection-errors --junitxml={junit} > /dev/null 2>&1", env=env)
                passed = set()
                for tc in ET.parse(junit).getroot().iter("testcase"):
                    if not any(c.tag in ("failure", "error", "skipped") for c in tc):
                        passed.add(f"{tc.get('classname')}::{tc.get('name')}")
                missing = [t for t in stable if t not in passed]
                res["suite_missing"] = len(missing)
                res["suite_missing_names"] = missing[:5]
                res["suite_head"] = head
                os.remove(junit)
        finally:
            sh(f"git -C /repo worktree remove --force {wt}")
            shutil.rmtree(wt, ignore_errors=True)
        mp = os.path.join(d, "meta.json")
        meta = json.load(open(mp))
        meta.setdefault("confirmed", {}).update(res)
        json.dump(meta, open(mp, "w"), indent=1)
        print(name, res, flush=True)


if __name__ == "__main__":
    main()

"""Shared machinery of the /verif checks.

A property module (harness/props/cXX.py) exports ``run(ck: Check) -> None`` and uses:

  ck.tier, ck.seed, ck.rng          tier ("quick"/"thorough"), VERIF_SEED, random.Random(seed)
  ck.scratch                         private scratch dir (removed at exit)
  ck.gen(name, text)                 (re)write coq/theories/Gen/<name>.v from translated text
  ck.prove()                         build coq/theories/<Cxx>/Property.v closure, read Print Assumptions
  ck.coq_eval(text, tag)             compile a generated case file against the built theories -> stdout
  ck.coq_failing(text, tag)          same, parse the `failing` index list printed by the case file
  ck.broken(name, detail)            record a proof obligation / correspondence that no longer checks
  ck.known(key)                      look up a known finding
  ck.violation(replay)               report VIOLATION with a replay file
  ck.cover(...)                      accumulate evidence counters / samples
  ck.finish()                        writes evidence, prints summary, returns the exit code
"""

from __future__ import annotations

import contextlib
import fcntl
import hashlib
import json
import os
import random
import re
import shutil
import subprocess
import sys
import time

VERIF = os.path.dirname(os.path.dirname(os.path.abspath(__file__)))
REPO = os.environ.get("VERIF_REPO", "/repo")
COQ = os.path.join(VERIF, "coq")
THEORIES = os.path.join(COQ, "theories")
GEN = os.path.join(THEORIES, "Gen")
EVIDENCE = os.path.join(VERIF, "evidence")
REPLAYS = os.path.join(VERIF, "replays")
CORPUS = os.path.join(VERIF, "corpus")
KNOWN = os.path.join(VERIF, "known_findings.json")
SCRATCH_ROOT = os.path.join(VERIF, ".scratch")
NPROC = os.cpu_count() or 4

sys.path.insert(0, os.path.join(VERIF, "tools"))

ALLOWED_AXIOMS = {
    # axioms declared by the Coq standard library that the brief allows when named in the trusted base
    "functional_extensionality_dep", "FunctionalExtensionality.functional_extensionality_dep",
    "classic", "Classical_Prop.classic", "proof_irrelevance", "ProofIrrelevance.proof_irrelevance",
    "Eqdep.Eq_rect_eq.eq_rect_eq", "eq_rect_eq", "JMeq_eq", "JMeq.JMeq_eq",
    "propositional_extensionality", "PropExtensionality.propositional_extensionality",
}

FORBIDDEN_RE = re.compile(
    r"\b(Admitted|admit|Axiom|Axioms|Parameter|Parameters|Conjecture|Conjectures)\b"
    r"|Unset\s+Guard|bypass_check|type-in-type|impredicative-set|Admit\s+Obligations"
    r"|Unset\s+Positivity|Unset\s+Universe")


def sh(cmd, timeout=None, cwd=None, env=None, input=None):
    e = dict(os.environ)
    if env:
        e.update(env)
    p = subprocess.run(cmd, shell=isinstance(cmd, str), cwd=cwd, env=e, input=input,
                       stdout=subprocess.PIPE, stderr=subprocess.STDOUT, text=True, timeout=timeout)
    return p.returncode, p.stdout


@contextlib.contextmanager
def coq_lock():
    os.makedirs(COQ, exist_ok=True)
    with open(os.path.join(COQ, ".lock"), "w") as f:
        fcntl.flock(f, fcntl.LOCK_EX)
        try:
            yield
        finally:
            fcntl.flock(f, fcntl.LOCK_UN)


def strip_comments(text: str) -> str:
    out, depth, i = [], 0, 0
    while i < len(text):
        if text.startswith("(*", i):
            depth += 1
            i += 2
        elif text.startswith("*)", i) and depth:
            depth -= 1
            i += 2
        else:
            if depth == 0:
                out.append(text[i])
            i += 1
    return "".join(out)


_REQ_RE = re.compile(r"(?:From\s+IRV\s+)?Require\s+(?:Import\s+|Export\s+)?([^.]*(?:\.[A-Za-z_][A-Za-z0-9_']*)*)\s*\.\s", re.S)


def closure_files(root_v: str) -> list[str]:
    """The .v files under coq/theories that root_v transitively Requires (logical prefix IRV)."""
    seen, todo = [], [root_v]
    while todo:
        f = todo.pop()
        if f in seen or not os.path.exists(f):
            continue
        seen.append(f)
        with open(f, encoding="utf-8") as fh:
            txt = strip_comments(fh.read())
        pat = r"Require\s+(?:Import\s+|Export\s+)?((?:[\w']+(?:\.[\w']+)*\s*)+)\.(?=\s|$)"
        for m in re.finditer(r"From\s+IRV\s+" + pat, txt):
            for mod in m.group(1).split():
                todo.append(os.path.join(THEORIES, *mod.split(".")) + ".v")
        for m in re.finditer(pat, txt):
            for mod in m.group(1).split():
                if mod.startswith("IRV."):
                    todo.append(os.path.join(THEORIES, *mod.split(".")[1:]) + ".v")
    return seen


def scan_forbidden(files: list[str] | None = None) -> list[str]:
    """Obligation of every check: no Admitted/admit/Axiom/Parameter/... in the development
    (files=None: every file under coq/theories; else the given dependency closure)."""
    bad = []
    if files is None:
        files = []
        for root, _, fs in os.walk(THEORIES):
            files += [os.path.join(root, fn) for fn in fs if fn.endswith(".v")]
    for p in sorted(files):
        with open(p, encoding="utf-8") as f:
            txt = strip_comments(f.read())
        for ln, line in enumerate(txt.splitlines(), 1):
            if FORBIDDEN_RE.search(line):
                bad.append(f"{os.path.relpath(p, VERIF)}:{ln}: {line.strip()[:80]}")
    return bad


def write_coqproject():
    files = []
    for root, _, fs in os.walk(THEORIES):
        for fn in sorted(fs):
            if fn.endswith(".v"):
                files.append(os.path.relpath(os.path.join(root, fn), COQ))
    files.sort()
    text = "-Q theories IRV\n-arg -w -arg -all\n" + "\n".join(files) + "\n"
    p = os.path.join(COQ, "_CoqProject")
    old = open(p).read() if os.path.exists(p) else None
    if old != text or not os.path.exists(os.path.join(COQ, "Makefile")):
        with open(p, "w") as f:
            f.write(text)
        rc, out = sh("coq_makefile -f _CoqProject -o Makefile", cwd=COQ, timeout=120)
        if rc != 0:
            raise RuntimeError("coq_makefile failed:\n" + out)


def make(targets: list[str], timeout=1800) -> tuple[int, str]:
    """Full .vo build (never -vos) of the given targets (paths relative to coq/)."""
    with coq_lock():
        write_coqproject()
        return sh(["timeout", str(timeout), "make", "-j", str(NPROC), "--no-print-directory"] + targets,
                  cwd=COQ, timeout=timeout + 30)


_ERR_RE = re.compile(r'File "([^"]+)", line (\d+), characters')


def locate_failure(out: str) -> str:
    """Name of the Lemma/Theorem/Definition enclosing the first coqc error in `out`."""
    m = _ERR_RE.search(out)
    if not m:
        return "build:" + (out.strip().splitlines()[-1][:120] if out.strip() else "unknown")
    path, line = m.group(1), int(m.group(2))
    if not os.path.isabs(path):
        path = os.path.join(COQ, path)
    name = "?"
    try:
        with open(path, encoding="utf-8") as f:
            lines = f.read().splitlines()
        for l in reversed(lines[:line]):
            mm = re.match(r"\s*(?:Local\s+|Global\s+|#\[[^\]]*\]\s*)?(Lemma|Theorem|Corollary|Definition|Fixpoint|Example|Fact|Proposition|Instance|Remark)\s+([A-Za-z0-9_']+)", l)
            if mm:
                name = mm.group(2)
                break
    except OSError:
        pass
    return f"{os.path.relpath(path, COQ)}:{line}:{name}"


def parse_assumptions(out: str) -> list[tuple[str, list[str]]]:
    """Parse the output of a Property.v whose pattern is `Print Assumptions thm.` after each theorem.

    Property.v announces each theorem with a line printed by
        Goal True. idtac "OBLIGATION <name>". exact I. Qed.   (or `Ltac`-free:  Print Assumptions only)
    To stay simple we rely on Coq's output order: one block per `Print Assumptions`, either
    "Closed under the global context" or "Axioms:" followed by indented `name : type` lines.
    """
    blocks: list[list[str]] = []
    cur = None
    for line in out.splitlines():
        if line.startswith("Closed under the global context"):
            blocks.append([])
            cur = None
        elif line.startswith("Axioms:"):
            cur = []
            blocks.append(cur)
        elif cur is not None:
            m = re.match(r"^([A-Za-z_][A-Za-z0-9_.']*)\s*:", line)
            if m:
                cur.append(m.group(1))
            elif line and not line.startswith(" "):
                cur = None
    return blocks


def property_theorems(path: str) -> list[str]:
    with open(path, encoding="utf-8") as f:
        txt = strip_comments(f.read())
    return re.findall(r"Print\s+Assumptions\s+([A-Za-z0-9_']+)\s*\.", txt)


# ------------------------------------------------------------------ Coq literals

def cZ(n: int) -> str:
    return f"({n})%Z" if n < 0 else f"{n}%Z"


def cN(n: int) -> str:
    assert n >= 0
    return f"{n}%N"


def cnat(n: int) -> str:
    assert 0 <= n < 5000, "nat literals must stay small"
    return f"{n}%nat"


def cpos(n: int) -> str:
    assert n >= 1
    return f"{n}%positive"


def cbool(b: bool) -> str:
    return "true" if b else "false"


def clist(items) -> str:
    return "[" + "; ".join(items) + "]"


def copt(x, f=lambda s: s) -> str:
    return "None" if x is None else f"(Some {f(x)})"


def cpair(a: str, b: str) -> str:
    return f"({a}, {b})"


def cstr(s: str) -> str:
    """Python str -> list N of code points."""
    return clist(cN(ord(c)) for c in s)


def cbytes(b: bytes) -> str:
    return clist(cN(x) for x in b)


_EXN_NAMES = {"ValueError", "TypeError", "IndexError", "KeyError", "AssertionError", "RuntimeError",
              "AttributeError", "OSError", "StopIteration"}


def exn_name(e: BaseException) -> str:
    for k in type(e).__mro__:
        if k.__name__ in _EXN_NAMES:
            return k.__name__
        if k.__name__ in ("FileNotFoundError", "FileExistsError", "PermissionError", "IsADirectoryError"):
            return "OSError"
    return "OtherError"


def cres(outcome, f=lambda s: s) -> str:
    """('ok', x) | ('raise', 'ValueError')"""
    kind, v = outcome
    return f"(Ok {f(v)})" if kind == "ok" else f"(Raise {v})"


def parse_nat_list(out: str, marker: str = "=") -> list[int]:
    """Parse `     = [3; 7]%nat\n : list nat` as printed by Eval vm_compute."""
    m = re.search(r"=\s*(\[[^\]]*\]|nil)", out)
    if not m:
        raise ValueError("no list in coq output:\n" + out[-2000:])
    body = m.group(1)
    if body == "nil":
        return []
    return [int(x) for x in re.findall(r"\d+", body)]


def parse_nat_lists(out: str) -> list[list[int]]:
    """All `= [..]` results printed by successive `Eval vm_compute in (failing ..)` commands, in order."""
    res = []
    for m in re.finditer(r"=\s*(\[[^\]]*\]|nil)\s*:\s*list nat", out):
        body = m.group(1)
        res.append([] if body == "nil" else [int(x) for x in re.findall(r"\d+", body)])
    return res


def digest(obj) -> str:
    return hashlib.sha256(json.dumps(obj, sort_keys=True, default=str).encode()).hexdigest()[:16]


# ------------------------------------------------------------------ known findings

def load_known() -> list[dict]:
    """known_findings.json plus the per-property parts under known_findings.d/ (read-only at run time)."""
    out = []
    if os.path.exists(KNOWN):
        with open(KNOWN) as f:
            out += json.load(f)["findings"]
    d = os.path.join(VERIF, "known_findings.d")
    if os.path.isdir(d):
        for fn in sorted(os.listdir(d)):
            if fn.endswith(".json"):
                with open(os.path.join(d, fn)) as f:
                    out += json.load(f)["findings"]
    return out


# ------------------------------------------------------------------ the check object

class Check:
    def __init__(self, prop: str, tier: str, seed: int):
        self.prop = prop
        self.tier = tier
        self.seed = seed
        self.rng = random.Random(seed * 1000003 + int(hashlib.sha256(prop.encode()).hexdigest()[:8], 16))
        self.t0 = time.time()
        self.scratch = os.path.join(SCRATCH_ROOT, f"{prop}-{os.getpid()}")
        os.makedirs(self.scratch, exist_ok=True)
        self.obligations: list[dict] = []     # {name, discharged, assumptions}
        self.broken_items: list[dict] = []    # {name, detail}
        self.violations: list[str] = []
        self.known_lines: list[str] = []
        self.coverage: dict = {"evaluations": 0, "samples": [], "trusted_base": []}
        self.nontrivial: set[str] = set()
        self.assumptions: list[str] = []
        self.level = "proof"
        self.notes: list[str] = []
        self._known = [k for k in load_known() if k.get("property") == prop]
        self.thorough = tier == "thorough"

    # ---- generated Coq from the source tree
    def gen(self, name: str, text: str) -> None:
        from translate import write_if_changed
        write_if_changed(os.path.join(GEN, name + ".v"), text)

    def gen_failed(self, name: str, err: Exception) -> None:
        """Fail closed: the source left the translatable subset, so the generated model is not current."""
        p = os.path.join(GEN, name + ".v")
        self.broken(f"translate:{name}", f"translator rejected the source: {err}")
        if not os.path.exists(p):
            # keep the project buildable; theorems about it are already reported as broken
            pass

    # ---- proofs
    def prove(self, subdir: str | None = None, timeout: int = 1500) -> bool:
        """Build the closure of <subdir>/Property.v (full .vo) and re-run Property.v itself to read
        the Print Assumptions blocks.  Records one obligation per theorem."""
        subdir = subdir or self.prop
        prop_v = os.path.join(THEORIES, subdir, "Property.v")
        names = property_theorems(prop_v)
        closure = closure_files(prop_v)
        self.coverage["proof_files"] = [os.path.relpath(f, COQ) for f in sorted(closure)]
        bad = scan_forbidden(closure)
        self.obligations.append({"name": "no-admits-axioms-scan", "discharged": not bad,
                                 "assumptions": [], "detail": bad[:5]})
        if bad:
            self.broken("no-admits-axioms-scan", "; ".join(bad[:5]))
        rel = os.path.relpath(prop_v, COQ)
        # force Property.v to be re-checked on every run so its output is this run's
        vo = prop_v[:-2] + ".vo"
        with contextlib.suppress(FileNotFoundError):
            os.remove(vo)
        rc, out = make([rel[:-2] + ".vo"], timeout=timeout)
        self.coverage["checker_cmd"] = (f"make -C coq {rel[:-2]}.vo  (coq_makefile full .vo build, coqc 8.16.1; "
                                        "Print Assumptions under every theorem)")
        if rc != 0:
            where = locate_failure(out)
            for n in names:
                self.obligations.append({"name": n, "discharged": False, "assumptions": [], "detail": where})
            self.broken(f"proof:{where}", out[-3000:])
            return False
        blocks = parse_assumptions(out)
        if len(blocks) != len(names):
            # output lost (e.g. make printed nothing): re-run coqc directly
            rc2, out2 = sh(["coqc", "-Q", "theories", "IRV", "-w", "-all", rel], cwd=COQ, timeout=timeout)
            blocks = parse_assumptions(out2)
        ok = True
        for i, n in enumerate(names):
            ax = blocks[i] if i < len(blocks) else ["<no Print Assumptions output>"]
            short = [a for a in ax if a.split(".")[-1] not in {x.split(".")[-1] for x in ALLOWED_AXIOMS}]
            d = not short
            self.obligations.append({"name": n, "discharged": d, "assumptions": ax})
            if not d:
                ok = False
                self.broken(f"assumptions:{n}", f"theorem depends on non-allowed axioms: {short}")
        return ok

    # ---- running the model
    def coq_eval(self, text: str, tag: str, timeout: int = 600) -> tuple[int, str]:
        p = os.path.join(self.scratch, f"{tag}.v")
        with open(p, "w", encoding="utf-8") as f:
            f.write(text)
        # memory cap (address space, KiB): a runaway vm_compute must fail, not take the machine down
        cap = int(os.environ.get("VERIF_COQ_MEM_KB", "10000000"))
        return sh(["bash", "-c", f'ulimit -v {cap}; exec timeout {timeout} coqc -Q "$0" IRV -w -all "$1"',
                   os.path.join(COQ, "theories"), p], cwd=self.scratch, timeout=timeout + 30)

    def coq_eval_many(self, texts: list[tuple[str, str]], timeout: int = 600) -> list[tuple[int, str]]:
        """Compile several case files in parallel."""
        import concurrent.futures as cf
        with cf.ThreadPoolExecutor(max_workers=NPROC) as ex:
            futs = [ex.submit(self.coq_eval, t, tag, timeout) for tag, t in texts]
            return [f.result() for f in futs]

    def coq_failing_multi(self, text: str, tag: str, n: int, timeout: int = 600) -> list[list[int]]:
        """A case file with n successive `Eval vm_compute in (failing ..)` commands -> n index lists."""
        rc, out = self.coq_eval(text, tag, timeout)
        if rc != 0:
            raise RuntimeError(f"case file {tag} did not compile:\n{out[-3000:]}")
        res = parse_nat_lists(out)
        if len(res) != n:
            raise RuntimeError(f"case file {tag}: expected {n} result lists, got {len(res)}:\n{out[-2000:]}")
        return res

    def coq_failing(self, text: str, tag: str, timeout: int = 600) -> list[int]:
        rc, out = self.coq_eval(text, tag, timeout)
        if rc != 0:
            raise RuntimeError(f"case file {tag} did not compile:\n{out[-3000:]}")
        return parse_nat_list(out)

    # ---- bookkeeping
    def broken(self, name: str, detail: str = "") -> None:
        self.broken_items.append({"name": name, "detail": detail[-4000:]})

    def trust(self, *items: str) -> None:
        for it in items:
            if it not in self.coverage["trusted_base"]:
                self.coverage["trusted_base"].append(it)

    def count(self, n: int = 1) -> None:
        self.coverage["evaluations"] += n

    def nontriv(self, case) -> None:
        self.nontrivial.add(digest(case))

    def sample(self, case, limit: int = 6) -> None:
        if len(self.coverage["samples"]) < limit:
            self.coverage["samples"].append(case)

    def hist(self, key: str, item: str, n: int = 1) -> None:
        h = self.coverage.setdefault(key, {})
        h[item] = h.get(item, 0) + n

    def known(self, key: str) -> dict | None:
        for k in self._known:
            if k.get("key") == key and k.get("status") == "known":
                return k
        return None

    def known_finding(self, key: str, what: str) -> None:
        line = f"KNOWN-FINDING: property={self.prop} {key}: {what}"
        if line not in self.known_lines:
            self.known_lines.append(line)
            print(line, flush=True)

    def write_replay(self, replay: dict, tag: str = "") -> str:
        os.makedirs(REPLAYS, exist_ok=True)
        replay = dict(replay)
        replay.setdefault("property", self.prop)
        replay.setdefault("seed", self.seed)
        replay.setdefault("tier", self.tier)
        name = f"{self.prop}-{self.seed}-{tag or digest(replay)}.json"
        p = os.path.join(REPLAYS, name)
        with open(p, "w") as f:
            json.dump(replay, f, indent=1, default=str)
        return p

    def violation(self, replay: dict, found_input: bool = True, tag: str = "") -> None:
        p = self.write_replay(replay, tag)
        line = f"VIOLATION property={self.prop} replay={p}"
        if not found_input:
            line += " no-failing-input-found"
        self.violations.append(line)
        print(line, flush=True)

    def finish(self) -> int:
        # a broken obligation / correspondence with no violation reported by the search
        if self.broken_items and not self.violations:
            self.violation({"kind": "no-failing-input-found",
                            "broken": self.broken_items,
                            "explanation": "a proof obligation or the model/implementation correspondence "
                                           "no longer checks; the search found no concrete failing input"},
                           found_input=False, tag="broken")
        cov = self.coverage
        cov["obligations"] = len(self.obligations)
        cov["discharged"] = sum(1 for o in self.obligations if o["discharged"])
        cov["obligation_list"] = self.obligations
        cov["distinct_nontrivial"] = len(self.nontrivial)
        cov.setdefault("checker_cmd", "coqc 8.16.1")
        cov["broken"] = [b["name"] for b in self.broken_items]
        cov["known_findings_replayed"] = self.known_lines
        if self.notes:
            cov["notes"] = self.notes
        ev = {
            "property_id": self.prop,
            "tier": self.tier,
            "seed": self.seed,
            "level": self.level,
            "coverage": cov,
            "assumptions": self.assumptions,
            "wall_s": round(time.time() - self.t0, 2),
            "violations": len(self.violations),
        }
        os.makedirs(EVIDENCE, exist_ok=True)
        with open(os.path.join(EVIDENCE, f"{self.prop}.json"), "w") as f:
            json.dump(ev, f, indent=1, default=str)
        shutil.rmtree(self.scratch, ignore_errors=True)
        status = "FAIL" if self.violations else "ok"
        print(f"[{self.prop}] {status} tier={self.tier} seed={self.seed} "
              f"obligations={cov['discharged']}/{cov['obligations']} evaluations={cov['evaluations']} "
              f"distinct_nontrivial={cov['distinct_nontrivial']} wall={ev['wall_s']}s", flush=True)
        return 1 if self.violations else 0

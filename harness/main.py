"""Entry point: ./check <Cxx> quick|thorough | ./check <Cxx> --replay <file> | ./check --setup"""

from __future__ import annotations

import importlib
import json
import os
import sys
import traceback

from harness import common


def setup() -> int:
    """Build everything from files on disk: regenerate Gen/ from /repo, full .vo build."""
    rc_all = 0
    props = sorted(f[:-3] for f in os.listdir(os.path.join(common.VERIF, "harness", "props"))
                   if f.startswith("c") and f.endswith(".py"))
    for p in props:
        mod = importlib.import_module(f"harness.props.{p}")
        if hasattr(mod, "generate"):
            ck = common.Check(p.upper(), "quick", 0)
            try:
                mod.generate(ck)
            except Exception as e:  # noqa: BLE001
                print(f"[setup] generate {p}: {e}")
            import shutil
            shutil.rmtree(ck.scratch, ignore_errors=True)
    rc, out = common.make([], timeout=3000)
    print(out[-6000:])
    if rc != 0:
        print("[setup] coq build failed")
        rc_all = 1
    bad = common.scan_forbidden()
    if bad:
        print("[setup] forbidden constructs:", bad)
        rc_all = 1
    return rc_all


def main(argv: list[str]) -> int:
    if not argv:
        print(__doc__)
        return 2
    if argv[0] == "--setup":
        return setup()
    prop = argv[0].upper()
    seed = int(os.environ.get("VERIF_SEED", "0") or 0)
    mod = importlib.import_module(f"harness.props.{prop.lower()}")
    if len(argv) >= 3 and argv[1] == "--replay":
        with open(argv[2]) as f:
            replay = json.load(f)
        return mod.replay(replay)
    tier = os.environ.get("VERIF_TIER") or (argv[1] if len(argv) > 1 else "quick")
    if tier not in ("quick", "thorough"):
        print("tier must be quick or thorough")
        return 2
    ck = common.Check(prop, tier, seed)
    try:
        mod.run(ck)
    except Exception:  # noqa: BLE001
        # an internal error of the machinery must not look like a pass
        tb = traceback.format_exc()
        print(tb)
        ck.broken("harness-internal-error", tb)
    return ck.finish()


if __name__ == "__main__":
    sys.exit(main(sys.argv[1:]))

"""Entry point: ./check <Cxx> quick|thorough | ./check <Cxx> --replay <file> | ./check --setup"""

from __future__ import annotations

import importlib
import json
import os
import sys
import traceback

from harness import common


def setup() -> int:
    """Build everything from files on disk: regenerate Gen/ from /repo, full .vo build."""
    rc_all = 0
    props = sorted(f[:-3] for f in os.listdir(os.path.join(common.VERIF, "harness", "props"))
                   if f.startswith("c") and f.endswith(".py"))
    for p in props:
        mod = importlib.import_module(f"harness.props.{p}")
        if hasattr(mod, "generate"):
            ck = common.Check(p.upper(), "quick", 0)
            try:
                mod.generate(ck)
            except Exception as e:  # noqa: BLE001
                print(f"[setup] generate {p}: {e}")
            import shutil
            shutil.rmtree(ck.scratch, ignore_errors=True)
    # -k: one property's broken file must not keep the others from being built; each check rebuilds and
    # reports its own closure anyway (a proof that does not build is a broken obligation of that check).
    with common.coq_lock():
        common.write_coqproject()
        rc, out = common.sh(["timeout", "3000", "make", "-k", "-j", str(common.NPROC), "--no-print-directory"],
                            cwd=common.COQ, timeout=3100)
    print(out[-6000:])
    if rc != 0:
        print("[setup] WARNING: some Coq files did not build (see above); the checks depending on them will report it")
    if not os.path.exists(os.path.join(common.THEORIES, "Base", "Exn.vo")):
        print("[setup] Base/Exn.vo missing: the Coq toolchain is not usable")
        rc_all = 1
    bad = common.scan_forbidden()
    if bad:
        print("[setup] WARNING: forbidden constructs in the development:", bad[:10])
    return rc_all


def audit() -> int:
    """Whole-development audit: global scan for Admitted/Axiom/..., full build, coqchk -o on every Property.vo."""
    rc_all = 0
    bad = common.scan_forbidden()
    print("forbidden constructs:", bad or "none")
    if bad:
        rc_all = 1
    rc, out = common.make([], timeout=3000)
    if rc != 0:
        print(out[-3000:])
        rc_all = 1
    mods = []
    for d in sorted(os.listdir(common.THEORIES)):
        if os.path.exists(os.path.join(common.THEORIES, d, "Property.vo")):
            mods.append(f"IRV.{d}.Property")
    rc, out = common.sh(["timeout", "3000", "coqchk", "-silent", "-o", "-Q", "theories", "IRV"] + mods,
                        cwd=common.COQ, timeout=3100)
    print(out[-6000:])
    return rc_all or (1 if rc != 0 else 0)


def main(argv: list[str]) -> int:
    if not argv:
        print(__doc__)
        return 2
    if argv[0] == "--setup":
        return setup()
    if argv[0] == "--audit":
        return audit()
    prop = argv[0].upper()
    seed = int(os.environ.get("VERIF_SEED", "0") or 0)
    mod = importlib.import_module(f"harness.props.{prop.lower()}")
    if len(argv) >= 3 and argv[1] == "--replay":
        with open(argv[2]) as f:
            replay = json.load(f)
        return mod.replay(replay)
    tier = os.environ.get("VERIF_TIER") or (argv[1] if len(argv) > 1 else "quick")
    if tier not in ("quick", "thorough"):
        print("tier must be quick or thorough")
        return 2
    ck = common.Check(prop, tier, seed)
    try:
        mod.run(ck)
    except Exception:  # noqa: BLE001
        # an internal error of the machinery must not look like a pass
        tb = traceback.format_exc()
        print(tb)
        ck.broken("harness-internal-error", tb)
    return ck.finish()


if __name__ == "__main__":
    sys.exit(main(sys.argv[1:]))

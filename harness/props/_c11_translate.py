"""Fail-closed translation of onnx_ir/_linked_list.py (pointer code) into Gallina over C11/Heap.v.

Statement by statement: every attribute read / write, dict operation, allocation, call, raise and return of
`_LinkBox.__init__`, `_LinkBox.erase`, `DoublyLinkedSet.remove/_insert_one_after/_insert_many_after/append/
extend/insert_after/insert_before` becomes one operation of the heap monad `M`; `__iter__`/`__reversed__`
(generators of the shape  <init>; while <cond>: <checks>; if <live>: <asserts>; yield <e>;  <advance>) become the
three functions  first / scan / resume.  Anything outside the fragment raises `Unsupported` (the caller turns that
into a broken obligation; no partial output).

Typing: Python variables are boxes (`bid`), values (`elt`, never None by typing: `v is None` is `false`),
optional values (`box.value`), value lists, or the owner tag.  `self` of DoublyLinkedSet is the single list
object (`SELF`, `_root` = `ROOT`); `id(v)` is `v` itself (values are compared by identity = handle).
"""
from __future__ import annotations

import ast


class Unsupported(Exception):
    pass


BOXF = {"prev": ("get_prev", "set_prev", "box"), "next": ("get_next", "set_next", "box"),
        "value": ("get_val", "set_val", "oval"), "owning_list": ("get_own", "set_own", "owner")}

# python method -> (coq name, [(param, type)], result type)
SET_METHODS = {
    "remove": ("py_remove", [("value", "val")], "unit"),
    "_insert_one_after": ("py_insert_one_after", [("box", "box"), ("new_value", "val")], "box"),
    "_insert_many_after": ("py_insert_many_after", [("box", "box"), ("new_values", "vals")], "unit"),
    "append": ("py_append", [("value", "val")], "unit"),
    "extend": ("py_extend", [("values", "vals")], "unit"),
    "insert_after": ("py_insert_after", [("value", "val"), ("new_values", "vals")], "unit"),
    "insert_before": ("py_insert_before", [("value", "val"), ("new_values", "vals")], "unit"),
}
COQ_TY = {"box": "bid", "val": "elt", "oval": "option elt", "vals": "list elt", "owner": "nat", "unit": "unit",
          "bool": "bool", "int": "Z"}
EXNS = {"ValueError", "TypeError", "RuntimeError", "AssertionError", "KeyError", "IndexError"}


def v_(name):
    return "v_" + name


class Tr:
    def __init__(self, in_box_class: bool):
        self.in_box = in_box_class
        self.n = 0

    def tmp(self):
        self.n += 1
        return f"t{self.n}"

    # ------------------------------------------------------------------ expressions -> (pre, term, type)
    def ex(self, e, env):
        if isinstance(e, ast.Constant) and e.value is None:
            return [], "None", "none"
        if isinstance(e, ast.Constant) and isinstance(e.value, bool):
            return [], ("true" if e.value else "false"), "bool"
        if isinstance(e, ast.Name):
            if e.id == "self":
                return ([], v_("self"), "box") if self.in_box else ([], "SELF", "selfset")
            if e.id in env:
                return [], v_(e.id), env[e.id]
            raise Unsupported(f"unknown name {e.id}")
        if isinstance(e, ast.Attribute):
            if isinstance(e.value, ast.Name) and e.value.id == "self" and not self.in_box:
                if e.attr == "_root":
                    return [], "ROOT", "box"
                if e.attr == "_length":
                    t = self.tmp()
                    return [f"{t} <- get_len"], t, "int"
                if e.attr == "_value_ids_to_boxes":
                    return [], "<dict>", "dict"
                raise Unsupported(f"self.{e.attr}")
            pre, obj, ty = self.ex(e.value, env)
            if ty != "box":
                raise Unsupported(f"attribute {e.attr} of non-box")
            if e.attr == "erased":
                t = self.tmp()
                return pre + [f"{t} <- get_val {obj}"], f"(is_none {t})", "bool"
            if e.attr in BOXF:
                t = self.tmp()
                return pre + [f"{t} <- {BOXF[e.attr][0]} {obj}"], t, BOXF[e.attr][2]
            raise Unsupported(f"attribute {e.attr}")
        if isinstance(e, ast.NamedExpr):
            pre, term, ty = self.ex(e.value, env)
            env[e.target.id] = ty
            return pre + [f"LET {v_(e.target.id)} := {term}"], v_(e.target.id), ty
        if isinstance(e, ast.UnaryOp) and isinstance(e.op, ast.Not):
            pre, term, ty = self.ex(e.operand, env)
            if ty != "bool":
                raise Unsupported("not of non-bool")
            return pre, f"(negb {term})", "bool"
        if isinstance(e, ast.Compare) and len(e.ops) == 1:
            op = e.ops[0]
            lpre, l, lt = self.ex(e.left, env)
            rpre, r, rt = self.ex(e.comparators[0], env)
            pre = lpre + rpre
            if isinstance(op, (ast.In, ast.NotIn)):
                if rt != "dict" or lt != "val":
                    raise Unsupported("membership outside the id dict")
                t = self.tmp()
                term = t if isinstance(op, ast.In) else f"(negb {t})"
                return pre + [f"{t} <- dict_mem {l}"], term, "bool"
            if isinstance(op, (ast.Is, ast.IsNot)):
                if rt == "none":
                    core = {"oval": f"(is_none {l})", "val": "false"}.get(lt)
                elif lt == "box" and rt == "box":
                    core = f"({l} =? {r})"
                elif lt == "oval" and rt == "val":
                    core = f"(val_is {l} {r})"
                elif lt == "owner" and rt == "selfset":
                    core = f"({l} =? SELF)"
                else:
                    core = None
                if core is None:
                    raise Unsupported(f"identity test between {lt} and {rt}")
                return pre, (core if isinstance(op, ast.Is) else f"(negb {core})"), "bool"
            raise Unsupported("comparison operator")
        if isinstance(e, ast.Subscript):
            dpre, _, dt = self.ex(e.value, env)
            if dt != "dict":
                raise Unsupported("subscript of non-dict")
            kpre, k, kt = self.ex(e.slice, env)
            if kt != "val":
                raise Unsupported("dict key")
            t = self.tmp()
            return dpre + kpre + [f"{t} <- dict_get {k}"], t, "box"
        if isinstance(e, ast.Call):
            f = e.func
            if isinstance(f, ast.Name) and f.id == "id" and len(e.args) == 1:
                return self.ex(e.args[0], env)
            if isinstance(f, ast.Name) and f.id == "_LinkBox" and len(e.args) == 2 and not e.keywords:
                opre, o, ot = self.ex(e.args[0], env)
                vpre, v, vt = self.ex(e.args[1], env)
                if ot != "selfset" or vt not in ("val", "none"):
                    raise Unsupported("_LinkBox(...) arguments")
                t = self.tmp()
                val = "None" if vt == "none" else f"(Some {v})"
                return opre + vpre + [f"{t} <- alloc", f"_ <- py_linkbox_init {t} {o} {val}"], t, "box"
            if isinstance(f, ast.Attribute) and isinstance(f.value, ast.Name) and f.value.id == "self" \
                    and not self.in_box and f.attr in SET_METHODS and not e.keywords:
                cname, params, rty = SET_METHODS[f.attr]
                if len(e.args) != len(params):
                    raise Unsupported(f"arity of {f.attr}")
                pre, args = [], []
                for a, (_, pty) in zip(e.args, params):
                    apre, at, aty = self.ex(a, env)
                    if aty != pty:
                        raise Unsupported(f"argument type {aty} for {pty} in {f.attr}")
                    pre += apre
                    args.append(at)
                t = self.tmp()
                return pre + [f"{t} <- {cname} {' '.join(args)}"], t, rty
            if isinstance(f, ast.Attribute) and f.attr == "erase" and not e.args:
                pre, obj, ty = self.ex(f.value, env)
                if ty != "box":
                    raise Unsupported("erase() of non-box")
                t = self.tmp()
                return pre + [f"{t} <- py_erase {obj}"], t, "unit"
            raise Unsupported(f"call {ast.dump(f)[:60]}")
        raise Unsupported(f"expression {type(e).__name__}")

    @staticmethod
    def seq(pre, tail):
        out = tail
        for p in reversed(pre):
            if p.startswith("LET "):
                out = f"let {p[4:]} in\n  {out}"
            else:
                out = f"{p} ;;\n  {out}"
        return out

    # ------------------------------------------------------------------ statements -> term of type M <ret>
    @staticmethod
    def assigned(stmts):
        names = set()
        for s in stmts:
            for n in ast.walk(s):
                if isinstance(n, (ast.Assign, ast.AnnAssign, ast.AugAssign)):
                    tg = n.targets if isinstance(n, ast.Assign) else [n.target]
                    for t in tg:
                        for m in ast.walk(t):
                            if isinstance(m, ast.Name) and isinstance(m.ctx, ast.Store):
                                names.add(m.id)
        return names

    @staticmethod
    def terminates(stmts):
        return bool(stmts) and isinstance(stmts[-1], (ast.Raise, ast.Return))

    def exn(self, s: ast.Raise):
        e = s.exc
        name = e.func.id if isinstance(e, ast.Call) and isinstance(e.func, ast.Name) else getattr(e, "id", None)
        if name not in EXNS:
            raise Unsupported(f"raise {name}")
        return name

    def assign_to(self, target, term, ty, env, rest_fn):
        if isinstance(target, ast.Name):
            if target.id == "_":
                return rest_fn()
            env[target.id] = ty
            return f"let {v_(target.id)} := {term} in\n  {rest_fn()}"
        if isinstance(target, ast.Attribute):
            if isinstance(target.value, ast.Name) and target.value.id == "self" and not self.in_box:
                raise Unsupported(f"assignment to self.{target.attr}")
            pre, obj, oty = self.ex(target.value, env)
            if oty != "box" or target.attr not in BOXF:
                raise Unsupported("attribute assignment")
            want = BOXF[target.attr][2]
            if want == "oval":
                if ty == "none":
                    term = "None"
                elif ty == "val":
                    term = f"(Some {term})"
                elif ty != "oval":
                    raise Unsupported("value slot type")
            elif want == "owner":
                if ty not in ("owner", "selfset"):
                    raise Unsupported("owner slot type")
            elif ty != want:
                raise Unsupported(f"slot {target.attr} := {ty}")
            return self.seq(pre + [f"_ <- {BOXF[target.attr][1]} {obj} {term}"], rest_fn())
        if isinstance(target, ast.Subscript):
            _, _, dt = self.ex(target.value, env)
            kpre, k, kt = self.ex(target.slice, env)
            if dt != "dict" or kt != "val" or ty != "box":
                raise Unsupported("dict assignment")
            return self.seq(kpre + [f"_ <- dict_set {k} {term}"], rest_fn())
        raise Unsupported("assignment target")

    def stmts(self, ss, env, rty):
        if not ss:
            if rty != "unit":
                raise Unsupported("falls off the end of a function returning a value")
            return "ret tt"
        s, rest = ss[0], ss[1:]
        cont = lambda: self.stmts(rest, env, rty)  # noqa: E731
        if isinstance(s, ast.Expr) and isinstance(s.value, ast.Constant) and isinstance(s.value.value, str):
            return cont()
        if isinstance(s, ast.Expr):
            pre, _, _ = self.ex(s.value, env)
            return self.seq(pre, cont())
        if isinstance(s, ast.Raise):
            return f"raise {self.exn(s)}"
        if isinstance(s, ast.Return):
            if s.value is None:
                return "ret tt"
            pre, term, ty = self.ex(s.value, env)
            if ty != rty:
                raise Unsupported(f"return type {ty} for {rty}")
            return self.seq(pre, f"ret {term}")
        if isinstance(s, ast.Assert):
            pre, c, ty = self.ex(s.test, env)
            return self.seq(pre, f"if {c} then\n  {cont()}\n  else raise AssertionError")
        if isinstance(s, ast.If):
            if s.orelse:
                raise Unsupported("else branch")
            pre, c, ty = self.ex(s.test, env)
            if ty != "bool":
                raise Unsupported("non-boolean condition")
            if self.terminates(s.body):
                return self.seq(pre, f"if {c} then ({self.stmts(s.body, dict(env), rty)})\n  else\n  {cont()}")
            if self.assigned(s.body):
                raise Unsupported("assignment inside a non-terminating if")
            body = self.stmts(s.body, dict(env), "unit")
            return self.seq(pre, f"_ <- (if {c} then ({body}) else ret tt) ;;\n  {cont()}")
        if isinstance(s, (ast.Assign, ast.AnnAssign)):
            targets = s.targets if isinstance(s, ast.Assign) else [s.target]
            if len(targets) != 1:
                raise Unsupported("chained assignment")
            tg = targets[0]
            if isinstance(tg, ast.Tuple):
                if not isinstance(s.value, ast.Tuple) or len(tg.elts) != len(s.value.elts):
                    raise Unsupported("tuple assignment")
                pre, tmps = [], []
                for v in s.value.elts:           # right-hand sides first, left to right
                    vpre, term, ty = self.ex(v, env)
                    t = self.tmp()
                    pre += vpre + [f"LET {t} := {term}"]
                    tmps.append((t, ty))

                def chain(i):
                    if i == len(tg.elts):
                        return cont()
                    return self.assign_to(tg.elts[i], tmps[i][0], tmps[i][1], env, lambda: chain(i + 1))
                return self.seq(pre, chain(0))
            pre, term, ty = self.ex(s.value, env)
            return self.seq(pre, self.assign_to(tg, term, ty, env, cont))
        if isinstance(s, ast.AugAssign):
            t = s.target
            if not (isinstance(t, ast.Attribute) and isinstance(t.value, ast.Name) and t.value.id == "self"
                    and t.attr == "_length" and not self.in_box and isinstance(s.value, ast.Constant)
                    and isinstance(s.value.value, int) and isinstance(s.op, (ast.Add, ast.Sub))):
                raise Unsupported("augmented assignment")
            op = "+" if isinstance(s.op, ast.Add) else "-"
            tt = self.tmp()
            return self.seq([f"{tt} <- get_len", f"_ <- set_len ({tt} {op} {s.value.value})%Z"], cont())
        if isinstance(s, ast.Delete):
            if len(s.targets) != 1 or not isinstance(s.targets[0], ast.Subscript):
                raise Unsupported("del")
            _, _, dt = self.ex(s.targets[0].value, env)
            kpre, k, kt = self.ex(s.targets[0].slice, env)
            if dt != "dict" or kt != "val":
                raise Unsupported("del of non-dict item")
            return self.seq(kpre + [f"_ <- dict_del {k}"], cont())
        if isinstance(s, ast.For):
            if s.orelse or not isinstance(s.target, ast.Name) or not isinstance(s.iter, ast.Name) \
                    or env.get(s.iter.id) != "vals":
                raise Unsupported("for loop shape")
            carried = sorted(n for n in self.assigned(s.body) if n in env)
            if len(carried) > 1:
                raise Unsupported("more than one loop-carried variable")
            benv = dict(env)
            benv[s.target.id] = "val"
            if carried:
                cv = carried[0]
                body = self.stmts_then(s.body, benv, f"ret {v_(cv)}")
                loop = (f"{v_(cv)} <- for_m {v_(s.iter.id)} (fun {v_(cv)} {v_(s.target.id)} =>\n  {body}) {v_(cv)}")
            else:
                body = self.stmts_then(s.body, benv, "ret tt")
                loop = f"_ <- for_m {v_(s.iter.id)} (fun (_ : unit) {v_(s.target.id)} =>\n  {body}) tt"
            return self.seq([loop], cont())
        raise Unsupported(f"statement {type(s).__name__}")

    def stmts_then(self, ss, env, final):
        """statements that do not return/raise at the end, followed by `final`"""
        if self.terminates(ss):
            raise Unsupported("return inside a loop body")
        marker = "ret tt"
        out = self.stmts(ss, env, "unit")
        if not out.rstrip().endswith(marker):
            raise Unsupported("loop body shape")
        return out.rstrip()[: -len(marker)] + final


def find(tree, cls, name):
    for n in tree.body:
        if isinstance(n, ast.ClassDef) and n.name == cls:
            for m in n.body:
                if isinstance(m, ast.FunctionDef) and m.name == name:
                    return m
    raise Unsupported(f"{cls}.{name} not found")


def check_params(fn, names):
    got = [a.arg for a in fn.args.args]
    if got != ["self"] + names or fn.args.vararg or fn.args.kwarg or fn.args.kwonlyargs:
        raise Unsupported(f"parameters of {fn.name}: {got}")


def gen_generator(tree, name, coq):
    """__iter__/__reversed__:  <init: box = ...>; while box is not self._root: <checks>; if not box.erased:
    <asserts>; yield box.value;  <advance: box = ...>"""
    fn = find(tree, "DoublyLinkedSet", name)
    check_params(fn, [])
    body = [s for s in fn.body if not (isinstance(s, ast.Expr) and isinstance(s.value, ast.Constant))]
    if len(body) != 2 or not isinstance(body[0], ast.Assign) or not isinstance(body[1], ast.While) or body[1].orelse:
        raise Unsupported(f"{name}: generator shape")
    init, loop = body
    if not (len(init.targets) == 1 and isinstance(init.targets[0], ast.Name)):
        raise Unsupported(f"{name}: init")
    var = init.targets[0].id
    tr = Tr(False)
    pre, term, ty = tr.ex(init.value, {})
    if ty != "box":
        raise Unsupported(f"{name}: loop variable type")
    first = tr.seq(pre, f"ret {term}")
    env = {var: "box"}
    cpre, cond, cty = tr.ex(loop.test, dict(env))
    # split the body at the `if` that contains the yield
    idx = [i for i, s in enumerate(loop.body) if isinstance(s, ast.If) and any(isinstance(n, ast.Yield) for n in ast.walk(s))]
    if len(idx) != 1 or any(isinstance(n, (ast.Yield, ast.YieldFrom)) for i, s in enumerate(loop.body) if i != idx[0]
                            for n in ast.walk(s)):
        raise Unsupported(f"{name}: exactly one yield inside one if expected")
    checks, yif, advance = loop.body[:idx[0]], loop.body[idx[0]], loop.body[idx[0] + 1:]
    if yif.orelse or not yif.body or not (isinstance(yif.body[-1], ast.Expr) and isinstance(yif.body[-1].value, ast.Yield)):
        raise Unsupported(f"{name}: the yield must be the last statement of its if")
    if any(not isinstance(s, ast.Assert) for s in yif.body[:-1]):
        raise Unsupported(f"{name}: only asserts may precede the yield")
    if len(advance) != 1 or not isinstance(advance[0], ast.Assign) or not isinstance(advance[0].targets[0], ast.Name) \
            or advance[0].targets[0].id != var:
        raise Unsupported(f"{name}: advance statement")
    # advance: box = <expr>
    apre, aterm, aty = tr.ex(advance[0].value, dict(env))
    if aty != "box":
        raise Unsupported(f"{name}: advance type")
    adv = tr.seq(apre, f"ret {aterm}")
    # yield branch
    ypre, yterm, yty = tr.ex(yif.body[-1].value.value, dict(env))
    if yty != "oval":
        raise Unsupported(f"{name}: yielded expression")
    ybody = tr.seq(ypre, f"match {yterm} with Some x => ret (Some ({v_(var)}, x)) | None => raise AssertionError end")
    for a in reversed(yif.body[:-1]):
        tpre, tc, _ = tr.ex(a.test, dict(env))
        ybody = tr.seq(tpre, f"if {tc} then ({ybody}) else raise AssertionError")
    lpre, lc, _ = tr.ex(yif.test, dict(env))
    # checks before the if: each must be `if c: raise`
    inner = tr.seq(lpre, f"if {lc} then ({ybody})\n  else ({v_(var)}' <- {coq}_advance {v_(var)} ;; {coq}_scan fuel' {v_(var)}')")
    for c in reversed(checks):
        if not (isinstance(c, ast.If) and not c.orelse and len(c.body) == 1 and isinstance(c.body[0], ast.Raise)):
            raise Unsupported(f"{name}: statement before the yield-if")
        kpre, kc, _ = tr.ex(c.test, dict(env))
        inner = tr.seq(kpre, f"if {kc} then raise {tr.exn(c.body[0])} else\n  {inner}")
    scan = tr.seq(cpre, f"if {cond} then\n  {inner}\n  else ret None")
    return (f"Definition {coq}_first : M bid :=\n  {first}.\n\n"
            f"Definition {coq}_advance ({v_(var)} : bid) : M bid :=\n  {adv}.\n\n"
            f"(* one unit of fuel per loop iteration; None = the while loop ended (StopIteration) *)\n"
            f"Fixpoint {coq}_scan (fuel : nat) ({v_(var)} : bid) : M (option (bid * elt)) :=\n"
            f"  match fuel with\n  | 0 => raise OtherError\n  | S fuel' =>\n  {scan}\n  end.\n\n")


HEADER = """(* GENERATED by harness/props/_c11_translate.py from src/onnx_ir/_linked_list.py — do not edit.
   One monad operation per Python statement / attribute access; see C11/Heap.v for the operations. *)
From Coq Require Import List Arith ZArith Bool.
From IRV Require Import Base.Exn C11.Model C11.Heap.
Import ListNotations.

"""


def translate(path: str) -> str:
    with open(path, encoding="utf-8") as f:
        tree = ast.parse(f.read())
    out = HEADER
    # _LinkBox.__init__ and erase
    fn = find(tree, "_LinkBox", "__init__")
    check_params(fn, ["owner", "value"])
    tr = Tr(True)
    out += ("Definition py_linkbox_init (v_self : bid) (v_owner : nat) (v_value : option elt) : M unit :=\n  "
            + tr.stmts(fn.body, {"owner": "owner", "value": "oval"}, "unit") + ".\n\n")
    fn = find(tree, "_LinkBox", "erase")
    check_params(fn, [])
    tr = Tr(True)
    out += "Definition py_erase (v_self : bid) : M unit :=\n  " + tr.stmts(fn.body, {}, "unit") + ".\n\n"
    for name in ("remove", "_insert_one_after", "_insert_many_after", "append", "extend", "insert_after",
                 "insert_before"):
        cname, params, rty = SET_METHODS[name]
        fn = find(tree, "DoublyLinkedSet", name)
        check_params(fn, [p for p, _ in params])
        tr = Tr(False)
        env = {p: t for p, t in params}
        sig = " ".join(f"({v_(p)} : {COQ_TY[t]})" for p, t in params)
        out += f"Definition {cname} {sig} : M {COQ_TY[rty]} :=\n  " + tr.stmts(fn.body, env, rty) + ".\n\n"
    out += gen_generator(tree, "__iter__", "py_iter")
    out += gen_generator(tree, "__reversed__", "py_rev")
    return out


if __name__ == "__main__":
    import sys
    print(translate(sys.argv[1]))

"""C14 implementation side: model specs -> onnx_ir models, observation, property oracle.

Kept in a separate file only for size; owned by property C14 (imported by harness/props/c14.py).
Everything here goes through the public API of onnx_ir (constructors, accessors, passes).
"""

from __future__ import annotations

import contextlib
import copy
import json

import numpy as np

BIG = 300      # float32 elements -> 1200 bytes > _BIG_TENSOR_SIZE_LIMIT (1000)
SMALL = 1


# --------------------------------------------------------------------------- building models from specs

class Built:
    def __init__(self):
        self.model = None
        self.values = {}      # handle -> Value (first definition wins per scope chain; flat registry by handle)
        self.tensors = {}     # handle -> tensor object of initializers
        self.lazy_calls = {}  # handle -> number of evaluations of a lazy tensor


def _tensor(ir, kind: str, name: str, built: Built):
    F = ir.DataType.FLOAT
    n = BIG if kind in ("big", "biglazy", "bignoshape") else SMALL
    arr = np.arange(n, dtype=np.float32) * 0.5 + (len(name) % 3)
    if kind in ("small", "big", "bignoshape", "smallnoshape", "dup"):
        if kind == "dup":
            arr = np.zeros(SMALL, dtype=np.float32) + 7.0
        return ir.Tensor(arr, name=name)
    if kind in ("lazy", "biglazy"):
        built.lazy_calls[name] = 0

        def f(a=arr, nm=name):
            built.lazy_calls[nm] += 1
            return ir.Tensor(a, name=nm)
        return ir.LazyTensor(f, dtype=F, shape=ir.Shape([n]), name=name)
    if kind == "lazyraise":
        def boom():
            raise RuntimeError("injected: lazy tensor evaluation failed")
        return ir.LazyTensor(boom, dtype=F, shape=ir.Shape([n]), name=name)
    if kind == "none":
        return None
    raise AssertionError(kind)


def _mk_value(ir, h: str, names: dict, typed=True, n: int = BIG):
    """typed: True (dtype and shape) | "dtype" (dtype only) | False (neither)."""
    name = names.get(h, h)
    if typed == "dtype":
        return ir.Value(name=name, type=ir.TensorType(ir.DataType.FLOAT), shape=ir.Shape(["N"]))
    if typed:
        return ir.Value(name=name, type=ir.TensorType(ir.DataType.FLOAT), shape=ir.Shape([n]))
    return ir.Value(name=name)


def _build_graph(ir, gs: dict, scope: dict, names: dict, built: Built):
    """scope: handle -> Value of the enclosing graphs."""
    local = dict(scope)
    inputs = []
    for h in gs.get("inputs", []):
        if h not in local or h in scope:
            v = _mk_value(ir, h, names, typed=gs.get("typed_inputs", True))
            if h == "cond":
                v = ir.Value(name=names.get(h, h), type=ir.TensorType(ir.DataType.BOOL), shape=ir.Shape([]))
            local[h] = v
            built.values[h] = v
        inputs.append(local[h])
    inits = []
    for it in gs.get("inits", []):
        h = it["h"]
        kind = it["kind"]
        t = _tensor(ir, kind, names.get(h, h), built)
        if h in local and h not in scope:
            v = local[h]           # an input that is also an initializer
            v.const_value = t
        else:
            n = BIG if kind in ("big", "biglazy", "bignoshape") else SMALL
            typed = it.get("typed", kind not in ("bignoshape", "smallnoshape"))
            v = _mk_value(ir, h, names, typed=typed, n=n)
            v.const_value = t
            local[h] = v
            built.values[h] = v
        built.tensors[h] = t
        inits.append(v)
    # pre-create the outputs of every node of this graph (unsorted graphs: consumers may come first)
    for ns in gs.get("nodes", []):
        for h in ns["outs"]:
            if h is None:
                continue
            v = _mk_value(ir, h, names, typed=ns.get("typed", "dtype"))
            if h in ns.get("vmeta", {}):
                v.metadata_props.update(ns["vmeta"][h])
            local[h] = v
            built.values[h] = v
    nodes = []
    for ns in gs.get("nodes", []):
        ins = [None if h is None else local[h] for h in ns["ins"]]
        outs = [local[h] if h is not None else ir.Value(name="") for h in ns["outs"]]
        attrs = []
        for k, a in ns.get("attrs", {}).items():
            if isinstance(a, dict) and "graph" in a:
                attrs.append(ir.AttrGraph(k, _build_graph(ir, a["graph"], local, names, built)))
            elif isinstance(a, dict) and "tensor" in a:
                n = a["tensor"]
                attrs.append(ir.AttrTensor(k, ir.Tensor(np.arange(n, dtype=np.float32) + a.get("base", 0.0), name=a.get("name", "c"))))
            elif isinstance(a, float):
                attrs.append(ir.AttrFloat32(k, a))
            elif isinstance(a, list):
                attrs.append(ir.AttrInt64s(k, a))
            else:
                attrs.append(ir.AttrInt64(k, int(a)))
        node = ir.Node(ns.get("domain", ""), ns["op"], ins, attributes=attrs, outputs=outs,
                       name=ns.get("name"), doc_string=ns.get("doc"), metadata_props=dict(ns.get("meta", {})) or None)
        nodes.append(node)
    outputs = [local[h] for h in gs.get("outputs", [])]
    g = ir.Graph(inputs, outputs, nodes=nodes, initializers=inits, name=gs.get("name", "g"),
                 doc_string=gs.get("doc"), opset_imports=dict(gs.get("opsets", {})) or None,
                 metadata_props=dict(gs.get("meta", {})) or None)
    return g


def build(spec: dict) -> Built:
    import onnx_ir as ir
    built = Built()
    names = spec.get("names", {})
    g = _build_graph(ir, spec["graph"], {}, names, built)
    funcs = []
    for fs in spec.get("functions", []):
        fg = _build_graph(ir, fs["graph"], {}, names, built)
        funcs.append(ir.Function(fs["domain"], fs["name"], fs.get("overload", ""), graph=fg, attributes=[]))
    m = ir.Model(g, ir_version=10, functions=funcs)
    if spec.get("model_doc"):
        m.doc_string = spec["model_doc"]
    built.model = m
    return built


# --------------------------------------------------------------------------- observation

def ser(model) -> bytes | None:
    """Canonical serialization, None when the model cannot be serialized."""
    import onnx_ir as ir
    try:
        return ir.to_proto(model).SerializeToString(deterministic=True)
    except Exception:  # noqa: BLE001
        return None


def graphs_of(model):
    """All graphs of the model (main, subgraphs, function bodies and their subgraphs) as (label, graph_like)."""
    out = []
    for i, g in enumerate(model.graphs()):
        out.append((f"g{i}", g))
    for k, (fid, f) in enumerate(model.functions.items()):
        out.append((f"f{k}", f))
        for j, sg in enumerate(f.subgraphs()):
            out.append((f"f{k}s{j}", sg))
    return out


def all_nodes(model):
    ns = []
    for _, g in graphs_of(model):
        ns.extend(list(g))
    return ns


def model_size(model) -> int:
    """Generous size of a model: nodes + initializers + graph inputs/outputs + functions + opset imports + values."""
    n = 0
    for _, g in graphs_of(model):
        nodes = list(g)
        n += len(nodes) + len(g.inputs) + len(g.outputs)
        n += sum(len(x.outputs) + len(x.inputs) for x in nodes)
        if hasattr(g, "initializers"):
            n += len(g.initializers)
        n += len(g.opset_imports)
    return n + len(model.functions) + 1


class NameReg:
    """Structural handles (names / positions) — used to compare a functional pass's result with its input."""

    def __call__(self, o):
        if o is None:
            return None
        nm = getattr(o, "name", None)
        return f"{type(o).__name__}:{nm}"


class Reg:
    """Stable small handles for Python objects (instead of id())."""

    def __init__(self):
        self.ids = {}
        self.keep = []

    def __call__(self, o):
        if o is None:
            return None
        k = id(o)
        if k not in self.ids:
            self.ids[k] = len(self.ids)
            self.keep.append(o)
        return self.ids[k]


def snapshot(model, reg: Reg) -> dict:
    """Deep observation through public accessors: object identities (as handles), order, names, types, docs."""
    snap = {"functions": [str(k) for k in model.functions], "graphs": {}}
    for label, g in graphs_of(model):
        vals = {}
        if isinstance(reg, NameReg):
            nl = list(g)
            uniq = len({n.name for n in nl}) == len(nl) and all(n.name for n in nl)
            pos = {id(n): i for i, n in enumerate(nl)}
            nkey = (lambda n: "n:" + n.name) if uniq else (lambda n: pos[id(n)])
        else:
            nkey = reg

        def see(v):
            if v is None:
                return None
            h = reg(v)
            if h not in vals:
                vals[h] = (v.name, None if v.shape is None else str(v.shape), None if v.type is None else str(v.type),
                           reg(v.const_value), v.is_graph_input(), v.is_graph_output(), v.is_initializer(),
                           v.doc_string or None, tuple(sorted(v.metadata_props.items())))
            return h
        gd = {
            "inputs": [see(v) for v in g.inputs],
            "outputs": [see(v) for v in g.outputs],
            "initializers": [(k, see(v)) for k, v in g.initializers.items()] if hasattr(g, "initializers") else [],
            "order": [nkey(n) for n in g],
            "nodes": {nkey(n): (n.name, n.domain, n.op_type, tuple(see(i) for i in n.inputs), tuple(see(o) for o in n.outputs),
                               tuple(sorted(n.attributes.keys())), n.doc_string or None, tuple(sorted(n.metadata_props.items())))
                      for n in g},
            "doc": g.doc_string or None, "meta": tuple(sorted(g.metadata_props.items())),
            "opsets": tuple(g.opset_imports.items()),
        }
        gd["values"] = vals
        snap["graphs"][label] = gd
    return snap


def snap_diff(a: dict, b: dict) -> list[str]:
    out = []
    seen_vals = set()      # a value read in several graphs is reported once, under the first graph that shows it
    if a["functions"] != b["functions"]:
        out.append("functions")
    for label in sorted(set(a["graphs"]) | set(b["graphs"])):
        ga, gb = a["graphs"].get(label), b["graphs"].get(label)
        if ga is None or gb is None:
            out.append(f"{label}:graph-set")
            continue
        for k in ("inputs", "outputs", "initializers", "doc", "meta", "opsets"):
            if ga[k] != gb[k]:
                if k == "initializers" and sorted(map(str, ga[k])) == sorted(map(str, gb[k])):
                    out.append(f"{label}:initializer-order")
                else:
                    out.append(f"{label}:{k}")
        if ga["order"] != gb["order"]:
            out.append(f"{label}:node-order" if sorted(map(str, ga["order"])) == sorted(map(str, gb["order"])) else f"{label}:node-set")
        for h in sorted(set(ga["nodes"]) & set(gb["nodes"]), key=str):
            na, nb = ga["nodes"][h], gb["nodes"][h]
            if na == nb:
                continue
            fields = ["name", "domain", "op", "inputs", "outputs", "attrs", "doc", "meta"]
            for i, fld in enumerate(fields):
                if na[i] != nb[i]:
                    kind = fld
                    if fld == "inputs" and na[3][:len(nb[3])] == nb[3] and all(x is None for x in na[3][len(nb[3]):]):
                        kind = "inputs-trimmed"
                    if fld == "outputs" and na[4][:len(nb[4])] == nb[4]:
                        kind = "outputs-trimmed"
                    out.append(f"{label}:node:{kind}")
        for h in sorted(set(ga["values"]) | set(gb["values"]), key=str):
            va, vb = ga["values"].get(h), gb["values"].get(h)
            if h in seen_vals:
                continue
            seen_vals.add(h)
            if va is not None and vb is not None and va != vb:
                fields = ["name", "shape", "type", "const_value", "is_input", "is_output", "is_initializer", "doc", "meta"]
                ch = [fields[i] for i in range(len(fields)) if va[i] != vb[i]]
                role = "@init" if (va[6] or vb[6]) else ""
                out += [f"{label}:value:{c}{role}" for c in ch]
    return sorted(set(out))


# --------------------------------------------------------------------------- invariants (C01 I1-I7 via accessors)

def invariants(model) -> set[str]:
    """Names of violated link-consistency clauses (public accessors only)."""
    bad = set()
    glist = graphs_of(model)
    in_model = set()
    for _, g in glist:
        for n in g:
            in_model.add(id(n))
    # scopes: for graph g the values visible = own inputs/initializers/node outputs + enclosing
    def check_graph(label, g, outer_defined):
        nodes = list(g)
        owner = getattr(g, "_graph", g)   # not used for comparison; Function nodes report the Function or its graph
        if len({id(n) for n in nodes}) != len(nodes):
            bad.add("I3:duplicate-node")
        defined = set(outer_defined)
        for v in g.inputs:
            defined.add(id(v))
            if not v.is_graph_input():
                bad.add("I4:input-flag")
            if v.producer() is not None:
                bad.add("I6:input-produced")
        if hasattr(g, "initializers"):
            for k, v in g.initializers.items():
                defined.add(id(v))
                if v.name != k:
                    bad.add("I5:init-key")
                if not v.is_initializer():
                    bad.add("I5:init-flag")
                if v.graph is not g:
                    bad.add("I5:init-graph")
                if v.producer() is not None:
                    bad.add("I6:init-produced")
        for n in nodes:
            if n.graph is None:
                bad.add("I3:node-graph-none")
            for i, o in enumerate(n.outputs):
                defined.add(id(o))
                if o.producer() is not n or o.index() != i:
                    bad.add("I2:producer-index")
        for v in g.outputs:
            if not v.is_graph_output():
                bad.add("I4:output-flag")
        for n in nodes:
            for i, v in enumerate(n.inputs):
                if v is None:
                    continue
                if (n, i) not in v.uses():
                    bad.add("I1:use-missing")
                if id(v) not in defined:
                    bad.add("I1:dangling-input")    # reads a value that no graph in scope defines
            for a in n.attributes.values():
                sub = []
                try:
                    import onnx_ir as ir
                    if a.type == ir.AttributeType.GRAPH:
                        sub = [a.as_graph()]
                    elif a.type == ir.AttributeType.GRAPHS:
                        sub = list(a.as_graphs())
                except Exception:  # noqa: BLE001
                    sub = []
                for sg in sub:
                    check_graph(label + "/", sg, defined)
        for v in list(g.outputs):
            if id(v) not in defined:
                bad.add("I1:dangling-output")
            # a graph output that a node produces must be produced by a node OF THIS graph (a pass that inserts a
            # node for an output has to put it into the graph that owns the output)
            pr = v.producer()
            if pr is not None and all(pr is not n for n in nodes):
                bad.add(f"I4:output-produced-in-another-graph@{label}")
        # uses point back
        seen_vals = list(g.inputs) + [o for n in nodes for o in n.outputs]
        if hasattr(g, "initializers"):
            seen_vals += list(g.initializers.values())
        for v in seen_vals:
            for (n, i) in v.uses():
                if i >= len(n.inputs) or n.inputs[i] is not v:
                    bad.add("I1:use-stale")
                # (a user that lives in the subgraph of a removed If/Loop node keeps its use entry: that is
                #  consistent with I1 -- uses <-> inputs both ways -- and is NOT reported; weaker reading)
    check_graph("g", model.graph, set())
    for f in model.functions.values():
        check_graph("f", f, set())
    return bad


def unsorted_graphs(model) -> set[str]:
    """Labels of graphs that are not topologically ordered (producer after consumer, also through subgraphs)."""
    import onnx_ir as ir
    bad = set()

    def walk(label, g, pos_outer):
        nodes = list(g)
        pos = {id(n): i for i, n in enumerate(nodes)}

        def reads(n):
            vs = [v for v in n.inputs if v is not None]
            for a in n.attributes.values():
                subs = []
                if a.type == ir.AttributeType.GRAPH:
                    subs = [a.as_graph()]
                elif a.type == ir.AttributeType.GRAPHS:
                    subs = list(a.as_graphs())
                for sg in subs:
                    for sn in sg:
                        vs.extend(reads(sn))
            return vs
        for i, n in enumerate(nodes):
            for v in reads(n):
                p = v.producer()
                if p is not None and id(p) in pos and pos[id(p)] >= i and p is not n:
                    bad.add(label)
            k = 0
            for a in n.attributes.values():
                subs = []
                if a.type == ir.AttributeType.GRAPH:
                    subs = [a.as_graph()]
                elif a.type == ir.AttributeType.GRAPHS:
                    subs = list(a.as_graphs())
                for sg in subs:
                    walk(f"{label}/{n.name}.{k}", sg, pos)
                    k += 1
    walk("g", model.graph, {})
    for k, f in enumerate(model.functions.values()):
        walk(f"f{k}", f, {})
    return bad


def dangling_calls(model, local_before: set) -> list[str]:
    """Calls (anywhere: main graph, subgraphs, bodies of the functions still in the model) whose operator identifier
    named a model-local function before the pass and has no definition in model.functions now."""
    import onnx_ir as ir
    out = []
    tops = [("main", model.graph)] + [(f"{f.domain}::{f.name}", f) for f in model.functions.values()]
    for where, gl in tops:
        for n in ir.traversal.RecursiveGraphIterator(gl):
            oid = n.op_identifier()
            if oid in local_before and oid not in model.functions:
                out.append(f"{where}: {oid[0]}::{oid[1]}")
    return sorted(set(out))


def missing_imports(model) -> set:
    """(graph-like, domain) such that a node of that graph-like -- at any depth of If/Loop/Scan bodies -- is in a
    domain for which the graph-like (main graph or function) has no opset import."""
    import onnx_ir as ir
    out = set()
    tops = [("main", model.graph)] + [(f"{f.domain}::{f.name}", f) for f in model.functions.values()]
    for where, gl in tops:
        imports = set(gl.opset_imports)
        for n in ir.traversal.RecursiveGraphIterator(gl):
            if n.domain not in imports and not (n.domain in ("", "ai.onnx") and ({"", "ai.onnx"} & imports)):
                out.add(f"{where}: {n.domain!r}")
    return out


def unnamed_used(model) -> int:
    """Number of values needed by serialization (graph i/o, initializers, node inputs/outputs that are used) without a name."""
    c = 0
    for _, g in graphs_of(model):
        for v in list(g.inputs) + list(g.outputs):
            if not v.name:
                c += 1
        for n in g:
            for v in n.inputs:
                if v is not None and not v.name:
                    c += 1
    return c


# --------------------------------------------------------------------------- passes

def pass_catalog():
    """name -> (factory, kind) for EVERY built-in pass (+ option variants)."""
    from onnx_ir.passes import common as cp
    cat = {
        "AddDefaultAttributes": (cp.AddDefaultAttributesPass, "transform"),
        "AddInitializersToInputs": (cp.AddInitializersToInputsPass, "transform"),
        "Checker": (cp.CheckerPass, "analysis"),
        "CheckerFull": (lambda: cp.CheckerPass(full_check=True), "analysis"),
        "ClearMetadataAndDocString": (cp.ClearMetadataAndDocStringPass, "transform"),
        "CommonSubexpressionElimination": (cp.CommonSubexpressionEliminationPass, "transform"),
        "DeduplicateHashedInitializers": (cp.DeduplicateHashedInitializersPass, "transform"),
        "DeduplicateInitializers": (cp.DeduplicateInitializersPass, "transform"),
        "IdentityElimination": (cp.IdentityEliminationPass, "transform"),
        "Inline": (cp.InlinePass, "transform"),
        "LiftConstantsToInitializers": (lambda: cp.LiftConstantsToInitializersPass(size_limit=0), "transform"),
        "LiftConstantsToInitializersAll": (lambda: cp.LiftConstantsToInitializersPass(lift_all_constants=True, size_limit=1), "transform"),
        "LiftSubgraphInitializersToMainGraph": (cp.LiftSubgraphInitializersToMainGraphPass, "transform"),
        "NameFix": (cp.NameFixPass, "transform"),
        "OutputFix": (cp.OutputFixPass, "transform"),
        "RemoveInitializersFromInputs": (cp.RemoveInitializersFromInputsPass, "transform"),
        "RemoveUnusedFunctions": (cp.RemoveUnusedFunctionsPass, "transform"),
        "RemoveUnusedNodes": (cp.RemoveUnusedNodesPass, "transform"),
        "RemoveUnusedOpsets": (cp.RemoveUnusedOpsetsPass, "transform"),
        "ShapeInference": (cp.ShapeInferencePass, "shape"),
        "ShapeInferenceLoose": (lambda: cp.ShapeInferencePass(check_type=False, strict_mode=False, data_prop=False), "shape"),
        "TopologicalSort": (cp.TopologicalSortPass, "transform"),
    }
    # every name exported by passes.common that is a pass class must be in the catalog (fail closed on new passes)
    import onnx_ir.passes as passes
    for nm in cp.__all__:
        obj = getattr(cp, nm)
        if isinstance(obj, type) and issubclass(obj, passes.PassBase):
            short = nm[:-4] if nm.endswith("Pass") else nm
            if short not in cat:
                cat[short] = (obj, "transform")
    return cat


def make_pass(pspec):
    """pspec: "Name" | {"fun": pspec} | {"seq": [pspec...]} | {"mgr": [pspec...], "steps": k, "early": b}"""
    import onnx_ir.passes as passes
    if isinstance(pspec, str):
        return pass_catalog()[pspec][0]()
    if "fun" in pspec:
        return passes.functionalize(make_pass(pspec["fun"]))
    if "seq" in pspec:
        return passes.Sequential(*[make_pass(p) for p in pspec["seq"]])
    if "mgr" in pspec:
        return passes.PassManager([make_pass(p) for p in pspec["mgr"]], steps=pspec.get("steps", 1),
                                  early_stop=pspec.get("early", True))
    raise AssertionError(pspec)


def pspec_kind(pspec) -> str:
    if isinstance(pspec, str):
        return pass_catalog()[pspec][1]
    return "transform"


def pspec_names(pspec) -> list[str]:
    if isinstance(pspec, str):
        return [pspec]
    for k in ("fun",):
        if k in pspec:
            return pspec_names(pspec[k])
    out = []
    for p in pspec.get("seq", pspec.get("mgr", [])):
        out += pspec_names(p)
    return out


@contextlib.contextmanager
def onnx_fault(fault: str | None):
    """Fault injection at the ONNX boundary: rebinding the functions the pass modules call."""
    import onnx
    if fault not in ("check_raises", "infer_raises", "both_raise"):
        yield
        return
    old_c, old_i = onnx.checker.check_model, onnx.shape_inference.infer_shapes

    def raiser(*a, **k):
        raise RuntimeError("injected: ONNX C API call failed")
    try:
        if fault in ("check_raises", "both_raise"):
            onnx.checker.check_model = raiser
        if fault in ("infer_raises", "both_raise"):
            onnx.shape_inference.infer_shapes = raiser
        yield
    finally:
        onnx.checker.check_model, onnx.shape_inference.infer_shapes = old_c, old_i


# --------------------------------------------------------------------------- the property oracle

def classify(f: dict) -> str:
    return f["tag"]


def oracle_run(spec: dict, pspec, fault: str | None = None, max_rounds: int | None = None, pass_obj=None) -> dict:
    """Run `pspec` repeatedly on the model built from `spec`; return observations + the list of
    contract failures (strings starting with a stable tag).  Public API only."""
    built = build(spec)
    model = built.model
    reg = Reg()
    kind = pspec_kind(pspec)
    size = model_size(model)
    # convergence is required of every built-in pass on its own (and of functionalize(P)); an arbitrary
    # Sequential/PassManager composition may oscillate (e.g. Remove- then AddInitializersToInputs) -- not checked
    composite = not isinstance(pspec, str) and not ("fun" in pspec and isinstance(pspec["fun"], str))
    bound = size + 2 if max_rounds is None else max_rounds
    if composite and max_rounds is None:
        bound = 3
    failures: list[dict] = []

    def fail(tag, msg, diff=None):
        failures.append({"tag": tag, "msg": msg, "diff": list(diff or []), "round": len(rounds)})
    rounds = []
    first_false = None
    inv0 = invariants(model)
    p = make_pass(pspec) if pass_obj is None else pass_obj      # pass_obj: a REUSED pass instance
    chain = spec.get("_chain", True)
    prev_res = None
    r = 0
    while r < bound:
        before = ser(model)
        snap_b = snapshot(model, reg)
        snap_sb = snapshot(model, NameReg())
        uns_b = unsorted_graphs(model)
        unn_b = unnamed_used(model)
        inv_b = invariants(model) if r else inv0
        local_b = set(model.functions)
        dang_b = dangling_calls(model, local_b)
        imp_b = missing_imports(model)
        raised = None
        try:
            with onnx_fault(fault):
                # r = p(r)-style repetition: from the second round on the previous PassResult is the argument
                res = p(prev_res) if (chain and prev_res is not None) else p(model)
            prev_res = res
        except Exception as e:  # noqa: BLE001
            raised = type(e).__name__
            # the identity rule enforced by PassBase.__call__ must never be tripped by built-in passes or by
            # compositions of them (Sequential / PassManager / functionalize are built-in passes themselves)
            x, depth = e, 0
            while x is not None and depth < 10:
                if type(x).__name__ == "PassError" and "same object as the input model" in str(x):
                    fail("identity", "a built-in pass (composition) violated the in-place/functional identity rule: "
                         + str(x)[:160])
                    break
                x, depth = (x.__cause__ or x.__context__), depth + 1
        if raised is not None:
            rounds.append({"raised": raised})
            if kind in ("analysis", "shape"):
                d = snap_diff(snap_b, snapshot(model, reg))
                if d:
                    fail("readonly-on-raise", f"analysis pass raised {raised} and left the model changed", d)
            elif not p.in_place and not p.changes_input:
                # a functional pass "does not modify the input model" - also when it ends in an exception
                d = snap_diff(snap_b, snapshot(model, reg))
                if d:
                    fail("identity", f"functional pass raised {raised} and left its input changed", d)
            break
        out = res.model
        same = out is model
        if p.in_place and not same:
            fail("identity", "in-place pass returned a different model object")
        if not p.in_place and same:
            fail("identity", "functional pass returned its input object")
        after = ser(out)
        snap_a = snapshot(out, reg)
        rd = {"modified": bool(res.modified), "same": same, "ser_equal": (before == after) if before is not None and after is not None else None}
        if not same:
            # functional: the input must be left exactly as it was
            d_in = snap_diff(snap_b, snapshot(model, reg))
            if d_in and not p.changes_input:
                fail("identity", "functional pass changed its input", d_in)
        if not res.modified:
            if before is not None and after is not None and before != after:
                d = snap_diff(snap_b, snap_a) if same else snap_diff(snap_sb, snapshot(out, NameReg()))
                fail("flag", "modified=False but the serialized model changed", d)
            if before is not None and after is None:
                fail("flag", "modified=False but the model no longer serializes")
        if kind == "analysis" or (kind == "shape" and fault in ("infer_raises", "both_raise")) \
                or (kind == "shape" and before is None):
            d = snap_diff(snap_b, snap_a) if same else []
            if d:
                fail("readonly", "analysis/validation pass changed the model", d)
        dang_a = dangling_calls(out, local_b)
        if not dang_b and dang_a:
            fail("dangling-call", "a call to a model-local function no longer resolves after the pass", dang_a)
        imp_a = missing_imports(out)
        # compared per DOMAIN: inlining may move a call that already lacked its import into another graph-like
        dom_b = {x.split(": ", 1)[1] for x in imp_b}
        new_imp = sorted(x for x in imp_a - imp_b if x.split(": ", 1)[1] not in dom_b)
        if new_imp:
            fail("opset-import", "a domain that nodes of the graph still use lost its opset import", new_imp)
        inv_a = invariants(out)
        if inv_a - inv_b:
            fail("invariants", "link consistency broken by the pass", sorted(inv_a - inv_b))
        uns_a = unsorted_graphs(out)
        if not uns_b and uns_a:
            fail("sorted", "a topologically ordered graph is no longer ordered", sorted(uns_a))
        if unn_b == 0 and unnamed_used(out) > 0:
            fail("names", "a value needed for serialization lost its name")
        if before is not None and after is None:
            fail("names", "the model serialized before the pass and does not serialize after it")
        rd["diff"] = snap_diff(snap_b, snap_a) if same else None
        rounds.append(rd)
        model = out
        if first_false is not None and rd["ser_equal"] is False:
            fail("fixpoint", "the model changed in a round after the pass had reported no modification", rd["diff"])
        if not res.modified:
            if first_false is None:
                first_false = r
            elif r >= first_false + 1:
                break
        else:
            if first_false is not None:
                if not composite:
                    fail("fixpoint", "pass reported modified=True after a round that reported no modification")
                break
        r += 1
    if first_false is None and not any("raised" in x for x in rounds) and not composite:
        fail("fixpoint", f"no round with modified=False within size+2={bound} rounds")
    return {"rounds": rounds, "failures": failures, "size": size, "first_false": first_false,
            "lazy_calls": dict(built.lazy_calls)}


# --------------------------------------------------------------------------- generator of model specs

OPS1 = ["Relu", "Neg", "Identity", "Abs"]


def gen_graph(rng, depth: int, prefix: str, outer: list[str], rich: bool, opset: int = 20, top: bool = True,
              nouts: int = 1) -> dict:
    """A structured, mostly valid graph spec.  `outer`: handles visible from enclosing graphs."""
    g = {"name": prefix + "g", "inputs": [], "inits": [], "nodes": [], "outputs": []}
    if top:
        g["opsets"] = {"": opset}
        if rng.random() < 0.3:
            g["opsets"]["unused.domain"] = 1
        if rng.random() < 0.2:
            g["opsets"]["custom"] = 1
    nin = rng.randrange(1, 3) if top else rng.randrange(0, 2)
    avail = list(outer)
    for i in range(nin):
        h = f"{prefix}x{i}"
        g["inputs"].append(h)
        avail.append(h)
    ninit = rng.choice([0, 1, 2, 3, 4]) if rich else rng.choice([0, 1])
    kinds = ["small", "small", "big", "lazy", "biglazy", "bignoshape", "smallnoshape", "dup", "dup", "none"]
    for i in range(ninit):
        h = f"{prefix}w{i}"
        kind = rng.choice(kinds)
        g["inits"].append({"h": h, "kind": kind})
        if rng.random() < 0.2:
            g["inputs"].append(h)       # initializer that is also a graph input
        if rng.random() < 0.85:
            avail.append(h)
    if rng.random() < 0.25:
        g["doc"] = "graph doc"
    if rng.random() < 0.25:
        g["meta"] = {"gk": "gv"}
    nn = rng.randrange(1, 7 if rich else 4)
    produced = []
    for i in range(nn):
        name = f"{prefix}n{i}"
        o = f"{prefix}v{i}"
        c = rng.random()
        ns = {"name": name, "outs": [o], "ins": [], "op": "Relu"}
        if c < 0.30:
            ns["op"] = rng.choice(OPS1)
            ns["ins"] = [rng.choice(avail)]
        elif c < 0.50:
            ns["op"] = rng.choice(["Add", "Mul"])
            ns["ins"] = [rng.choice(avail), rng.choice(avail)]
        elif c < 0.58:
            ns["op"] = "Clip"
            ns["ins"] = [rng.choice(avail)] + rng.choice([[None, None], [None], [], [rng.choice(avail), None]])
        elif c < 0.66:
            ns["op"] = "Constant"
            ns["attrs"] = rng.choice([{"value": {"tensor": rng.choice([1, 2, 20]), "name": o}}, {"value_float": 1.5},
                                      {"value_ints": [1, 2, 3]}, {"value": {"tensor": 2, "name": o}}])
        elif c < 0.72:
            ns["op"] = "Dropout"
            ns["outs"] = [o, o + "m"]
            ns["ins"] = [rng.choice(avail)] + rng.choice([[], [None, None]])
        elif c < 0.77:
            ns["op"] = "Split"
            ns["outs"] = [o, o + "b"]
            ns["ins"] = [rng.choice(avail)]
            ns["attrs"] = {"num_outputs": 2}
        elif c < 0.82:
            ns["op"] = "CustomOp"
            ns["domain"] = "custom"
            ns["ins"] = [rng.choice(avail), None] if rng.random() < 0.5 else [rng.choice(avail)]
        elif c < 0.90 and depth > 0:
            ns["op"] = "If"
            if "cond" not in g["inputs"] and "cond" not in avail:
                if top:
                    g["inputs"].append("cond")
                    avail.append("cond")
            if "cond" in avail:
                ns["ins"] = ["cond"]
                nb = 2 if rng.random() < 0.3 else 1          # branches with two outputs (maybe the same value twice)
                if nb == 2:
                    ns["outs"] = [o, o + "b"]
                ns["attrs"] = {
                    "then_branch": {"graph": gen_graph(rng, depth - 1, prefix + f"t{i}", avail, rich, top=False, nouts=nb)},
                    "else_branch": {"graph": gen_graph(rng, depth - 1, prefix + f"e{i}", avail, rich, top=False, nouts=nb)}}
            else:
                ns["op"] = "Relu"
                ns["ins"] = [rng.choice(avail)]
        elif c < 0.95:
            ns["op"] = "F0"
            ns["domain"] = "fdom"
            ns["ins"] = [rng.choice(avail)]
            g.setdefault("_calls", True)
        else:
            ns["op"] = "Identity"
            ns["ins"] = [rng.choice(avail)]
        if rng.random() < 0.3:
            ns["doc"] = "doc of " + name
        if rng.random() < 0.25:
            ns["meta"] = {"k": "v" + str(i)}
        if rng.random() < 0.12:
            ns["typed"] = True
        elif rng.random() < 0.12:
            ns["typed"] = False
        if rng.random() < 0.1:
            ns["vmeta"] = {o: {"vm": "1"}}
        g["nodes"].append(ns)
        for oh in ns["outs"]:
            produced.append(oh)
        avail.append(o)
    # outputs
    nout = rng.randrange(1, 3)
    cands = produced[:] if produced else avail[:]
    for _ in range(nout):
        c = rng.random()
        if c < 0.8 or not g["inputs"]:
            g["outputs"].append(rng.choice(cands))
        elif c < 0.9:
            g["outputs"].append(rng.choice(g["inputs"]))     # input used directly as output
        else:
            g["outputs"].append(rng.choice(cands))
    if not top:
        g["outputs"] = g["outputs"][:1]
        if g["inits"] and rng.random() < 0.12:
            g["outputs"] = [rng.choice(g["inits"])["h"]]        # a subgraph returning its own initializer directly
        if nouts == 2:
            g["outputs"].append(g["outputs"][0] if rng.random() < 0.6 else rng.choice(cands))
    # disorder: swap two nodes in some graphs
    if len(g["nodes"]) >= 2 and rng.random() < 0.3:
        i, j = rng.sample(range(len(g["nodes"])), 2)
        g["nodes"][i], g["nodes"][j] = g["nodes"][j], g["nodes"][i]
    return g


def gen_spec(rng, rich: bool = True) -> dict:
    spec = {"graph": gen_graph(rng, rng.choice([0, 1, 1, 2]), "", [], rich), "functions": [], "names": {},
            "_chain": rng.random() < 0.7}
    uses_f = "fdom" in json.dumps(spec["graph"])
    if uses_f or rng.random() < 0.25:
        fg = gen_graph(rng, 0, "F", [], False, top=True)
        fg["inits"] = []
        fg["inputs"] = [h for h in fg["inputs"] if h.startswith("Fx")][:1] or ["Fx0"]
        # functions have no initializers: drop references to them
        txt = json.dumps(fg)
        for i in range(5):
            txt = txt.replace(f'"Fw{i}"', '"Fx0"').replace(f'"Fx{i + 1}"', '"Fx0"')
        fg = json.loads(txt)
        fg["outputs"] = fg["outputs"][:1]
        fg["opsets"] = {"": 20}
        for n in fg["nodes"]:
            if n["op"] == "F0":
                n["op"], n["domain"] = "Relu", ""
        spec["functions"].append({"domain": "fdom", "name": "F0", "graph": fg})
        spec["graph"]["opsets"]["fdom"] = 1
        if rng.random() < 0.3:
            g2 = {"name": "unusedfn", "inputs": ["Ux"], "inits": [], "outputs": ["Uy"], "opsets": {"": 20},
                  "nodes": [{"name": "un", "op": "Relu", "ins": ["Ux"], "outs": ["Uy"]}]}
            spec["functions"].append({"domain": "fdom", "name": "Unused", "graph": g2})
    if spec["functions"]:
        def fn(name, callee):
            x, t, y = name + "x", name + "t", name + "y"
            return {"domain": "fdom", "name": name, "graph": {
                "name": name + "g", "inputs": [x], "inits": [], "outputs": [y], "opsets": {"": 20, "fdom": 1},
                "nodes": [{"name": name + "c", "op": callee, "domain": "fdom", "ins": [x], "outs": [t]},
                          {"name": name + "n", "op": "Neg", "ins": [t], "outs": [y]}]}}
        r = rng.random()
        if r < 0.25:                       # an unused function that calls the used one
            spec["functions"].append(fn("Spare", "F0"))
        elif r < 0.4:                      # a chain of unused functions ending in the used one
            spec["functions"].append(fn("Spare2", "Spare"))
            spec["functions"].append(fn("Spare", "F0"))
        if rng.random() < 0.3:             # the used function calls a second one (used chain)
            leaf = {"domain": "fdom", "name": "F1", "graph": {"name": "F1g", "inputs": ["Lx"], "inits": [], "outputs": ["Ly"],
                                                              "opsets": {"": 20}, "nodes": [{"name": "Ln", "op": "Relu", "ins": ["Lx"], "outs": ["Ly"]}]}}
            f0 = spec["functions"][0]["graph"]
            if f0["nodes"]:
                f0["nodes"].append({"name": "Fcall", "op": "F1", "domain": "fdom", "ins": [f0["outputs"][0]], "outs": ["Fcy"]})
                f0["outputs"] = ["Fcy"]
                f0["opsets"]["fdom"] = 1
                spec["functions"].append(leaf)
    if '"custom"' in json.dumps(spec) and rng.random() < 0.9:
        spec["graph"]["opsets"]["custom"] = 1
    # name perturbations: duplicates and unnamed values
    if rng.random() < 0.2:
        hs = [n["outs"][0] for n in spec["graph"]["nodes"]]
        if len(hs) >= 2:
            a, b = rng.sample(hs, 2)
            spec["names"][a] = b
    if rng.random() < 0.15:
        for n in spec["graph"]["nodes"]:
            if rng.random() < 0.3:
                n["name"] = rng.choice([None, "", "n"])
    if rng.random() < 0.1:
        gi = spec["graph"]["inputs"]
        if gi and spec["graph"]["outputs"]:
            spec["graph"]["outputs"].append(spec["graph"]["outputs"][0])   # the same value twice as output
    return spec


def shrink_spec(spec: dict, fails) -> dict:
    """Greedy structural shrinking: drop nodes / initializers / functions / decorations while `fails` holds."""
    cur = copy.deepcopy(spec)

    def graphs(s):
        out = [s["graph"]] + [f["graph"] for f in s.get("functions", [])]
        i = 0
        while i < len(out):
            for n in out[i].get("nodes", []):
                for a in n.get("attrs", {}).values():
                    if isinstance(a, dict) and "graph" in a:
                        out.append(a["graph"])
            i += 1
        return out

    def attempt(mut) -> bool:
        nonlocal cur
        c2 = copy.deepcopy(cur)
        try:
            if mut(c2) is False:
                return False
            build(c2)
            ok = fails(c2)
        except Exception:  # noqa: BLE001
            return False
        if ok:
            cur = c2
            return True
        return False

    changed, guard = True, 0
    while changed and guard < 200:
        changed = False
        guard += 1
        ngraphs = len(graphs(cur))
        for gi in range(ngraphs):
            g = graphs(cur)[gi] if gi < len(graphs(cur)) else None
            if g is None:
                break
            for ni in range(len(g.get("nodes", [])) - 1, -1, -1):
                def drop_node(s, gi=gi, ni=ni):
                    gg = graphs(s)[gi]
                    node = gg["nodes"][ni]
                    dead = set(h for h in node["outs"] if h)
                    del gg["nodes"][ni]
                    txt = json.dumps(s)
                    for h in dead:
                        if f'"{h}"' in txt:
                            return False
                if attempt(drop_node):
                    changed = True
            for ii in range(len(g.get("inits", [])) - 1, -1, -1):
                def drop_init(s, gi=gi, ii=ii):
                    gg = graphs(s)[gi]
                    h = gg["inits"][ii]["h"]
                    del gg["inits"][ii]
                    gg["inputs"] = [x for x in gg["inputs"] if x != h]
                    if f'"{h}"' in json.dumps(s):
                        return False
                if attempt(drop_init):
                    changed = True
            for key in ("doc", "meta"):
                if key in g:
                    def drop_key(s, gi=gi, key=key):
                        graphs(s)[gi].pop(key, None)
                    if attempt(drop_key):
                        changed = True
            for ni in range(len(g.get("nodes", []))):
                for key in ("doc", "meta", "vmeta", "typed"):
                    if ni < len(graphs(cur)[gi]["nodes"]) and key in graphs(cur)[gi]["nodes"][ni]:
                        def drop_nkey(s, gi=gi, ni=ni, key=key):
                            graphs(s)[gi]["nodes"][ni].pop(key, None)
                        if attempt(drop_nkey):
                            changed = True
            if len(g.get("outputs", [])) > 1:
                def drop_out(s, gi=gi):
                    graphs(s)[gi]["outputs"].pop()
                if attempt(drop_out):
                    changed = True
        for fi in range(len(cur.get("functions", [])) - 1, -1, -1):
            def drop_fn(s, fi=fi):
                f = s["functions"][fi]
                del s["functions"][fi]
                if f'"{f["name"]}"' in json.dumps(s["graph"]):
                    return False
            if attempt(drop_fn):
                changed = True
        if cur.get("names"):
            def drop_names(s):
                s["names"] = {}
            if attempt(drop_names):
                changed = True
        for k in list(cur["graph"].get("opsets", {})):
            if k != "":
                def drop_opset(s, k=k):
                    s["graph"]["opsets"].pop(k)
                if attempt(drop_opset):
                    changed = True
    return cur

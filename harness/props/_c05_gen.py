"""C05 helper: JSON model specs -> onnx ModelProto, the structured generator, execution oracle.

A *spec* is a JSON-serialisable mirror of an ONNX model (so corpus entries and replays are self-contained):
  {"opset": 18, "inputs": [[name, kind]], "inits": [[name, kind, data, also_input]], "nodes": [node],
   "outputs": [[name, kind]], "functions": [fn]}
  node = {"op": str, "dom": str, "ins": [name | ""], "outs": [name | ""], "attrs": {name: [tag, value]}}
  attr tags: f i s fs is ss t(ensor: [kind, data]) g(raph spec: {"inputs","inits","nodes","outputs"}) ref([attr_type, name])
  fn = {"name", "dom", "ins", "outs", "attrs": [names without default], "defaults": {name: [tag, value]}, "nodes", "opsets"}
kinds: F2 float32[2], F22 float32[2,2], B bool[], I int64[], I2 int64[2], S2 string[2], S string[]
"""

from __future__ import annotations

import copy

import numpy as np
import onnx
from onnx import TensorProto as TP
from onnx import helper as h

KINDS = {"F2": (TP.FLOAT, [2]), "F22": (TP.FLOAT, [2, 2]), "B": (TP.BOOL, []), "I": (TP.INT64, []), "I2": (TP.INT64, [2]),
         "S2": (TP.STRING, [2]), "S": (TP.STRING, []), "F20": (TP.FLOAT, [20]), "F1": (TP.FLOAT, [1]), "I1": (TP.INT64, [1]),
         "J2": (TP.INT32, [2]), "F21": (TP.FLOAT, [2, 1]), "F222": (TP.FLOAT, [2, 2, 2])}


def _tensor(name, kind, data):
    dt, shape = KINDS[kind]
    if dt == TP.STRING:
        # built by hand: helper.make_tensor goes through numpy and strips trailing NUL bytes
        t = onnx.TensorProto(name=name, data_type=TP.STRING, dims=shape)
        t.string_data.extend([bytes(x) for x in data])
        return t
    elif dt == TP.BOOL:
        vals = [bool(x) for x in data]
    else:
        vals = list(data)
    return h.make_tensor(name, dt, shape, vals)


def _attr(name, tv):
    tag, v = tv
    if tag == "f":
        return h.make_attribute(name, float(v))
    if tag == "i":
        return h.make_attribute(name, int(v))
    if tag == "s":
        return h.make_attribute(name, bytes(v) if not isinstance(v, str) else v.encode("utf-8"))
    if tag == "fs":
        a = onnx.AttributeProto(name=name, type=onnx.AttributeProto.FLOATS)
        a.floats.extend([float(x) for x in v])
        return a
    if tag == "is":
        a = onnx.AttributeProto(name=name, type=onnx.AttributeProto.INTS)
        a.ints.extend([int(x) for x in v])
        return a
    if tag == "ss":
        a = onnx.AttributeProto(name=name, type=onnx.AttributeProto.STRINGS)
        a.strings.extend([bytes(x) if not isinstance(x, str) else x.encode("utf-8") for x in v])
        return a
    if tag == "t":
        return h.make_attribute(name, _tensor(name + "_t", v[0], v[1]))
    if tag == "g":
        return h.make_attribute(name, _graph(v, v.get("name", name)))
    if tag == "ref":
        a = onnx.AttributeProto(name=name, type=v[0], ref_attr_name=v[1])
        return a
    raise ValueError(tag)


def _node(n):
    nd = h.make_node(n["op"], list(n["ins"]), list(n["outs"]), domain=n.get("dom", ""), name=n.get("name", ""))
    if n.get("overload"):
        nd.overload = n["overload"]          # IR >= 10: call of one overload of a function
    for k in n.get("attrs", {}):
        nd.attribute.append(_attr(k, n["attrs"][k]))
    return nd


def _vi(name, kind):
    dt, shape = KINDS[kind]
    return h.make_tensor_value_info(name, dt, shape)


def _graph(g, name):
    inits = [_tensor(i[0], i[1], i[2]) for i in g.get("inits", [])]
    ins = [_vi(n, k) for n, k in g.get("inputs", [])]
    outs = [_vi(n, k) for n, k in g["outputs"]]
    return h.make_graph([_node(n) for n in g["nodes"]], name, ins, outs, initializer=inits)


def build(spec) -> onnx.ModelProto:
    g = _graph(spec, "main")
    fns = []
    doms = {""}
    if spec.get("functions"):
        doms.add("local")
    for f in spec.get("functions", []):
        aps = []
        for k, tv in f.get("defaults", {}).items():
            aps.append(_attr(k, tv))
        fp = h.make_function(f["dom"], f["name"], list(f["ins"]), list(f["outs"]), [_node(n) for n in f["nodes"]],
                             [h.make_opsetid(d, v) for d, v in f.get("opsets", [["", spec.get("opset", 18)], ["local", 1]])],
                             attributes=list(f.get("attrs", [])), attribute_protos=aps)
        if f.get("overload"):
            fp.overload = f["overload"]
        fns.append(fp)
        doms.add(f["dom"])

    def walk(nodes):
        for n in nodes:
            doms.add(n.get("dom", ""))
            for tv in n.get("attrs", {}).values():
                if tv[0] == "g":
                    walk(tv[1]["nodes"])
    walk(spec["nodes"])
    if not spec.get("function_domains_not_imported"):
        for f in spec.get("functions", []):
            walk(f["nodes"])
    # (spec["function_domains_not_imported"]: operator domains used only inside function bodies are imported by those
    #  functions only — f["opsets"] — not by the model)
    ver = dict(spec.get("domain_versions", {}))
    ops = [h.make_opsetid("", spec.get("opset", 18))] + [h.make_opsetid(d, ver.get(d, 1)) for d in sorted(doms) if d != ""]
    ops += [h.make_opsetid(d, v) for d, v in spec.get("extra_opsets", []) if d not in doms]      # imports nothing uses
    return h.make_model(g, opset_imports=ops, functions=fns, ir_version=spec.get("ir_version", 9))


# --------------------------------------------------------------------------- generator

F_UN = ["Neg", "Abs", "Relu", "Tanh", "Floor", "Identity", "Sigmoid", "Ceil"]
F_BIN = ["Add", "Sub", "Mul", "Max", "Min", "Div"]


class Gen:
    """Structured generator of (mostly checker-valid, executable) model specs."""

    def __init__(self, rng, structural_only=False):
        self.rng = rng
        self.n = 0
        self.structural_only = structural_only
        self.functions = []

    def fresh(self, p="v"):
        self.n += 1
        return f"{p}{self.n}"

    # ---- attribute helpers
    def fattr(self):
        return ["f", self.rng.choice([0.0, -0.0, 0.5, 1.0, 2.0, 0.1, float(np.float32(0.3))])]

    def const_node(self, kind, out):
        r = self.rng
        if kind == "F2":
            form = r.choice(["value", "value", "value_floats"])
            if form == "value":
                return {"op": "Constant", "ins": [], "outs": [out],
                        "attrs": {"value": ["t", ["F2", [r.choice([0.0, -0.0, 1.0, 2.0, 0.5]), r.choice([1.0, 3.0, -1.0])]]]}}
            return {"op": "Constant", "ins": [], "outs": [out], "attrs": {"value_floats": ["fs", [r.choice([0.0, -0.0, 1.0]), r.choice([2.0, 1.0])]]}}
        if kind == "F1":
            return {"op": "Constant", "ins": [], "outs": [out], "attrs": {"value_floats": ["fs", [r.choice([0.0, -0.0, 1.0, 4.0])]]}}
        if kind == "F":
            return {"op": "Constant", "ins": [], "outs": [out], "attrs": {"value_float": self.fattr()}}
        if kind == "I":
            return {"op": "Constant", "ins": [], "outs": [out], "attrs": {"value_int": ["i", r.choice([0, 1, 2, 3])]}}
        if kind == "I2":
            return {"op": "Constant", "ins": [], "outs": [out], "attrs": {"value_ints": ["is", [r.choice([0, 1]), r.choice([1, 2])]]}}
        if kind == "S":
            return {"op": "Constant", "ins": [], "outs": [out], "attrs": {"value_string": ["s", list(r.choice([b"a", b"bb", b"a\x00", b"\xc3\xa9"]))]}}
        if kind == "S2":
            form = r.choice(["value", "value_strings"])
            strs = r.choice([[b"a", b"bb"], [b"a\x00", b"bb"], [b"x", b"y"], [b"bb", b"a"]])
            if form == "value":
                return {"op": "Constant", "ins": [], "outs": [out], "attrs": {"value": ["t", ["S2", [list(s) for s in strs]]]}}
            return {"op": "Constant", "ins": [], "outs": [out], "attrs": {"value_strings": ["ss", [list(s) for s in strs]]}}
        if kind == "F20":
            return {"op": "Constant", "ins": [], "outs": [out], "attrs": {"value": ["t", ["F20", [float(r.choice([1, 2])) for _ in range(20)]]]}}
        if kind == "B":
            return {"op": "Constant", "ins": [], "outs": [out], "attrs": {"value": ["t", ["B", [r.choice([0, 1])]]]}}
        raise ValueError(kind)

    def pick(self, pool, kind):
        c = [n for n, k in pool if k == kind]
        return self.rng.choice(c) if c else None

    def gen_nodes(self, pool, n_nodes, depth, in_function=None, local_names=None):
        """Append random nodes; `pool` = visible (name, kind) values incl. outer scopes. Returns nodes; extends pool."""
        r = self.rng
        nodes = []
        local = [] if local_names is None else local_names
        for _ in range(n_nodes):
            c = r.random()
            x = self.pick(pool, "F2")
            if x is None or c < 0.12:
                kind = r.choice(["F2", "F2", "F2", "S2", "I", "F1", "S", "I2", "F20"]) if x is not None else "F2"
                o = self.fresh()
                nodes.append(self.const_node(kind, o))
                pool.append((o, kind)); local.append((o, kind))
                continue
            if nodes and c < 0.24:
                # duplicate (or near-duplicate) of an earlier node of this scope: CSE candidates
                multi = [n for n in nodes if n["op"] in ("Dropout", "MaxPool", "Unique", "Split", "TopK")]
                src = copy.deepcopy(r.choice(multi) if multi and r.random() < 0.5 else r.choice(nodes))
                if any(tv[0] == "g" for tv in src.get("attrs", {}).values()) and r.random() < 0.7:
                    continue
                outs = []
                for o in src["outs"]:
                    if o == "":
                        outs.append("")
                        continue
                    k = next(kk for nn, kk in pool if nn == o)
                    no = self.fresh()
                    outs.append(no)
                    pool.append((no, k)); local.append((no, k))
                # same operator / inputs / attributes but another NUMBER of outputs (optional outputs)
                extra = {"Dropout": "B2", "MaxPool": "I112", "Unique": "ID"}.get(src["op"])
                if extra and r.random() < 0.6:
                    if len(outs) > 1 and r.random() < 0.5:
                        outs = outs[:-1]
                    elif len(outs) < (4 if src["op"] == "Unique" else 2):
                        no = self.fresh()
                        outs.append(no)
                        pool.append((no, extra)); local.append((no, extra))
                src["outs"] = outs
                if r.random() < 0.25 and src.get("attrs"):
                    k = r.choice(sorted(src["attrs"]))
                    tv = src["attrs"][k]
                    if tv[0] == "f":
                        src["attrs"][k] = ["f", r.choice([tv[1], -tv[1], tv[1] + 1.0])]
                    elif tv[0] == "i" and src["op"] not in ("Split", "Cast", "Concat"):
                        src["attrs"][k] = ["i", r.choice([tv[1], -1, 0])] if src["op"] in ("Softmax",) else tv
                nodes.append(src)
                continue
            o = self.fresh()
            j2, f21 = self.pick(pool, "J2"), self.pick(pool, "F21")
            if j2 is not None and r.random() < 0.3:
                nodes.append({"op": "Cast", "ins": [j2], "outs": [o], "attrs": {"to": ["i", 1]}})
                pool.append((o, "F2")); local.append((o, "F2"))
            elif f21 is not None and r.random() < 0.3:
                nodes.append({"op": "Mul", "ins": [x, f21], "outs": [o], "attrs": {}})
                pool.append((o, "F22")); local.append((o, "F22"))
            elif c < 0.40:
                nodes.append({"op": r.choice(F_UN), "ins": [x], "outs": [o], "attrs": {}})
                pool.append((o, "F2")); local.append((o, "F2"))
            elif c < 0.56:
                y = self.pick(pool, "F2")
                nodes.append({"op": r.choice(F_BIN), "ins": [x, y], "outs": [o], "attrs": {}})
                pool.append((o, "F2")); local.append((o, "F2"))
            elif c < 0.64:
                op = r.choice(["LeakyRelu", "Elu", "ThresholdedRelu", "Celu", "Softmax", "HardSigmoid", "Selu"])
                attrs = {}
                if op == "Softmax":
                    if r.random() < 0.7:
                        attrs["axis"] = ["i", r.choice([0, -1])]
                elif op == "HardSigmoid":
                    if r.random() < 0.7:
                        attrs["alpha"] = self.fattr()
                    if r.random() < 0.5:
                        attrs["beta"] = self.fattr()
                elif op == "Selu":
                    if r.random() < 0.5:
                        attrs["gamma"] = self.fattr()
                elif r.random() < 0.8:
                    attrs["alpha"] = self.fattr()
                    if op == "Celu" and attrs["alpha"][1] == 0.0:
                        attrs["alpha"] = ["f", 1.0]
                if in_function is not None and in_function.get("params") and r.random() < 0.5:
                    # attribute parameter through a Constant (the reference evaluator cannot link attributes of unary ops)
                    pc = self.fresh()
                    nodes.append({"op": "Constant", "ins": [], "outs": [pc], "attrs": {"value_float": ["ref", [1, r.choice(in_function["params"])]]}})
                    nodes.append({"op": "Mul", "ins": [x, pc], "outs": [o], "attrs": {}})
                    pool.append((pc, "F")); local.append((pc, "F"))
                else:
                    nodes.append({"op": op, "ins": [x], "outs": [o], "attrs": attrs})
                pool.append((o, "F2")); local.append((o, "F2"))
            elif c < 0.68:
                # optional inputs: Clip(x, min?, max?) with "" and trailing ""
                mn = self.pick(pool, "F") if r.random() < 0.5 else None
                ins = [x, "", ""]
                pre = []
                for j in (1, 2):
                    if r.random() < 0.5:
                        cn = self.fresh()
                        pre.append({"op": "Constant", "ins": [], "outs": [cn], "attrs": {"value": ["t", ["F", [r.choice([-1.0, 0.0, 1.0, 5.0])]]]}})
                        pool.append((cn, "F")); local.append((cn, "F"))
                        ins[j] = cn
                if r.random() < 0.5:
                    while ins and ins[-1] == "":
                        ins.pop()
                nodes.extend(pre)
                nodes.append({"op": "Clip", "ins": ins, "outs": [o], "attrs": {}})
                pool.append((o, "F2")); local.append((o, "F2"))
                bound = [i for i in ins[1:] if i]
                if len(bound) == 1 and r.random() < 0.6:
                    # sibling sharing the same values with the bound in the OTHER optional slot: Clip(x, b) vs Clip(x, "", b)
                    o2 = self.fresh()
                    sib = [x, "", bound[0]] if (len(ins) > 1 and ins[1] == bound[0]) else [x, bound[0]]
                    nodes.append({"op": "Clip", "ins": sib, "outs": [o2], "attrs": {}})
                    pool.append((o2, "F2")); local.append((o2, "F2"))
            elif c < 0.80:
                # multi-output / optional outputs
                op = r.choice(["Split", "Dropout", "TopK", "Unique", "BatchNormalization", "MaxPool"])
                if op == "Split":
                    o2 = self.fresh()
                    nodes.append({"op": "Split", "ins": [x], "outs": [o, o2], "attrs": {"num_outputs": ["i", 2]}})
                    pool += [(o, "F1"), (o2, "F1")]; local += [(o, "F1"), (o2, "F1")]
                elif op == "Dropout":
                    outs = [o] + ([self.fresh()] if r.random() < 0.6 else [])
                    nodes.append({"op": "Dropout", "ins": [x], "outs": outs, "attrs": {}})
                    pool.append((o, "F2")); local.append((o, "F2"))
                    if len(outs) > 1:
                        pool.append((outs[1], "B2")); local.append((outs[1], "B2"))
                elif op == "TopK":
                    kn, o2 = self.fresh(), self.fresh()
                    nodes.append({"op": "Constant", "ins": [], "outs": [kn], "attrs": {"value": ["t", ["I1", [1]]]}})
                    nodes.append({"op": "TopK", "ins": [x, kn], "outs": [o, o2], "attrs": {}})
                    pool += [(kn, "I1"), (o, "F1"), (o2, "I1")]; local += [(kn, "I1"), (o, "F1"), (o2, "I1")]
                elif op == "Unique":
                    nout = r.choice([1, 2, 3, 4])
                    outs = [o] + [self.fresh() for _ in range(nout - 1)]
                    if nout == 4 and r.random() < 0.3:
                        outs[2] = ""
                    nodes.append({"op": "Unique", "ins": [x], "outs": outs, "attrs": {}})
                    pool.append((o, "FD")); local.append((o, "FD"))
                    for q in outs[1:]:
                        if q:
                            pool.append((q, "ID")); local.append((q, "ID"))
                elif op == "BatchNormalization":
                    x22 = self.fresh()
                    nodes.append({"op": "Unsqueeze", "ins": [x, self._axes(nodes, pool, local)], "outs": [x22], "attrs": {}})
                    s, b, mu, var = (self.pick(pool, "F2") for _ in range(4))
                    vp = self.fresh()
                    nodes.append({"op": "Abs", "ins": [var], "outs": [vp], "attrs": {}})
                    tm = r.random() < 0.5
                    outs = [o] + ([self.fresh(), self.fresh()] if tm else [])
                    nodes.append({"op": "BatchNormalization", "ins": [x22, s, b, mu, vp], "outs": outs,
                                  "attrs": ({"training_mode": ["i", 1]} if tm else {})})
                    pool += [(x22, "F12"), (vp, "F2"), (o, "F12")]; local += [(x22, "F12"), (vp, "F2"), (o, "F12")]
                    for q in outs[1:]:
                        pool.append((q, "F2")); local.append((q, "F2"))
                else:
                    x3 = self.fresh()
                    nodes.append({"op": "Reshape", "ins": [x, self._shape(nodes, pool, local, [1, 1, 2])], "outs": [x3], "attrs": {}})
                    outs = [o] + ([self.fresh()] if r.random() < 0.6 else [])
                    nodes.append({"op": "MaxPool", "ins": [x3], "outs": outs, "attrs": {"kernel_shape": ["is", [1]]}})
                    pool += [(x3, "F112"), (o, "F112")]; local += [(x3, "F112"), (o, "F112")]
                    if len(outs) > 1:
                        pool.append((outs[1], "I112")); local.append((outs[1], "I112"))
                last = nodes[-1]
                if last["op"] in ("Dropout", "MaxPool", "Unique") and r.random() < 0.45:
                    # sibling: same operator, inputs, attributes — another number of (optional) outputs
                    sib = copy.deepcopy(last)
                    extra = {"Dropout": "B2", "MaxPool": "I112", "Unique": "ID"}[last["op"]]
                    k0 = next(kk for nn, kk in pool if nn == last["outs"][0])
                    n_new = 1 if len(last["outs"]) > 1 else 2
                    sib["outs"] = [self.fresh() for _ in range(n_new)]
                    pool.append((sib["outs"][0], k0)); local.append((sib["outs"][0], k0))
                    for q in sib["outs"][1:]:
                        pool.append((q, extra)); local.append((q, extra))
                    nodes.append(sib)
            elif c < 0.86 and depth > 0:
                self.ensure_b(nodes, pool, local)
                nodes.append(self.gen_if(pool, depth, o, in_function))
                pool.append((o, "F2")); local.append((o, "F2"))
            elif c < 0.895 and depth > 0:
                nodes.extend(self.gen_loop(pool, depth, o, local, in_function))
                pool.append((o, "F2")); local.append((o, "F2"))
            elif c < 0.965 and self.functions:
                f = r.choice(self.functions)
                ins = [self.pick(pool, "F2") for _ in f["ins"]]
                if f.get("optional_last"):
                    lo = self.pick(pool, "F")
                    if lo is None or r.random() < 0.5:
                        ins = ins[:-1] if r.random() < 0.5 else ins[:-1] + [""]
                    else:
                        ins[-1] = lo
                outs = [o] + [self.fresh() for _ in f["outs"][1:]]
                attrs = {}
                for p in f["attrs"] + sorted(f["defaults"]):
                    if p in f["attrs"] or r.random() < 0.5:
                        if in_function is not None and in_function.get("params") and r.random() < 0.4:
                            attrs[p] = ["ref", [1, r.choice(in_function["params"])]]
                        else:
                            attrs[p] = self.fattr()
                            if p in f["defaults"] and attrs[p][1] == f["defaults"][p][1]:
                                attrs[p] = ["f", float(attrs[p][1]) + 0.25]
                nodes.append({"op": f["name"], "dom": f["dom"], "ins": ins, "outs": outs, "attrs": attrs})
                for q in outs:
                    pool.append((q, "F2")); local.append((q, "F2"))
            elif c < 0.98:
                op = r.choice(["RandomUniformLike", "RandomNormalLike"])
                nodes.append({"op": op, "ins": [x], "outs": [o], "attrs": {"seed": ["f", float(r.choice([1, 2]))]}})
                pool.append((o, "F2")); local.append((o, "F2"))
            else:
                op = r.choice(["Sum", "Concat"])
                y = self.pick(pool, "F2")
                if op == "Sum":
                    nodes.append({"op": "Sum", "ins": [x, y, x], "outs": [o], "attrs": {}})
                    pool.append((o, "F2")); local.append((o, "F2"))
                else:
                    nodes.append({"op": "Concat", "ins": [x, y], "outs": [o], "attrs": {"axis": ["i", 0]}})
                    pool.append((o, "F4")); local.append((o, "F4"))
        return nodes

    def ensure_b(self, nodes, pool, local):
        if self.pick(pool, "B") is None:
            b = self.fresh()
            nodes.append(self.const_node("B", b))
            pool.append((b, "B")); local.append((b, "B"))

    def _axes(self, nodes, pool, local):
        a = self.fresh()
        nodes.append({"op": "Constant", "ins": [], "outs": [a], "attrs": {"value": ["t", ["I1", [0]]]}})
        pool.append((a, "I1")); local.append((a, "I1"))
        return a

    def _shape(self, nodes, pool, local, shp):
        a = self.fresh()
        nodes.append({"op": "Constant", "ins": [], "outs": [a], "attrs": {"value_ints": ["is", shp]}})
        pool.append((a, "I3")); local.append((a, "I3"))
        return a

    def gen_branch(self, pool, depth, in_function, nm):
        r = self.rng
        inner = list(pool)
        local = []
        inits = []
        if r.random() < 0.4:
            for _ in range(r.choice([1, 2])):
                # subgraph initializers, possibly duplicates / shadowing an outer name is avoided (fresh names)
                w = self.fresh("sw")
                inits.append([w, "F2", r.choice([[1.0, 2.0], [1.0, 2.0], [3.0, 4.0]]), False])
                inner.append((w, "F2")); local.append((w, "F2"))
        nodes = self.gen_nodes(inner, r.choice([0, 1, 2, 3]), depth - 1, in_function, local)
        # the branch output: a local F2 value; if there is none (or by choice), an Identity of a captured value
        cands = [n for n, k in local if k == "F2" and not any(n == i[0] for i in inits)]
        if cands and r.random() < 0.75:
            out = r.choice(cands)
        else:
            out = self.fresh()
            nodes.append({"op": "Identity", "ins": [self.pick(inner, "F2")], "outs": [out], "attrs": {}})
        return {"name": nm, "inputs": [], "inits": inits, "nodes": nodes, "outputs": [[out, "F2"]]}

    def gen_if(self, pool, depth, o, in_function):
        cond = self.pick(pool, "B")
        return {"op": "If", "ins": [cond], "outs": [o],
                "attrs": {"then_branch": ["g", self.gen_branch(pool, depth, in_function, self.fresh("then"))],
                          "else_branch": ["g", self.gen_branch(pool, depth, in_function, self.fresh("else"))]}}

    def gen_loop(self, pool, depth, o, local, in_function):
        r = self.rng
        pre = []
        m = self.fresh()
        pre.append({"op": "Constant", "ins": [], "outs": [m], "attrs": {"value": ["t", ["I", [r.choice([0, 1, 2])]]]}})
        pool.append((m, "I")); local.append((m, "I"))
        it, cin, carried = self.fresh("it"), self.fresh("cin"), self.fresh("car")
        inner = list(pool) + [(carried, "F2")]
        blocal = []
        nodes = self.gen_nodes(inner, r.choice([1, 2, 3]), depth - 1, in_function, blocal)
        cands = [n for n, k in blocal if k == "F2"]
        cout = self.fresh("cout")
        nodes.append({"op": "Identity", "ins": [cin], "outs": [cout], "attrs": {}})
        if cands:
            nxt = r.choice(cands)
        else:
            nxt = self.fresh()
            nodes.append({"op": "Identity", "ins": [carried], "outs": [nxt], "attrs": {}})
        body = {"name": self.fresh("body"), "inputs": [[it, "I"], [cin, "B"], [carried, "F2"]], "inits": [], "nodes": nodes,
                "outputs": [[cout, "B"], [nxt, "F2"]]}
        cond = self.pick(pool, "B")
        pre.append({"op": "Loop", "ins": [m, cond if (cond and r.random() < 0.6) else "", self.pick(pool, "F2")], "outs": [o], "attrs": {"body": ["g", body]}})
        return pre

    def gen_function(self, idx):
        r = self.rng
        nin = r.choice([1, 2, 2])
        ins = [f"fa{idx}_{i}" for i in range(nin)]
        params = []
        defaults = {}
        if r.random() < 0.7:
            params = [f"alpha{idx}"]
            if r.random() < 0.5:
                defaults[params[0]] = self.fattr()
        info = {"params": params}
        pool = [(i, "F2") for i in ins]
        local = []
        if r.random() < 0.5:
            cb = self.fresh()
            pre = [{"op": "Constant", "ins": [], "outs": [cb], "attrs": {"value": ["t", ["B", [r.choice([0, 1])]]]}}]
            pool.append((cb, "B"))
        else:
            pre = []
        pnode = None
        if params and r.random() < 0.8:
            # the attribute parameter is really used: LeakyRelu(alpha=@param) feeds the first output
            pnode = self.fresh()
            pc = self.fresh()
            pre.append({"op": "Constant", "ins": [], "outs": [pc], "attrs": {"value_float": ["ref", [1, params[0]]]}})
            pre.append({"op": "Mul", "ins": [ins[0], pc], "outs": [pnode], "attrs": {}})
            pool.append((pnode, "F2"))
        nodes = pre + self.gen_nodes(pool, r.choice([1, 2, 3, 4]), 1, info, local)
        cands = [n for n, k in local if k == "F2"]
        if pnode is not None:
            fo = self.fresh()
            nodes.append({"op": "Add", "ins": [pnode, r.choice(cands) if cands else ins[-1]], "outs": [fo], "attrs": {}})
            cands = [fo]
        outs = []
        nout = r.choice([1, 1, 2])
        for j in range(nout):
            c = r.random()
            if cands and c < 0.8:
                outs.append(r.choice(cands))
            elif c < 0.9 and not self.structural_only_off():
                outs.append(r.choice(ins))          # output is one of the inputs (pass-through)
            else:
                o = self.fresh()
                nodes.append({"op": "Identity", "ins": [r.choice(ins)], "outs": [o], "attrs": {}})
                outs.append(o)
                cands.append(o)
        if len(set(outs)) != len(outs):
            outs = list(dict.fromkeys(outs))
        optional_last = False
        if r.random() < 0.3:
            # an OPTIONAL last input (only used as the `min` of a Clip): call sites may omit it ("" or shorter input list)
            optional_last = True
            opt = f"fa{idx}_opt"
            src = outs[0] if outs[0] not in ins else ins[0]
            co = self.fresh()
            nodes.append({"op": "Clip", "ins": [src, opt], "outs": [co], "attrs": {}})
            ins = ins + [opt]
            outs = [co] + outs[1:] if outs[0] not in ins else outs + [co]
        f = {"name": f"Fn{idx}", "dom": "local", "ins": ins, "outs": outs, "attrs": [p for p in params if p not in defaults],
             "defaults": defaults, "nodes": nodes, "optional_last": optional_last}
        return f

    def structural_only_off(self):
        return False

    def gen_model(self):
        r = self.rng
        self.functions = []
        for i in range(r.choice([0, 0, 1, 2, 3])):
            self.functions.append(self.gen_function(i))
        nin = r.choice([1, 2, 3])
        inputs = [[f"x{i}", "F2"] for i in range(nin)]
        if r.random() < 0.7:
            inputs.append(["c0", "B"])
        pool = [(n, k) for n, k in inputs]
        inits = []
        for i in range(r.choice([0, 1, 2, 3, 4])):
            kind = r.choice(["F2", "F2", "F2", "S2", "F20", "B", "J2", "F21"])
            if kind == "F2":
                data = r.choice([[1.0, 2.0], [1.0, 2.0], [0.0, 1.0], [-0.0, 1.0], [3.0, -4.0]])
            elif kind == "J2":
                data = [1065353216, 1073741824]        # the bytes of float32 [1.0, 2.0]
            elif kind == "F21":
                data = [1.0, 2.0]                       # same dtype and bytes as F2 [1.0, 2.0], other shape
            elif kind == "S2":
                data = [list(s) for s in r.choice([[b"a", b"bb"], [b"a\x00", b"bb"], [b"a", b"bb"]])]
            elif kind == "F20":
                data = [float(r.choice([1, 2]))] * 20
            else:
                data = [r.choice([0, 1])]
            also_input = r.random() < 0.15 and kind == "F2"
            name = f"w{i}"
            inits.append([name, kind, data, also_input])
            if also_input:
                inputs.append([name, kind])
            pool.append((name, kind))
            if kind == "F2" and data == [1.0, 2.0] and r.random() < 0.5:
                # twins with the same bytes but another dtype / shape: must NOT be deduplicated
                tk = r.choice(["J2", "F21"])
                inits.append([name + "t", tk, [1065353216, 1073741824] if tk == "J2" else [1.0, 2.0], False])
                pool.append((name + "t", tk))
        local = []
        nodes = self.gen_nodes(pool, r.choice([2, 4, 6, 9, 12]), 2, None, local)
        # outputs: produced values (executable kinds only), sometimes an input / initializer / duplicate
        ok_kinds = ("F2", "F1", "S2", "S", "I", "I2", "F12", "F4", "FD", "ID", "I1", "F112", "B2", "F20", "I112", "J2", "F21", "F22")
        cands = [(n, k) for n, k in local if k in ok_kinds]
        outs = []
        for _ in range(r.choice([1, 2, 3])):
            c = r.random()
            if cands and c < 0.8:
                outs.append(r.choice(cands))
            elif c < 0.9:
                outs.append(r.choice([(n, k) for n, k in inputs if k == "F2"]))
            elif inits:
                w = r.choice(inits)
                outs.append((w[0], w[1]))
        if not outs:
            o = self.fresh()
            nodes.append({"op": "Identity", "ins": [inputs[0][0]], "outs": [o], "attrs": {}})
            outs.append((o, "F2"))
        if r.random() < 0.1:
            outs.append(outs[0])
        spec = {"opset": 18, "inputs": inputs, "inits": inits, "nodes": nodes, "outputs": [[n, k] for n, k in outs],
                "functions": self.functions}
        if r.random() < 0.4:
            spec = generated_looking_names(spec, r)
        # opset imports nothing uses (model level / function level): RemoveUnusedOpsets has something to prune
        if r.random() < 0.35:
            spec["extra_opsets"] = r.choice([[["com.unused", 2]], [["com.unused", 2], ["ai.onnx.ml", 3]], [["ai.onnx.ml", 3]]])
        for f in spec["functions"]:
            if r.random() < 0.3:
                f["opsets"] = [["", 18], ["local", 1]] + r.choice([[["com.unused", 2]], [["ai.onnx.ml", 3]]])      # (same version per domain everywhere: the inliner insists)
        return spec


OUT_KINDS = {"F1": (TP.FLOAT, [1]), "F12": (TP.FLOAT, [1, 2]), "F4": (TP.FLOAT, [4]), "FD": (TP.FLOAT, ["n"]), "ID": (TP.INT64, ["n"]),
             "F112": (TP.FLOAT, [1, 1, 2]), "B2": (TP.BOOL, [2]), "I112": (TP.INT64, [1, 1, 2]), "F": (TP.FLOAT, []), "I3": (TP.INT64, [3])}
for _k, _v in OUT_KINDS.items():
    KINDS.setdefault(_k, _v)


def _rename_graphlike(nodes, outputs, mapping):
    def r(x):
        return mapping.get(x, x)
    for n in nodes:
        n["ins"] = [r(i) for i in n["ins"]]
        n["outs"] = [r(o) for o in n["outs"]]
        for tv in n.get("attrs", {}).values():
            if tv[0] == "g":
                _rename_graphlike(tv[1]["nodes"], None, mapping)
                tv[1]["outputs"] = [[r(o), k] for o, k in tv[1]["outputs"]]
    if outputs is not None:
        outputs[:] = [r(o) for o in outputs]


def _produced(nodes):
    out = []
    for n in nodes:
        out += [o for o in n["outs"] if o]
        for tv in n.get("attrs", {}).values():
            if tv[0] == "g":
                out += _produced(tv[1]["nodes"])
    return out


def generated_looking_names(spec, rng):
    """Rename values so that function bodies and the main graph share names of the shape the name generators produce
    (t, t_2, val_3 ...): function-internal names are function-scoped, so this is legal; inlining must keep them apart."""
    pool_f = ["t", "t_2", "u", "t_3", "val", "val_2", "node_out", "u_2"]
    for f in spec.get("functions", []):
        internal = [v for v in dict.fromkeys(_produced(f["nodes"])) if v not in f["ins"]]
        rng.shuffle(internal)
        names = [n for n in pool_f]
        rng.shuffle(names)
        mapping = dict(zip(internal, names))
        _rename_graphlike(f["nodes"], f["outs"], mapping)
    pool_m = ["t_2", "t_3", "t", "u_2", "val_2", "val_3", "t_4", "u", "u_3", "val"]
    rng.shuffle(pool_m)
    taken = {n for n, _ in spec["inputs"]} | {i[0] for i in spec["inits"]}
    produced = [v for v in dict.fromkeys(_produced(spec["nodes"])) if v not in taken]
    rng.shuffle(produced)
    mapping = dict(zip(produced[:rng.choice([2, 4, 6])], pool_m))
    _rename_graphlike(spec["nodes"], None, mapping)
    spec["outputs"] = [[mapping.get(o, o), k] for o, k in spec["outputs"]]
    return spec


# --------------------------------------------------------------------------- execution oracle

def feeds_for(mp: onnx.ModelProto, seed: int):
    """Random tensors for the non-initializer inputs (by position); initializer-inputs keep their default."""
    rs = np.random.RandomState(seed)
    init_names = {i.name for i in mp.graph.initializer}
    vals = []
    for vi in mp.graph.input:
        if vi.name in init_names:
            continue
        tt = vi.type.tensor_type
        shape = [d.dim_value for d in tt.shape.dim]
        if tt.elem_type == TP.FLOAT:
            pool = np.array([0.0, -0.0, 1.0, -1.5, 2.0, 0.25, -3.0, np.inf, 1e-3], dtype=np.float32)
            v = pool[rs.randint(0, len(pool), size=shape)].astype(np.float32) if rs.rand() < 0.3 else rs.randn(*shape).astype(np.float32)
        elif tt.elem_type == TP.BOOL:
            v = np.array(rs.rand(*shape) < 0.5)
        elif tt.elem_type == TP.INT64:
            v = rs.randint(0, 3, size=shape).astype(np.int64)
        else:
            v = np.array([b"a", b"bb"], dtype=object).reshape(shape)
        vals.append(v)
    return vals


def initbacked_inputs(mp):
    init_names = {i.name for i in mp.graph.initializer}
    return [vi for vi in mp.graph.input if vi.name in init_names]


def override_vals(mp: onnx.ModelProto, seed: int):
    """Feeds for the initializer-backed (overridable) inputs: values that differ from their default."""
    rs = np.random.RandomState(seed ^ 0x5A5A)
    vals = []
    for vi in initbacked_inputs(mp):
        tt = vi.type.tensor_type
        shape = [d.dim_value for d in tt.shape.dim]
        if tt.elem_type == TP.FLOAT:
            vals.append((rs.randn(*shape) * 3 + 7).astype(np.float32))
        elif tt.elem_type == TP.BOOL:
            vals.append(np.array(rs.rand(*shape) < 0.5))
        elif tt.elem_type in (TP.INT64, TP.INT32):
            vals.append(rs.randint(5, 9, size=shape).astype(np.int64 if tt.elem_type == TP.INT64 else np.int32))
        else:
            vals.append(np.array([b"zz"] * int(np.prod(shape) or 1), dtype=object).reshape(shape))
    return vals


def noninit_inputs(mp):
    init_names = {i.name for i in mp.graph.initializer}
    return [vi for vi in mp.graph.input if vi.name not in init_names]


def same_value(a, b) -> bool:
    a, b = np.asarray(a), np.asarray(b)
    if a.dtype == object or a.dtype.kind in "SU" or b.dtype == object or b.dtype.kind in "SU":
        # string tensors come back as object / <U / |S arrays depending on the producing operator
        def norm(x):
            return x.decode("utf-8", "surrogateescape") if isinstance(x, bytes) else str(x)
        return a.shape == b.shape and [norm(x) for x in a.ravel().tolist()] == [norm(x) for x in b.ravel().tolist()]
    if a.dtype != b.dtype or a.shape != b.shape:
        return False
    if a.dtype.kind == "f":
        an, bn = np.isnan(a), np.isnan(b)
        if not np.array_equal(an, bn):
            return False
        ai = a.view({2: np.uint16, 4: np.uint32, 8: np.uint64}[a.dtype.itemsize])
        bi = b.view(ai.dtype)
        return bool(np.array_equal(ai[~an], bi[~bn]))
    return bool(np.array_equal(a, b))


def feed_dict(mp, vals, ov=None):
    """non-initializer inputs by position; initializer-backed inputs overridden by position when `ov` is given."""
    feeds = dict(zip([vi.name for vi in noninit_inputs(mp)], vals))
    if ov is not None:
        feeds.update(zip([vi.name for vi in initbacked_inputs(mp)], ov))
    return feeds


def run_ref(mp, vals, ov=None):
    from onnx.reference import ReferenceEvaluator
    with np.errstate(all="ignore"):
        return ReferenceEvaluator(mp).run(None, feed_dict(mp, vals, ov))


def run_ort(mp, vals):
    import onnxruntime as ort
    so = ort.SessionOptions()
    so.log_severity_level = 4
    so.graph_optimization_level = ort.GraphOptimizationLevel.ORT_DISABLE_ALL
    s = ort.InferenceSession(mp.SerializeToString(), so, providers=["CPUExecutionProvider"])
    names = [vi.name for vi in noninit_inputs(mp)]
    return s.run(None, dict(zip(names, vals)))


def ort_comparable(spec) -> bool:
    """onnxruntime is a second voice only where it is deterministic and side-effect free: its training-mode
    BatchNormalization updates the running statistics in place and its random operators are seeded differently."""
    def bad(nodes):
        for n in nodes:
            if n["op"].startswith("Random") or (n["op"] == "BatchNormalization" and "training_mode" in n.get("attrs", {})):
                return True
            for tv in n.get("attrs", {}).values():
                if tv[0] == "g" and bad(tv[1]["nodes"]):
                    return True
        return False
    return not (bad(spec["nodes"]) or any(bad(f["nodes"]) for f in spec.get("functions", [])))

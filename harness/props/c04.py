"""C04 — all tensor representations agree on values and bytes for every dtype/shape.

Decided by
  * Coq theorems (coq/theories/C04/Property.v, proofs in Proofs1-4.v) over the executable model C04/Model.v and the
    tables/dispatch sets of Gen/C04Gen.v, which `generate` re-extracts (fail closed, python ast) from _enums.py,
    _core.py and serde.py on every run;
  * a correspondence check: the real representations are built from generated logical data, numpy() (as unsigned
    bit patterns) / tobytes() / tofile() / nbytes / dtype / shape are observed, and case files embed the raw inputs
    of each representation (as a `rep` term) plus the observations; Coq evaluates the model on the same inputs
    (C04/Tie.v `agree`) and also checks the observations against the specification (`le_pack`, `elem`, `write`);
  * a property oracle in Python (independent reference packer + onnx.numpy_helper as third voice) that supplies
    concrete replays.

Model (C04/Model.v).  An element is its bit pattern x : N < 2^bw; no float arithmetic.  numpy()/ml_dtypes keep one
sub-byte element per storage byte, the logical element is the low bw bits (`elem`; the harness checks on all 256
bytes that ml_dtypes int4/uint4/int2/uint2 read exactly those bits).  pack_4bitx2/unpack_4bitx2/pack_2bitx4/
unpack_2bitx4 are written after the numpy code (ravel, odd/non-multiple `resize` zero fill, `&=`, `<<=` with uint8
wrap-around, strided `|` as pair/quad recursion, the `size == prod+1` truncation, the final `resize(dims)` zero
fill/truncate).  Representations: RArray (ir.Tensor over ndarray: any storage bytes), RTorch, RPacked, RProto (record
with ALL storage fields, so the different field orders of numpy() and tobytes() are visible), RExternal (file bytes,
offset/length options; mmap + frombuffer errors; `length or nbytes`), RLazy (declared dtype/shape + delegation),
`serialize` (proto copied / raw_data := tobytes()).  tofile: destination = (content, position); `write` overwrites/
extends with zero fill; ExternalTensor.tofile = copy_file_range phase under ANY schedule of partial copies (list of
counts chosen by the kernel, ending early = errno fallback) followed by the chunked read/write loop (fuel = bytes to
copy; out-of-fuel is an error value excluded by the theorem).  String tensors: separate small model (numpy 'S'
arrays drop trailing NULs).

Theorems (all closed under the global context; all dtypes via the generated table, all sizes/shapes/values):
  C04_tables_consistent      30 clauses over the generated tables by vm_compute + every dispatch set of the code
                             selects exactly the dtypes of the bit width its branch handles
  C04_meta_agree             dtype / shape of every representation
  C04_nbytes                 len(tobytes()) = nbytes = ceil(size*bw/8)
  C04_pack_unpack            k in {2,4}: unpack(pack xs)(|xs|) = xs mod 2^k for ANY storage bytes and length;
                             pack(unpack bs) = bs for bytes with zero padding; numpy code = arithmetic packing
  C04_numpy_agree            numpy() of every representation holds the logical elements
  C04_bytes_agree            tobytes() = le_pack; tofile() = write of exactly those bytes at the current position for
                             every kernel/chunk schedule; frame property of write (before/after unchanged, position)
  C04_external_any_offset    file pre ++ bytes ++ post, offset |pre|, any pre/post (post = [] included), length None/nbytes
  C04_serialize_represents   the serialized proto represents the same data
  C04_strings_agree_partial  string representations agree when no element ends in NUL  (PARTIAL: the full statement
                             is false, see C04_string_trailing_nul_refuted = known finding string-trailing-nul)
Bit-level lemmas are finite sweeps (16x16 nibble pairs, 4^4 crumb quadruples) lifted with forallb_forall.

Readings of the English.  "equal element values": compared as bit patterns of the logical element (so NaN payloads
and -0.0 must survive; for int4/int2 kept in int8 arrays the sign-extension bits of the storage byte are not part of
the element).  "same logical data" for packed/proto/external inputs: bytes whose padding bits are zero (PackedTensor
and raw_data pass padding bits through; covered as malformed inputs, model = code).  "any position": including a
seek past the end (zero fill).  A user-supplied numpy 'S' array that already lost its trailing NULs is the logical
data of that tensor.  nbytes uses float arithmetic in the code: exact for size < 2^50 (assumption; checked up to 2^50).

Modelled, not verified: numpy view/astype/frombuffer/resize/tofile, ml_dtypes storage, protobuf (presence of raw_data,
float_data bit preservation incl. signalling NaNs — observed to hold), mmap, copy_file_range, torch memory layout,
Python file objects; big-endian branches; path containment and invalidate()/release() state (C10 / not in scope);
a failed _load leaves the mmap behind so a second tobytes() on a malformed external tensor answers differently
(the model describes fresh objects; well-formed cases are observed on one object in sequence).

Findings on the unchanged tree (after the three fix: commits, whose witnesses are corpus cases):
  * the two hints of the property text (odd-length 4-bit data in int32_data, tofile() at a non-zero destination
    offset) do NOT reproduce: proved for the model, 0 mismatches / 0 oracle failures over the grid;
  * string-trailing-nul (known finding, proposed_fixes/C04-string-trailing-nul.diff): numpy() of list/proto-backed
    string tensors drops trailing NUL bytes of an element, the object-array-backed representation keeps them.

Mutants of /repo tried (scratch git worktree + VERIF_REPO, quick tier, seed 0) and which part caught them:
  M1  pack_4bitx2 without `&= 0x0F`                          oracle replay (INT4 [15] kept in int8: tobytes ff != 0f) + correspondence
  M3  ExternalTensor._load count = size//2 + size%2 (2-bit)   oracle replay (UINT2 x3 at end of file: numpy() raises) [the repaired defect]
  M4  PackedTensor.numpy without the 2-bit branch             oracle replay (corpus witness) [the repaired defect]
  M5  FLOAT4E2M1 dropped from the uint8 set of proto tobytes  proof (dispatch_table_true) + oracle replay (AssertionError)
  M6  kernel-copy path does not seek past the copied bytes    oracle replay (file position 2, expected 3)
  M8  short name of INT2 = "i4"                               proof (tables_consistent_true) + oracle-tables replay (from_short_name)
  M9  UINT32 in uint64_data not narrowed in tobytes           oracle replay
  M10 external slice one byte short when `length` is given     oracle replay
  M11 unpack_2bitx4 third mask 0x70                           correspondence only -> no-failing-input-found (ml_dtypes ignores the
                                                              extra storage bit: no public value changes)
  M12 chunk loop decrements by the chunk size                 correspondence on malformed (short file: OSError no longer raised) ->
                                                              no-failing-input-found (equivalent on well-formed data)
  M13 offset ignored when one item is read                    oracle replay
  M14 chunk loop reads a full chunk past the tensor end       oracle replay (BytesIO destination, data followed by other bytes)
  M15 serialize_tensor_into writes numpy().tobytes()           oracle replay (sub-byte dtypes) + third voice
  M16 nbytes floor instead of ceil                             generation fails closed + oracle-nbytes / oracle replays
Seeded changes missed by the first version and now caught with concrete replays (tools/seed_eval.py):
  C04-m2  TorchTensor._get_cbytes reads from untyped_storage().data_ptr()   -> torch views with a storage offset were
          never generated; added view_tail / view_narrow / view_row (0-d element) / view_split / view_strided /
          view_t_offset (RTorch store = logical elements of the view), plus offset views for ndarray and PackedTensor
  C04-m3  _load maps the file from the allocation block, tobytes() slices with the absolute offset -> offsets were all
          small; added external data at 4095/4096/4097/8192/12289 (all dtypes, all 6 accessor orders at 4096) and
          65535/65536/65537/135168 (4 dtypes per quick run, all in thorough), at end of file or not, through
          ExternalTensor / deserialize_tensor / LazyTensor; every well-formed case now calls numpy/tobytes/tofile on
          ONE object in one of 6 orders (spec["order"]).  Long prefixes are named by a pattern (Tie.pat) in case files.
  C04-r3m2 from_numpy() accepts non-native byte order ('>i4' ...) while the byte builder swaps only on big-endian
          machines -> big-endian tobytes().  Added array variants byteswapped / byteswapped_dtype / byteswapped_ir.tensor
          (multi-byte numpy-native dtypes): "TypeError at construction" is an accepted rejection (spec["may_reject"], what
          the clean tree does, histogram non_native_byte_order), "accepted" requires the little-endian reference bytes.
  C04-r3m3 ir.tensor(python floats, dtype=<narrow float>) through float32 (double rounding).  Added the Python-value
          constructor path (gen_pyvalues): scalars / flat / nested lists of every dtype with explicit dtype, default
          dtypes (ints, floats, bools), and for FLOAT16/BFLOAT16/FP8/FP4 doubles next to every rounding decision
          (midpoints of neighbouring representable values +- 1 ulp of double and +- 2^-30 of the gap, overflow threshold,
          half the smallest subnormal).  Reference = numpy's direct conversion of the same values (RArray store), and
          onnx.helper.make_tensor for FLOAT16/BFLOAT16/FLOAT4E2M1 (for the FP8 types the ONNX encoder itself rounds
          differently from ml_dtypes — saturation / float32 detour — measured on the clean tree, so it is not used there).
  C04-r6m2 ir.tensor(ndarray / numpy scalar) through np.ascontiguousarray (rank 0 -> shape [1]).  Constructor stream now
          has, for every dtype, rank-0 arrays through ir.tensor (with / without dtype), numpy scalars through ir.tensor
          and ir.Tensor, and rank-0 ml / Fortran / strided arrays: shape must stay ().
  C04-r6m1 proto tobytes() int32_data branch rewritten as a bit-width dispatch (FLOAT4E2M1 -> 4 bytes per stored byte):
          the dispatch-set extraction failed closed but also stopped the harness; now a function without its expected
          `dtype in {...}` sets is an error of the generation only, the harness continues with the sets implied by the
          ONNX storage rules and the oracle produces the concrete input (FLOAT4E2M1 [15] in int32_data).
Unchanged tree: no VIOLATION for VERIF_SEED 0..3 (only KNOWN-FINDING string-trailing-nul).

Deepening round (2026-09-26):
  * _type_casting.py is now TRANSLATED: `_TC` (fail-closed ast translator in this file) emits tc_pack_4bitx2 /
    tc_unpack_4bitx2 / tc_pack_2bitx4 / tc_unpack_2bitx4 into Gen/C04Gen.v statement by statement over the strided
    numpy vocabulary of C04/Np.v (`a[s::k]`, `a[s::k] op= c`, `a[s::k] = v`, `&`, `>>`, `|`, resize, np.empty, `[:-1]`,
    `[:n]`; dims = its element count).  Model.pack_4bitx2 etc. ARE these translations; ProofsTc.v proves them equal, for
    every input and target size, to the readable pair/quad recursions (theorem C04_type_casting_translated), so
    C04_pack_unpack and every representation theorem is about the code as written.  New direct stream
    type_casting_stream (valid, odd, empty, scalar dims, mismatching dims, int8/2-D/Fortran/strided inputs).
  * byte order: generation fails closed unless from_numpy starts with the plain table lookup and the byte builder ends
    with the big-endian-machine swap only (why the model has no byte-order dimension); non-native arrays stay in the tie.
  * nbytes: the model now computes what the code computes (`nbytes_code`: float64 product, int->float rounding rne53);
    C04_nbytes_float_exact (exact below 2^53 elements; `logical` carries that bound) and C04_nbytes_float_refuted
    (INT4 x (2^53+1)) = known finding nbytes-float-rounding + proposed_fixes/C04-nbytes-float-rounding.diff; stream
    nbytes_stream compares LazyTensor(shape).nbytes with the model for sizes up to ~2^90 (never materialised).
  * strings: the repair (object arrays) passes the 1066 tests of _core/serde/_constructors/tensor_adapters/_enums/schemas
    test files in a scratch worktree; C04_strings_agree_with_fix proves the full statement for the repaired model
    (s_numpy_fixed).  When the fix lands: set the finding to "fixed" and make s_numpy := s_numpy_fixed.

After fixes c6a08a9 (integer nbytes) and 5633eae (object arrays for string numpy()): Gen.nbytes_code is the pinned
  integer formula, C04_nbytes_exact holds for every size (no 2^53 bound in `logical`), C04_strings_agree is the full
  statement; the *_before_fix theorems keep the refutations of the old code; both findings are "fixed" and their
  witnesses are corpus cases (corpus/C04/fixed_strings_nbytes.json; oracle-nbytes now checks every generated shape).
All four observations below were then fixed in /repo (c3d2ba2, 2eeac5e, d585c3f, c2ae398): the findings are "fixed",
their witnesses are corpus cases (corpus/C04/fixed_observations.json), RTorchConj is a `represents` constructor
(resolved bytes; C04_torch_conj_refuted_before_fix keeps the old refutation), and file-append destinations, 2-D packed
raw arrays and the ir.tensor string constructor paths are ordinary oracle + correspondence cases (no open C04 finding).
Observations of the mutation engineer, all reproduced on the then-unchanged tree and judged inside the property (known
findings with proposed_fixes/C04-*.diff, all four fixes together pass the 874 tests of the _core/serde/_constructors/
tensor_adapters/external_data test files; demo proposed_fixes/C04-observations-demo.py):
  torch-conj-bytes        modelled (RTorchConj: numpy resolves the conjugation, tobytes does not), C04_torch_conj_refuted,
                          generator variant torch:view_conj for COMPLEX64/128, model = code in the correspondence
  external-tofile-append  destination kind file-append for every representation (model: write at the end); ExternalTensor
                          raises OSError(EBADF): oracle only (the destination model has no append flag), stripped from the
                          case files while the finding is known
  packed-2d-raw           packed variant raw2d; oracle only while known (the model's packed bytes are flat)
  ir-tensor-string-ctor   string kinds ctor-flat / ctor-nested / ctor-bytes / ctor-dtype (ir.tensor -> serialize_tensor);
                          oracle only while known, SBytesArray in the model once they construct
  A failure at one of these sites that is not fully explained by it (known_site) is still reported as a VIOLATION.

Shared-helper notes for the orchestrator: case files are compiled with at most 4 coqc in parallel (own pool instead of
ck.coq_eval_many, which uses every core); C04/Tie.v is not in the closure of Property.v, run() builds it with common.make.
"""

from __future__ import annotations

import ast
import os

import translate as T
from harness.common import REPO

ENUMS = os.path.join(REPO, "src", "onnx_ir", "_enums.py")
CORE = os.path.join(REPO, "src", "onnx_ir", "_core.py")
SERDE = os.path.join(REPO, "src", "onnx_ir", "serde.py")


def _codes(s: str) -> str:
    return "[" + "; ".join(f"{ord(c)}%N" for c in s) + "]"


def _members(mod: ast.Module, cls: str) -> list[tuple[str, int]]:
    for n in mod.body:
        if isinstance(n, ast.ClassDef) and n.name == cls:
            out = []
            for s in n.body:
                if isinstance(s, ast.Assign):
                    if len(s.targets) != 1 or not isinstance(s.targets[0], ast.Name):
                        raise T.Unsupported(f"{cls}: unexpected assignment {ast.dump(s)}")
                    out.append((s.targets[0].id, T.const_int(s.value)))
            if not out:
                raise T.Unsupported(f"{cls}: no members")
            return out
    raise T.Unsupported(f"class {cls} not found")


def _dt_member(e: ast.expr, members: dict[str, int]) -> int:
    """`DataType.X` or `_enums.DataType.X` -> value."""
    if isinstance(e, ast.Attribute) and isinstance(e.value, (ast.Name, ast.Attribute)):
        base = e.value
        ok = (isinstance(base, ast.Name) and base.id == "DataType") or (
            isinstance(base, ast.Attribute) and base.attr == "DataType"
            and isinstance(base.value, ast.Name) and base.value.id == "_enums")
        if ok and e.attr in members:
            return members[e.attr]
    raise T.Unsupported(f"not a DataType member: {ast.dump(e)}")


def _dt_sets_in(fn: ast.FunctionDef, members: dict[str, int]) -> list[list[int]]:
    """All set literals `{DataType.X, ...}` of a function, in source order (fail closed on mixed sets)."""
    out = []
    for node in ast.walk(fn):
        if isinstance(node, ast.Set):
            out.append((node.lineno, node.col_offset, [_dt_member(x, members) for x in node.elts]))
    out.sort()
    return [s for _, _, s in out]


def _return_in_set(fn: ast.FunctionDef, members: dict[str, int]) -> list[int]:
    """Body `return self in {…}` (after an optional docstring)."""
    body = [s for s in fn.body if not (isinstance(s, ast.Expr) and isinstance(s.value, ast.Constant))]
    if len(body) == 1 and isinstance(body[0], ast.Return):
        c = body[0].value
        if (isinstance(c, ast.Compare) and isinstance(c.left, ast.Name) and c.left.id == "self"
                and len(c.ops) == 1 and isinstance(c.ops[0], ast.In) and isinstance(c.comparators[0], ast.Set)):
            return [_dt_member(x, members) for x in c.comparators[0].elts]
    raise T.Unsupported(f"{fn.name}: body is not `return self in {{...}}`")


def _np_key(e: ast.expr) -> str:
    """np.dtype("bool") -> "bool" ; np.dtype(ml_dtypes.int4) -> "ml_dtypes.int4"."""
    if (isinstance(e, ast.Call) and isinstance(e.func, ast.Attribute) and e.func.attr == "dtype"
            and isinstance(e.func.value, ast.Name) and e.func.value.id == "np" and len(e.args) == 1 and not e.keywords):
        a = e.args[0]
        if isinstance(a, ast.Constant) and isinstance(a.value, str):
            return a.value
        if isinstance(a, ast.Attribute) and isinstance(a.value, ast.Name) and a.value.id == "ml_dtypes":
            return "ml_dtypes." + a.attr
    raise T.Unsupported(f"unsupported numpy dtype key: {ast.dump(e)}")


def _is_expr(fn: ast.FunctionDef, want: str) -> None:
    body = [s for s in fn.body if not (isinstance(s, ast.Expr) and isinstance(s.value, ast.Constant))]
    got = ast.unparse(body[0]) if len(body) == 1 else "<%d statements>" % len(body)
    if got != want:
        raise T.Unsupported(f"{fn.name}: expected `{want}`, found `{got}`")


def np_itemsize(key: str) -> int:
    import ml_dtypes
    import numpy as np
    if key.startswith("ml_dtypes."):
        return np.dtype(getattr(ml_dtypes, key.split(".", 1)[1])).itemsize
    return np.dtype(key).itemsize


_TABLES: dict | None = None


def tables() -> dict:
    """Python-side view of everything that goes into C04Gen.v (read once per process)."""
    global _TABLES
    if _TABLES is None:
        _TABLES = _tables()
    return _TABLES


def _tables() -> dict:
    mod = T._src(ENUMS)
    mem = _members(mod, "DataType")
    members = dict(mem)
    if len(members) != len(mem):
        raise T.Unsupported("duplicate DataType member name")

    def dict_of(name, keyf, valf):
        e = T.find_assign(mod, name)
        if not isinstance(e, ast.Dict):
            raise T.Unsupported(f"{name} is not a dict literal")
        return [(keyf(k), valf(v)) for k, v in zip(e.keys, e.values)]

    def strc(e):
        if isinstance(e, ast.Constant) and isinstance(e.value, str):
            return e.value
        raise T.Unsupported(f"not a string constant: {ast.dump(e)}")

    dm = lambda e: _dt_member(e, members)  # noqa: E731
    out = {"members": mem}
    out["bitwidth"] = dict_of("_BITWIDTH_MAP", dm, T.const_int)
    out["short"] = dict_of("_DATA_TYPE_TO_SHORT_NAME", dm, strc)
    out["np"] = dict_of("_NP_TYPE_TO_DATA_TYPE", _np_key, dm)
    # the two inverted dicts must be plain inversions
    for name, src in (("_DATA_TYPE_TO_NP_TYPE", "_NP_TYPE_TO_DATA_TYPE"),
                      ("_SHORT_NAME_TO_DATA_TYPE", "_DATA_TYPE_TO_SHORT_NAME")):
        got = ast.unparse(T.find_assign(mod, name))
        if got != f"{{v: k for k, v in {src}.items()}}":
            raise T.Unsupported(f"{name} is not the inversion of {src}: {got}")
    out["floating"] = _return_in_set(T.find_function(mod, "DataType.is_floating_point"), members)
    out["integer"] = _return_in_set(T.find_function(mod, "DataType.is_integer"), members)
    out["signed"] = _return_in_set(T.find_function(mod, "DataType.is_signed"), members)
    core = T._src(CORE)
    # scalar formulas the hand model relies on: a different shape fails the generation (closed), but the tables
    # above stay available to the harness so that the oracle can still look for a concrete failing input
    out["errors"] = []
    for m_, q, want in ((mod, "DataType.itemsize", "return self.bitwidth / 8"),
                        (mod, "DataType.is_string", "return self == DataType.STRING"),
                        (core, "TensorBase.nbytes", "return (self.dtype.bitwidth * self.size + 7) // 8")):
        try:
            _is_expr(T.find_function(m_, q), want)
        except T.Unsupported as e:
            out["errors"].append(str(e))
    # byte order: the model has no byte-order dimension because (a) from_numpy looks the dtype up as given, so an
    # array of the non-native order is rejected, and (b) the byte builder ends with the big-endian-machine swap only
    try:
        fn = T.find_function(mod, "DataType.from_numpy")
        body = [s_ for s_ in fn.body if not (isinstance(s_, ast.Expr) and isinstance(s_.value, ast.Constant))]
        if ast.unparse(body[0]) != "if dtype in _NP_TYPE_TO_DATA_TYPE:\n    return cls(_NP_TYPE_TO_DATA_TYPE[dtype])":
            out["errors"].append("from_numpy: does not start with the plain table lookup: " + ast.unparse(body[0])[:120])
        fn = T.find_function(core, "_create_np_array_for_byte_representation")
        tail = "\n".join(ast.unparse(s_) for s_ in fn.body[-2:])
        if tail != "if not _IS_LITTLE_ENDIAN:\n    array = array.astype(array.dtype.newbyteorder('<'))\nreturn array":
            out["errors"].append("_create_np_array_for_byte_representation: unexpected byte-order tail: " + tail[:160])
        if ast.unparse(T.find_assign(core, "_IS_LITTLE_ENDIAN")) != "sys.byteorder == 'little'":
            out["errors"].append("_IS_LITTLE_ENDIAN is not `sys.byteorder == 'little'`")
    except (T.Unsupported, IndexError) as e:
        out["errors"].append(f"byte-order shape check: {e}")
    e = T.find_assign(core, "_NON_NUMPY_NATIVE_TYPES")
    if not (isinstance(e, ast.Call) and isinstance(e.func, ast.Name) and e.func.id == "frozenset" and len(e.args) == 1
            and isinstance(e.args[0], (ast.Tuple, ast.List, ast.Set))):
        raise T.Unsupported("_NON_NUMPY_NATIVE_TYPES is not frozenset((...))")
    out["non_native"] = [dm(x) for x in e.args[0].elts]
    serde = T._src(SERDE)
    # dispatch sets of the code.  When a function no longer has the expected `dtype in {...}` tests the generation
    # fails closed (errors), but the harness keeps going with the sets the ONNX storage rules imply, so that the oracle
    # can still produce a concrete failing input.
    bwm = dict(out["bitwidth"])
    val = members
    i32 = [v for v, b in bwm.items() if b <= 32 and v not in (val["FLOAT"], val["UINT32"])]
    fallback = {"bytes_pack4": [v for v, b in bwm.items() if b == 4], "bytes_pack2": [v for v, b in bwm.items() if b == 2],
                "ext_subbyte": [v for v, b in bwm.items() if b < 8], "pn_int32": i32, "pn_int64": [val["INT64"]],
                "pn_uint64": [val["UINT64"], val["UINT32"]], "pn_float": [val["FLOAT"], val["COMPLEX64"]],
                "pn_double": [val["DOUBLE"], val["COMPLEX128"]], "pb_16": [v for v in i32 if bwm[v] == 16],
                "pb_8": [v for v in i32 if bwm[v] <= 8]}
    out.setdefault("errors", [])
    for src_mod, qual, keys in ((core, "_create_np_array_for_byte_representation", ["bytes_pack4", "bytes_pack2"]),
                                (core, "ExternalTensor._load", ["ext_subbyte"]),
                                (serde, "TensorProtoTensor.numpy", ["pn_int32", "pn_int64", "pn_uint64", "pn_float", "pn_double"]),
                                (serde, "TensorProtoTensor.tobytes", ["pb_16", "pb_8"])):
        try:
            got = _dt_sets_in(T.find_function(src_mod, qual), members)
            if len(got) != len(keys):
                raise T.Unsupported(f"{qual}: expected {len(keys)} dtype sets, found {len(got)}")
            for k_, g_ in zip(keys, got):
                out[k_] = g_
        except T.Unsupported as e:
            out["errors"].append(str(e))
            for k_ in keys:
                out[k_] = fallback[k_]
    out["np_itemsize_env"] = [(k, np_itemsize(k)) for k, _ in out["np"]]
    return out


def gen_text() -> str:
    t = tables()
    if t["errors"]:
        raise T.Unsupported("; ".join(t["errors"]))
    nl = lambda xs: "[" + "; ".join(f"{x}%N" for x in xs) + "]"  # noqa: E731
    L = ["(* GENERATED by /verif/harness/props/c04.py (ast of _enums.py, _core.py, serde.py) on every run — do not edit. *)",
         "From Coq Require Import NArith List Arith.", "From IRV Require Import C04.Np.", "Import ListNotations.", "Open Scope N_scope.", ""]
    L.append("(* _enums.py::DataType members (name as code points, value) *)")
    L.append("Definition dt_members : list (list N * N) :=\n  ["
             + ";\n   ".join(f"({_codes(n)}, {v}%N) (* {n} *)" for n, v in t["members"]) + "].")
    for n, v in t["members"]:
        L.append(f"Definition DT_{n} : N := {v}%N.")
    L.append("\n(* _enums.py::_BITWIDTH_MAP *)")
    L.append("Definition bitwidth_map : list (N * N) :=\n  " + "[" + "; ".join(f"({k}%N, {v}%N)" for k, v in t["bitwidth"]) + "].")
    L.append("\n(* _enums.py::_DATA_TYPE_TO_SHORT_NAME *)")
    L.append("Definition short_name_map : list (N * list N) :=\n  [" + ";\n   ".join(
        f"({k}%N, {_codes(v)}) (* {v} *)" for k, v in t["short"]) + "].")
    L.append("\n(* _enums.py::_NP_TYPE_TO_DATA_TYPE (key = numpy dtype spelling in the source) *)")
    L.append("Definition np_type_map : list (list N * N) :=\n  [" + ";\n   ".join(
        f"({_codes(k)}, {v}%N) (* {k} *)" for k, v in t["np"]) + "].")
    L.append("\n(* ENVIRONMENT (measured from the installed numpy/ml_dtypes, not from onnx_ir): itemsize in bytes of each key above *)")
    L.append("Definition np_itemsize_env : list (list N * N) :=\n  [" + ";\n   ".join(
        f"({_codes(k)}, {v}%N) (* {k} *)" for k, v in t["np_itemsize_env"]) + "].")
    L.append("\n(* DataType.itemsize is `self.bitwidth / 8` (shape-checked) *)")
    L.append("Definition itemsize_divisor : N := 8%N.")
    L.append("(* translated from _core.py::TensorBase.nbytes  `return (self.dtype.bitwidth * self.size + 7) // 8` (shape-checked) *)")
    L.append("Definition nbytes_code (bw size : N) : N := (bw * size + 7) / 8.")
    for key, doc in [("floating", "DataType.is_floating_point"), ("integer", "DataType.is_integer"),
                     ("signed", "DataType.is_signed"), ("non_native", "_core._NON_NUMPY_NATIVE_TYPES"),
                     ("bytes_pack4", "_core._create_np_array_for_byte_representation, first set (pack_4bitx2)"),
                     ("bytes_pack2", "_core._create_np_array_for_byte_representation, second set (pack_2bitx4)"),
                     ("ext_subbyte", "_core.ExternalTensor._load: read whole bytes for these"),
                     ("pn_int32", "serde.TensorProtoTensor.numpy: dtypes allowed in int32_data"),
                     ("pn_int64", "… int64_data"), ("pn_uint64", "… uint64_data"), ("pn_float", "… float_data"),
                     ("pn_double", "… double_data"),
                     ("pb_16", "serde.TensorProtoTensor.tobytes: int32_data narrowed to uint16"),
                     ("pb_8", "serde.TensorProtoTensor.tobytes: int32_data narrowed to uint8")]:
        L.append(f"\n(* {doc} *)\nDefinition set_{key} : list N := {nl(t[key])}.")
    L.append("\n(* ---- _type_casting.py, statement by statement over C04/Np.v (`dims` is represented by n = prod dims) *)")
    L.append(type_casting_text())
    return "\n".join(L) + "\n"


# --------------------------------------------------------------------------- _type_casting.py -> Gallina (fail closed)

TYPE_CASTING = os.path.join(REPO, "src", "onnx_ir", "_type_casting.py")


class _TC:
    """Statement-by-statement translation of one pack/unpack function into Gallina over C04/Np.v.

    Array variables are `list N` (flat uint8 storage), integer variables are `nat`; `dims` is represented by its
    element count `n` (np.prod(dims)).  Anything outside the vocabulary below raises translate.Unsupported."""

    def __init__(self, fn: ast.FunctionDef):
        self.fn = fn
        self.arrays: set[str] = set()
        self.nats: set[str] = set()
        self.bools: set[str] = set()
        self.lines: list[str] = []

    def bad(self, node, why=""):
        raise T.Unsupported(f"{self.fn.name}: unsupported {why}: `{ast.unparse(node)}`")

    # ---- constants
    def const(self, e) -> int:
        if isinstance(e, ast.Constant) and isinstance(e.value, int) and not isinstance(e.value, bool):
            return e.value
        if (isinstance(e, ast.Call) and ast.unparse(e.func) == "np.uint8" and len(e.args) == 1 and not e.keywords):
            v = self.const(e.args[0])
            if 0 <= v < 256:
                return v
        self.bad(e, "constant")

    # ---- nat expressions
    def nat(self, e) -> str:
        if isinstance(e, ast.Constant):
            return f"{self.const(e)}%nat"
        if isinstance(e, ast.Name) and e.id in self.nats:
            return e.id
        if isinstance(e, ast.Attribute) and e.attr == "size" and isinstance(e.value, ast.Name) and e.value.id in self.arrays:
            return f"(np_size {e.value.id})"
        u = ast.unparse(e)
        if u in ("np.prod(dims)", "int(np.prod(dims))"):
            return "n"
        if isinstance(e, ast.BinOp):
            if isinstance(e.op, ast.Add):
                return f"({self.nat(e.left)} + {self.nat(e.right)})%nat"
            if isinstance(e.op, ast.Mult):
                return f"({self.nat(e.left)} * {self.nat(e.right)})%nat"
            if isinstance(e.op, ast.Mod) and isinstance(e.right, ast.Constant) and self.const(e.right) > 0:
                return f"({self.nat(e.left)} mod {self.const(e.right)})%nat"
            if (isinstance(e.op, ast.Sub) and isinstance(e.left, ast.Constant) and isinstance(e.right, ast.BinOp)
                    and isinstance(e.right.op, ast.Mod) and isinstance(e.right.right, ast.Constant)
                    and 0 < self.const(e.right.right) <= self.const(e.left)):
                # c - (x % k) with k <= c: never negative, so nat subtraction is the Python subtraction
                return f"({self.const(e.left)} - {self.nat(e.right)})%nat"
        self.bad(e, "integer expression")

    def boolean(self, e) -> str:
        if isinstance(e, ast.Name) and e.id in self.bools:
            return e.id
        if isinstance(e, ast.Compare) and len(e.ops) == 1:
            a, b = self.nat(e.left), self.nat(e.comparators[0])
            if isinstance(e.ops[0], ast.Eq):
                return f"(Nat.eqb {a} {b})"
            if isinstance(e.ops[0], ast.Gt):
                return f"(Nat.ltb {b} {a})"
        self.bad(e, "condition")

    # ---- slices
    def stride(self, sl):
        """a[start::step] -> (start, step)"""
        if (isinstance(sl, ast.Slice) and sl.upper is None and sl.lower is not None and sl.step is not None):
            st, sp = self.const(sl.lower), self.const(sl.step)
            if 0 <= st < sp:
                return st, sp
        self.bad(sl, "slice")

    # ---- array expressions
    def arr(self, e) -> str:
        if isinstance(e, ast.Name) and e.id in self.arrays:
            return e.id
        u = ast.unparse(e)
        if u == "array.ravel().view(np.uint8).copy()":
            return "array"                     # the model's input already is the flat uint8 storage (a copy)
        if isinstance(e, ast.BinOp):
            if isinstance(e.op, ast.BitAnd):
                return f"(np_and_s {self.arr(e.left)} {self.const(e.right)})"
            if isinstance(e.op, ast.RShift):
                return f"(np_shr_s {self.arr(e.left)} {self.const(e.right)})"
            if isinstance(e.op, ast.BitOr):
                return f"(np_or {self.arr(e.left)} {self.arr(e.right)})"
        if isinstance(e, ast.Subscript) and isinstance(e.value, ast.Name) and e.value.id in self.arrays:
            sl = e.slice
            if isinstance(sl, ast.Slice) and sl.lower is None and sl.step is None and sl.upper is not None:
                if ast.unparse(sl.upper) == "-1":
                    return f"(np_drop_last {e.value.id})"
                return f"(np_take {e.value.id} {self.nat(sl.upper)})"
            st, sp = self.stride(sl)
            return f"(np_stride {e.value.id} {st} {sp})"
        if (isinstance(e, ast.Call) and ast.unparse(e.func) == "np.empty" and len(e.args) == 1
                and isinstance(e.args[0], ast.List) and len(e.args[0].elts) == 1
                and [ast.unparse(k) for k in e.keywords] == ["dtype=data.dtype"]):
            return f"(np_empty {self.nat(e.args[0].elts[0])})"
        self.bad(e, "array expression")

    # ---- statements
    def resize_call(self, st):
        """x.resize(dims | [expr], refcheck=False) -> (x, new size)"""
        if (isinstance(st, ast.Expr) and isinstance(st.value, ast.Call) and isinstance(st.value.func, ast.Attribute)
                and st.value.func.attr == "resize" and isinstance(st.value.func.value, ast.Name)
                and st.value.func.value.id in self.arrays and len(st.value.args) == 1
                and [ast.unparse(k) for k in st.value.keywords] == ["refcheck=False"]):
            a = st.value.args[0]
            if isinstance(a, ast.Name) and a.id == "dims":
                return st.value.func.value.id, "n"
            if isinstance(a, ast.List) and len(a.elts) == 1:
                return st.value.func.value.id, self.nat(a.elts[0])
        return None

    def simple(self, st) -> tuple[str, str]:
        """a statement that rebinds exactly one variable -> (variable, Gallina term)"""
        r = self.resize_call(st)
        if r:
            return r[0], f"(np_resize {r[0]} {r[1]})"
        if isinstance(st, ast.Assign) and len(st.targets) == 1:
            tg = st.targets[0]
            if isinstance(tg, ast.Name):
                # decide the type from the right-hand side
                for kind, f in (("arr", self.arr), ("nat", self.nat), ("bool", self.boolean)):
                    try:
                        text = f(st.value)
                    except T.Unsupported:
                        continue
                    {"arr": self.arrays, "nat": self.nats, "bool": self.bools}[kind].add(tg.id)
                    return tg.id, text
                self.bad(st, "assignment")
            if isinstance(tg, ast.Subscript) and isinstance(tg.value, ast.Name) and tg.value.id in self.arrays:
                a, b = self.stride(tg.slice)
                return tg.value.id, f"(np_set_stride {tg.value.id} {a} {b} {self.arr(st.value)})"
        if isinstance(st, ast.AugAssign):
            c = self.const(st.value)
            f = {ast.BitAnd: f"(fun x => N.land x {c})", ast.LShift: f"(fun x => np_u8 (N.shiftl x {c}))",
                 ast.RShift: f"(fun x => N.shiftr x {c})"}.get(type(st.op))
            if f is None:
                self.bad(st, "augmented assignment")
            if isinstance(st.target, ast.Name) and st.target.id in self.arrays:
                return st.target.id, f"(map {f} {st.target.id})"
            if (isinstance(st.target, ast.Subscript) and isinstance(st.target.value, ast.Name)
                    and st.target.value.id in self.arrays):
                a, b = self.stride(st.target.slice)
                return st.target.value.id, f"(np_upd_stride {f} {st.target.value.id} {a} {b})"
        self.bad(st, "statement")

    def translate(self, coq_name: str, params: str) -> str:
        body = [s for s in self.fn.body if not (isinstance(s, ast.Expr) and isinstance(s.value, ast.Constant))]
        args = [a.arg for a in self.fn.args.args]
        if args == ["array"]:
            self.arrays.add("array")
        elif args == ["data", "dims"]:
            self.arrays.add("data")
        else:
            raise T.Unsupported(f"{self.fn.name}: unexpected parameters {args}")
        out = []
        ret = None
        for st in body:
            if ret is not None:
                self.bad(st, "statement after return")
            if isinstance(st, ast.Assert):
                if ast.unparse(st.test) != "data.dtype == np.uint8":
                    self.bad(st, "assert")
                continue
            if isinstance(st, ast.Return):
                ret = self.arr(st.value)
                continue
            if isinstance(st, ast.If):
                if st.orelse or len(st.body) != 1:
                    self.bad(st, "if")
                c = self.boolean(st.test)
                v, text = self.simple(st.body[0])
                if v not in self.arrays:
                    self.bad(st, "if body")
                out.append(f"  let {v} := if {c} then {text} else {v} in")
                continue
            v, text = self.simple(st)
            out.append(f"  let {v} := {text} in")
        if ret is None:
            raise T.Unsupported(f"{self.fn.name}: no return")
        return (f"(* translated from _type_casting.py::{self.fn.name}  ast={T.ast_digest(self.fn)} *)\n"
                f"Definition {coq_name} {params} : list N :=\n" + "\n".join(out) + f"\n  {ret}.\n")


def type_casting_text() -> str:
    mod = T._src(TYPE_CASTING)
    out = []
    for name, params in (("pack_4bitx2", "(array : list N)"), ("unpack_4bitx2", "(data : list N) (n : nat)"),
                         ("pack_2bitx4", "(array : list N)"), ("unpack_2bitx4", "(data : list N) (n : nat)")):
        out.append(_TC(T.find_function(mod, name)).translate("tc_" + name, params))
    return "\n".join(out)


def generate(ck) -> bool:
    try:
        text = gen_text()
    except (T.Unsupported, SyntaxError, OSError) as e:
        ck.gen_failed("C04Gen", e)
        return False
    ck.gen("C04Gen", text)
    return True



# =========================================================================== implementation side

import io  # noqa: E402
import json  # noqa: E402
import struct  # noqa: E402

from harness import common  # noqa: E402
from harness.common import clist, copt  # noqa: E402


def cN(n) -> str:          # case files open N_scope: bare numerals parse fastest
    assert int(n) >= 0
    return str(int(n))


def cZ(n) -> str:
    return f"({int(n)})" if n < 0 else str(int(n))

M64 = (1 << 64) - 1


def _bw_table() -> dict[str, int]:
    """bit widths by dtype *name*, read from the source tables (not from the imported module)."""
    t = tables()
    byval = {v: n for n, v in t["members"]}
    return {byval[k]: v for k, v in t["bitwidth"]}


_BW: dict[str, int] | None = None


def BW(name: str) -> int:
    global _BW
    if _BW is None:
        _BW = _bw_table()
    return _BW[name]


def NUMERIC() -> list[str]:
    BW("FLOAT")
    return list(_BW)


# ---- independent reference encoder (plain Python integers; neither onnx_ir nor the Coq model)

def ref_pack(name: str, xs: list[int]) -> bytes:
    bw = BW(name)
    if bw >= 8:
        return b"".join(int(x).to_bytes(bw // 8, "little") for x in xs)
    per = 8 // bw
    out = bytearray((len(xs) + per - 1) // per)
    for i, x in enumerate(xs):
        out[i // per] |= (x & ((1 << bw) - 1)) << (bw * (i % per))
    return bytes(out)


def ref_nbytes(name: str, size: int) -> int:
    return -((-size * BW(name)) // 8)


def bits_to_array(ir, name: str, shape, xs):
    """numpy array of the dtype's numpy type holding the given bit patterns (C order)."""
    import numpy as np
    bw = BW(name)
    npdt = ir.DataType[name].numpy()
    if bw == 128:
        flat = np.array([w for x in xs for w in (x & M64, x >> 64)], dtype=np.uint64).view(np.complex128)
    elif bw >= 8:
        flat = np.array(xs, dtype=f"uint{bw}").view(npdt)
    else:
        flat = np.array(xs, dtype=np.uint8).view(npdt)
    return flat.reshape(shape)


def array_to_bits(a, name: str) -> list[int]:
    """storage cells of a numpy array, C order, as unsigned integers."""
    import numpy as np
    bw = BW(name)
    a = np.ascontiguousarray(a).reshape(-1)
    if not a.dtype.isnative:
        a = a.astype(a.dtype.newbyteorder("="))      # the element values, whatever the array's byte order
    if a.dtype.itemsize * 8 != max(bw, 8):
        raise AssertionError(f"numpy() returned itemsize {a.dtype.itemsize} for {name}")
    if bw == 128:
        u = a.view(np.uint64).reshape(-1, 2)
        return [int(lo) | (int(hi) << 64) for lo, hi in u]
    return [int(x) for x in a.view(f"uint{max(bw, 8)}")]


def sext8(x: int, bw: int) -> int:
    """storage byte of a signed sub-byte element kept in an int8 array (sign extended)."""
    if x >> (bw - 1):
        return (x | (0xFF << bw)) & 0xFF
    return x


def sext(x: int, bw: int) -> int:
    return x - (1 << bw) if x >> (bw - 1) else x


INT32_FIELD = None


def proto_sets():
    t = tables()
    byval = {v: n for n, v in t["members"]}
    return {k: [byval[v] for v in t[k]] for k in ("pn_int32", "pn_int64", "pn_uint64", "pn_float", "pn_double")}


def _packed_field(num: int, payload: bytes) -> bytes:
    def varint(n):
        out = bytearray()
        while True:
            b = n & 0x7F
            n >>= 7
            out.append(b | (0x80 if n else 0))
            if not n:
                return bytes(out)
    return varint((num << 3) | 2) + varint(len(payload)) + payload


def mk_proto(name: str, shape, fields: dict):
    """TensorProto with exactly the given storage fields; float/double given as bit patterns (wire level, so
    NaN payloads survive)."""
    import onnx
    import onnx_ir as ir
    tp = onnx.TensorProto()
    tp.data_type = int(ir.DataType[name])
    tp.dims.extend(shape)
    if fields.get("raw") is not None:
        tp.raw_data = bytes(fields["raw"])
    if fields.get("int32"):
        tp.int32_data.extend(fields["int32"])
    if fields.get("int64"):
        tp.int64_data.extend(fields["int64"])
    if fields.get("uint64"):
        tp.uint64_data.extend(fields["uint64"])
    extra = b""
    if fields.get("float"):
        extra += _packed_field(4, b"".join(struct.pack("<I", b) for b in fields["float"]))
    if fields.get("double"):
        extra += _packed_field(10, b"".join(struct.pack("<Q", b) for b in fields["double"]))
    if extra:
        tp2 = onnx.TensorProto()
        tp2.ParseFromString(tp.SerializeToString() + extra)
        tp = tp2
    return tp


def coq_proto(name, shape, fields) -> str:
    import onnx_ir as ir
    nl = lambda xs: clist(cN(x) for x in xs)  # noqa: E731
    zl = lambda xs: "(" + clist(cZ(x) for x in xs) + ")%Z"  # noqa: E731
    raw = fields.get("raw")
    return ("{| p_dtype := %s; p_dims := %s; p_raw := %s; p_float := %s; p_int32 := %s; p_int64 := %s; "
            "p_double := %s; p_uint64 := %s |}" % (
                cN(int(ir.DataType[name])), nl(shape), "None" if raw is None else f"(Some {nl(raw)})",
                nl(fields.get("float") or []), zl(fields.get("int32") or []), zl(fields.get("int64") or []),
                nl(fields.get("double") or []), nl(fields.get("uint64") or [])))


def proto_fields(spec: dict) -> dict:
    """Storage fields of a well-formed proto representation of (dtype, bits)."""
    name, xs, p = spec["dtype"], spec["bits"], spec["params"]
    bw = BW(name)
    f = p["field"]
    if f == "raw":
        return {"raw": list(ref_pack(name, xs))}
    if f == "int32":
        ext = p.get("ext", "zero")
        vals = list(ref_pack(name, xs)) if bw < 8 else xs
        w = 8 if bw < 8 else bw
        if ext == "sign" or bw == 32:
            return {"int32": [sext(v, w) for v in vals]}
        if ext == "high":      # garbage in the bits above the element (int32_data holds 32 bits)
            return {"int32": [sext((v | (0x5A5A5A5A << w)) & 0xFFFFFFFF, 32) for v in vals]}
        return {"int32": list(vals)}
    if f == "int64":
        return {"int64": [sext(x, 64) for x in xs]}
    if f == "uint64":
        if p.get("ext") == "high" and bw == 32:
            return {"uint64": [x | (0xA5A5A5A5 << 32) for x in xs]}
        return {"uint64": list(xs)}
    if f in ("float", "double"):
        w = 32 if f == "float" else 64
        if name.startswith("COMPLEX"):
            return {f: [h for x in xs for h in (x & ((1 << w) - 1), x >> w)]}
        return {f: list(xs)}
    raise AssertionError(f)


def py_encode(v) -> str:
    """JSON-safe exact spelling of a Python scalar given to ir.tensor()."""
    if isinstance(v, bool):
        return f"b:{int(v)}"
    if isinstance(v, int):
        return f"i:{v}"
    if isinstance(v, complex):
        return f"c:{float(v.real).hex()},{float(v.imag).hex()}"
    return f"f:{float(v).hex()}"


def py_decode(sv: str):
    k, v = sv.split(":", 1)
    if k == "b":
        return bool(int(v))
    if k == "i":
        return int(v)
    if k == "c":
        re, im = v.split(",")
        return complex(float.fromhex(re), float.fromhex(im))
    return float.fromhex(v)


def nest(vals: list, shape: list):
    """Python scalar / nested list of the given shape."""
    import numpy as np
    if not shape:
        return vals[0]
    a = np.empty(len(vals), dtype=object)
    a[:] = vals
    return a.reshape(shape).tolist()


def pylist_reference_bits(ir, name: str, vals: list, shape, with_dtype: bool = True) -> list[int]:
    """numpy's own conversion of the Python values to the element type (the reference for ir.tensor(values, dtype))."""
    import numpy as np
    return array_to_bits(np.array(nest(vals, shape), dtype=ir.DataType[name].numpy()).reshape(shape), name)


class Built:
    """A constructed representation: the tensor (or the exception its construction raised) and the model term."""

    def __init__(self, tensor, term, err=None, keep=None):
        self.tensor, self.term, self.err, self.keep = tensor, term, err, keep
        self.ser_inner = None


def build(spec: dict, workdir: str, tag: str = "t") -> Built:
    """Construct the representation described by `spec` on the real implementation, and the Coq `rep` term
    holding exactly the same raw inputs."""
    import numpy as np
    import onnx
    import onnx_ir as ir
    from onnx_ir import serde
    name, shape, xs, kind, p = spec["dtype"], list(spec["shape"]), spec["bits"], spec["rep"], spec.get("params", {})
    dt = ir.DataType[name]
    bw = BW(name)
    cdt, cshape = cN(int(dt)), clist(cN(d) for d in shape)
    nl = lambda v: clist(cN(x) for x in v)  # noqa: E731
    try:
        if kind == "array":
            var = p.get("variant", "ml")
            a = bits_to_array(ir, name, shape, xs)
            store = list(xs)
            if var == "ml":
                t = ir.Tensor(a, name=tag)
            elif var == "ml_dtype":
                t = ir.Tensor(a, dtype=dt, name=tag)
            elif var == "uint":      # plain unsigned integer array + explicit dtype (non-native types)
                t = ir.Tensor(np.array(xs, dtype=f"uint{max(bw, 8)}").reshape(shape), dtype=dt, name=tag)
            elif var == "int8":      # sign-extended int8 storage for INT4 / INT2
                store = [sext8(x, bw) for x in xs]
                t = ir.Tensor(np.array(store, dtype=np.uint8).view(np.int8).reshape(shape), dtype=dt, name=tag)
            elif var == "fortran":
                t = ir.Tensor(a.copy(order="F"), name=tag)
            elif var == "strided":   # every second element of a larger buffer
                big = np.zeros((max(len(xs), 1) * 2,), dtype=a.dtype)
                big[::2][:len(xs)] = a.reshape(-1)
                t = ir.Tensor(big[::2][:len(xs)].reshape(shape), name=tag)
            elif var == "ir.tensor":
                t = ir.tensor(a, dtype=dt, name=tag)
            elif var == "ir.tensor_nodtype":       # ir.tensor(ndarray) without dtype (rank 0 included)
                t = ir.tensor(a, name=tag)
            elif var in ("np_scalar", "np_scalar_Tensor"):   # a numpy scalar (np.generic): shape must be ()
                sc = a.reshape(())[()]
                if not isinstance(sc, np.generic) or shape:
                    raise AssertionError("harness: not a numpy scalar")
                t = ir.tensor(sc, name=tag) if var == "np_scalar" else ir.Tensor(sc, name=tag)
            elif var in ("byteswapped", "byteswapped_dtype", "byteswapped_ir.tensor"):
                # same values in an array of the non-native byte order: rejected (TypeError) or little-endian bytes
                term = f"(RArray {cdt} {cshape} {nl(store)})"
                sw = a.astype(a.dtype.newbyteorder(">"))
                if sw.dtype.isnative:
                    raise AssertionError("harness: byte-swapped array is native")
                t = (ir.Tensor(sw, name=tag) if var == "byteswapped" else ir.Tensor(sw, dtype=dt, name=tag)
                     if var == "byteswapped_dtype" else ir.tensor(sw, name=tag))
            elif var in ("pylist", "pylist_nodtype"):
                # ir.tensor(python values[, dtype]): store = numpy's direct conversion of the same values (spec["bits"])
                term = f"(RArray {cdt} {cshape} {nl(store)})"
                vals = [py_decode(v) for v in p["values"]]
                t = ir.tensor(nest(vals, shape), dtype=dt if var == "pylist" else None, name=tag)
            elif var == "offset_view":   # contiguous slice in the middle of a larger buffer
                big = np.ones((len(xs) + 5,), dtype=a.dtype)
                big[3:3 + len(xs)] = a.reshape(-1)
                t = ir.Tensor(big[3:3 + len(xs)].reshape(shape), name=tag)
            elif var == "offset_strided":
                big = np.ones((len(xs) * 2 + 3,), dtype=a.dtype)
                big[1::2][:len(xs)] = a.reshape(-1)
                t = ir.Tensor(big[1::2][:len(xs)].reshape(shape), name=tag)
            else:
                raise AssertionError(var)
            return Built(t, f"(RArray {cdt} {cshape} {nl(store)})")
        if kind == "torch":
            import torch
            from onnx_ir import tensor_adapters
            tdt = tensor_adapters.to_torch_dtype(dt)
            ml = str(dt.numpy()).startswith(("bfloat", "float8", "float4", "int4", "uint4", "int2", "uint2"))
            full = (1 << bw) - 1

            def flat(bits):       # 1-D torch tensor holding the given bit patterns
                if ml:
                    return torch.from_numpy(np.array(bits, dtype=f"uint{bw}")).view(tdt)
                return torch.from_numpy(np.ascontiguousarray(bits_to_array(ir, name, [len(bits)], bits)))
            junk = lambda k, salt: [1 if name == "BOOL" else ((0xA5A5A5A5A5A5A5A5A5A5A5A5A5A5A5A5 >> (i + salt) % 7) & full)  # noqa: E731
                                    for i in range(k)]
            n = len(xs)
            var = p.get("variant", "fresh")
            k = p.get("k", 3)
            if var in ("fresh", "ir.tensor"):
                tt = flat(xs).reshape(shape)
            elif var == "noncontig":
                tt = flat(xs).reshape(shape)
                if len(shape) >= 2:
                    tt = tt.transpose(0, 1).contiguous().transpose(0, 1)
            elif var == "view_tail":         # w[k:]  — contiguous view with a non-zero storage offset
                tt = flat(junk(k, 0) + list(xs))[k:].reshape(shape)
            elif var == "view_narrow":       # w.narrow(0, k, n) in the middle of a buffer
                tt = flat(junk(k, 1) + list(xs) + junk(2, 2)).narrow(0, k, n).reshape(shape)
            elif var == "view_row":          # w[i] of a 2-D tensor (0-d element when n == 1 and shape == [])
                rows = k + 2
                base = flat([b for r in range(rows) for b in (list(xs) if r == k else junk(n, r))]).reshape(rows, n)
                tt = base[k].reshape(shape) if shape else base[k][0]
            elif var == "view_split":        # a piece of torch.split
                tt = (torch.split(flat(junk(k, 3) + list(xs)), [k, n])[1] if n else flat(junk(k, 3))[k:]).reshape(shape)
            elif var == "view_strided":      # non-contiguous view with an offset: w[1::2]
                inter = [b for x, jb in zip(xs, junk(n, 4)) for b in (jb, x)]
                tt = flat(junk(1, 5) + inter if not inter else inter)[1::2][:n].reshape(shape) if n else flat(junk(1, 5))[1:].reshape(shape)
            elif var == "view_conj":         # lazily conjugated complex view: storage holds the UNconjugated values
                stor = [x ^ (1 << (bw - 1)) for x in xs]
                tt = flat(stor).reshape(shape).conj()
                if n and not tt.is_conj():
                    raise AssertionError("harness: conj() did not produce a lazy view")
                t = tensor_adapters.TorchTensor(tt, name=tag)
                # RTorchConj: numpy() and tobytes() both give the resolved values (fix c3d2ba2)
                return Built(t, f"(RTorchConj {cdt} {cshape} {nl(stor)})")
            elif var == "view_t_offset":     # transposed view of a buffer region that starts at an offset
                arr = np.array(xs, dtype=object).reshape(shape)
                if len(shape) >= 2:
                    arrT = np.ascontiguousarray(arr.swapaxes(0, 1))
                    tt = flat(junk(k, 6) + [int(v) for v in arrT.reshape(-1)])[k:].reshape(list(arrT.shape)).transpose(0, 1)
                else:
                    tt = flat(junk(k, 6) + list(xs))[k:].reshape(shape)
            else:
                raise AssertionError(var)
            if list(tt.shape) != list(shape):
                raise AssertionError(f"harness: torch view {var} has shape {list(tt.shape)}")
            t = ir.tensor(tt, name=tag) if var == "ir.tensor" else tensor_adapters.TorchTensor(tt, name=tag)
            return Built(t, f"(RTorch {cdt} {cshape} {nl(xs)})")
        if kind == "packed":
            raw = list(p["raw"]) if "raw" in p else list(ref_pack(name, xs))
            term = f"(RPacked {cdt} {cshape} {nl(raw)})"
            if p.get("raw2d"):       # multi-dimensional packed array (known finding packed-2d-raw)
                r2 = np.array(raw, dtype=np.uint8)
                t = ir.PackedTensor(r2.reshape(2, -1) if len(raw) % 2 == 0 and raw else r2.reshape(1, -1), dt, shape=shape, name=tag)
            elif p.get("view"):        # packed bytes are a slice of a larger buffer
                bigp = np.full((len(raw) + 4,), 0xEE, dtype=np.uint8)
                bigp[2:2 + len(raw)] = raw
                t = ir.PackedTensor(bigp[2:2 + len(raw)], dt, shape=shape, name=tag)
            else:
                t = ir.PackedTensor(np.array(raw, dtype=np.uint8), dt, shape=shape, name=tag)
            return Built(t, term)
        if kind == "proto":
            if p["field"] == "helper":      # the ONNX reference encoder builds the proto
                tp = onnx.numpy_helper.from_array(bits_to_array(ir, name, shape, xs), tag)
                fields = {"raw": list(tp.raw_data)} if tp.HasField("raw_data") else None
                if fields is None:
                    raise AssertionError("numpy_helper.from_array did not use raw_data")
            elif p["field"] == "fields":    # explicit (possibly malformed) storage fields
                fields = p["fields"]
                tp = mk_proto(name, shape, fields)
            else:
                fields = proto_fields(spec)
                tp = mk_proto(name, shape, fields)
            tp.name = tag
            if p.get("via") == "ir.tensor":
                t = ir.tensor(tp)
            else:
                t = serde.deserialize_tensor(tp)
            return Built(t, f"(RProto {coq_proto(name, shape, fields)})", keep=tp)
        if kind == "external":
            pre, post = p.get("pre", 0), p.get("post", 0)
            data = bytes(p["data"]) if "data" in p else ref_pack(name, xs)
            content = bytes((37 * i + 11) & 0xFF for i in range(pre)) + data + bytes((91 * i + 5) & 0xFF for i in range(post))
            fn = f"{tag}.bin"
            with open(os.path.join(workdir, fn), "wb") as f:
                f.write(content)
            off = None if p.get("offset_none") else p.get("offset", pre)
            ln = {"none": None, "nbytes": ref_nbytes(name, len(xs))}.get(p.get("length", "none"), p.get("length"))
            if pre > 64 or post > 64:
                cfile = f"(pat 37 11 {pre} ++ {nl(data)} ++ pat 91 5 {post})"
            else:
                cfile = nl(content)
            term = f"(RExternal {cdt} {cshape} {cfile} {copt(off, cN)} {copt(ln, cN)})"
            if p.get("via") == "proto":
                tp = onnx.TensorProto()
                tp.name, tp.data_type = tag, int(dt)
                tp.dims.extend(shape)
                tp.data_location = onnx.TensorProto.EXTERNAL
                for k, v in (("location", fn), ("offset", off), ("length", ln)):
                    if v is not None:
                        e = tp.external_data.add()
                        e.key, e.value = k, str(v)
                t = serde.deserialize_tensor(tp, base_path=workdir)
            else:
                t = ir.ExternalTensor(fn, off, ln, dt, shape=ir.Shape(shape), name=tag, base_dir=workdir)
            return Built(t, term)
        if kind == "lazy":
            inner = build(dict(spec, rep=p["inner"]["rep"], params=p["inner"].get("params", {})), workdir, tag + "i")
            if inner.err is not None:
                return inner
            t = ir.LazyTensor(lambda it=inner.tensor: it, dtype=dt, shape=ir.Shape(shape), cache=bool(p.get("cache")),
                              name=tag)
            return Built(t, f"(RLazy {cdt} {cshape} {inner.term})", keep=inner)
        if kind == "serialized":     # serialize any representation and read the proto back
            inner = build(dict(spec, rep=p["inner"]["rep"], params=p["inner"].get("params", {})), workdir, tag + "i")
            if inner.err is not None:
                return inner
            tp = serde.serialize_tensor(inner.tensor)
            if tp.data_location == onnx.TensorProto.EXTERNAL:
                # external tensors are serialized as references: same file, offset, length
                t = serde.deserialize_tensor(tp, base_path=workdir)
                return Built(t, inner.term, keep=(inner, tp))
            fields = {}
            if tp.HasField("raw_data"):
                fields["raw"] = list(tp.raw_data)
            fields["int32"] = list(tp.int32_data)
            fields["int64"] = list(tp.int64_data)
            fields["uint64"] = list(tp.uint64_data)
            fields["float"] = [struct.unpack("<I", struct.pack("<f", v))[0] for v in tp.float_data]
            fields["double"] = [struct.unpack("<Q", struct.pack("<d", v))[0] for v in tp.double_data]
            t = serde.deserialize_tensor(tp)
            # model side: `serialize inner` must produce exactly this proto (checked by Tie.agree)
            b = Built(t, f"(RProto {coq_proto(name, [int(d) for d in tp.dims], fields)})", keep=(inner, tp))
            b.ser_inner = inner.term
            return b
    except Exception as e:  # noqa: BLE001  construction itself rejected the input
        if locals().get("term") is None:
            raise
        return Built(None, locals().get("term"), err=e)
    raise AssertionError(kind)


DEST_KINDS = ("bytesio", "file", "file-seq", "file-append")


def dest_content(n: int) -> bytes:
    return bytes((13 * i + 7) & 0xFF for i in range(n))


def run_tofile(t, dest: dict, workdir: str):
    """tofile() into a destination; returns ('ok', (content, pos)) or ('raise', name)."""
    kind, n, pos = dest["kind"], dest["len"], dest["pos"]
    init = dest_content(n)
    from onnx_ir import _core
    saved_chunk = _core._EXTERNAL_TENSOR_COPY_CHUNK_SIZE
    if dest.get("chunk"):      # make the userspace copy loop of ExternalTensor.tofile iterate (rebinding, not editing)
        _core._EXTERNAL_TENSOR_COPY_CHUNK_SIZE = dest["chunk"]
    try:
        if kind == "bytesio":
            f = io.BytesIO(init)
            f.seek(pos)
            t.tofile(f)
            return ("ok", (f.getvalue(), f.tell()))
        path = os.path.join(workdir, "dest.bin")
        if kind == "file":
            with open(path, "wb") as f:
                f.write(init)
            with open(path, "r+b") as f:
                f.seek(pos)
                t.tofile(f)
                end = f.tell()
        elif kind == "file-append":   # regular file opened in append mode: every write lands at the end
            with open(path, "wb") as f:
                f.write(init)
            with open(path, "ab") as f:
                t.tofile(f)
                end = f.tell()
        else:   # "file-seq": unflushed buffered data precedes the tensor (how save() writes consecutive tensors)
            with open(path, "wb") as f:
                f.write(init[:pos])
                t.tofile(f)
                end = f.tell()
        with open(path, "rb") as f:
            return ("ok", (f.read(), end))
    except Exception as e:  # noqa: BLE001
        return ("raise", common.exn_name(e))
    finally:
        _core._EXTERNAL_TENSOR_COPY_CHUNK_SIZE = saved_chunk


def dest_model(dest: dict) -> tuple[bytes, int]:
    if dest["kind"] == "file-append":
        return dest_content(dest["len"]), dest["len"]
    if dest["kind"] == "file-seq":
        return dest_content(dest["len"])[:dest["pos"]], dest["pos"]
    return dest_content(dest["len"]), dest["pos"]


def observe(spec: dict, workdir: str) -> dict:
    """Run the implementation on one representation; canonical observations."""
    b = build(spec, workdir)
    obs = {"term": b.term, "ser_inner": b.ser_inner}
    if b.err is not None:
        obs["construct_error"] = common.exn_name(b.err)
        obs["construct_error_text"] = f"{type(b.err).__name__}: {b.err}"[:300]
        return obs
    t = b.tensor
    name = spec["dtype"]
    obs["class"] = type(t).__name__
    obs["dtype"] = int(t.dtype)
    obs["shape"] = [int(d) for d in t.shape.numpy()]
    obs["size"] = int(t.size)

    def attempt(f):
        try:
            return ("ok", f())
        except Exception as e:  # noqa: BLE001
            return ("raise", common.exn_name(e), f"{type(e).__name__}: {e}"[:300])
    obs["nbytes"] = attempt(lambda: int(t.nbytes))

    def np_bits():
        a = t.numpy()
        return {"bits": array_to_bits(a, name), "shape": [int(d) for d in a.shape], "npdtype": str(a.dtype)}
    fresh = (lambda tg: build(spec, workdir, tg).tensor) if spec.get("malformed") else (lambda tg: t)
    # (malformed inputs: one fresh object per accessor, because a failed _load leaves the mmap behind and
    #  later calls then answer differently; the model describes a fresh object.  Well-formed inputs: ONE object,
    #  accessors called in the order given by spec["order"] — the answers must not depend on it.)
    obs["tofile"] = []
    for step in spec.get("order", "ntf"):
        if step == "n":
            obs["numpy"] = attempt(np_bits)
        elif step == "t":
            t2 = fresh("u")
            obs["tobytes"] = attempt(lambda: bytes(t2.tobytes()))
        else:
            for d in spec.get("dests", []):
                obs["tofile"].append(run_tofile(fresh("w"), d, workdir))
    # second reads (caching / mmap state must not change the answer)
    again = attempt(lambda: bytes(t.tobytes()))
    obs["tobytes_again_same"] = again[:2] == obs["tobytes"][:2]
    if hasattr(t, "release"):
        t.release()
    return obs


# =========================================================================== oracle (the property itself)

# dtypes for which onnx.helper.make_tensor rounds Python floats correctly (measured on the clean tree: see docstring)
MAKE_TENSOR_REFERENCE = {"FLOAT16", "BFLOAT16", "FLOAT4E2M1"}


def third_voice(spec: dict, obs: dict, workdir: str) -> list[str]:
    """ONNX reference encoder/decoder against the representation (numeric dtypes onnx supports)."""
    import onnx
    import onnx_ir as ir
    from onnx_ir import serde
    bad = []
    name, xs = spec["dtype"], spec["bits"]
    if obs.get("tobytes", ("raise",))[0] != "ok":
        return bad
    try:
        ref_arr = bits_to_array(ir, name, spec["shape"], xs)
        tp_ref = onnx.numpy_helper.from_array(ref_arr, "r")
    except Exception:  # noqa: BLE001  the reference does not know the dtype
        return bad
    if spec["params"].get("variant") == "pylist" and name in MAKE_TENSOR_REFERENCE and spec["shape"]:
        vals = [py_decode(v) for v in spec["params"]["values"]]
        try:
            mt = onnx.helper.make_tensor("r", int(ir.DataType[name]), list(spec["shape"]), vals)
            dec = array_to_bits(onnx.numpy_helper.to_array(mt), name)
            if obs["numpy"][0] == "ok" and dec != obs["numpy"][1]["bits"]:
                bad.append(f"onnx.helper.make_tensor encodes the same Python values as {dec}, ir.tensor holds {obs['numpy'][1]['bits']}")
        except Exception as e:  # noqa: BLE001
            bad.append(f"ONNX reference encoder rejected the Python values: {type(e).__name__}: {e}"[:200])
    if tp_ref.HasField("raw_data") and tp_ref.raw_data != obs["tobytes"][1]:
        bad.append(f"tobytes() differs from onnx.numpy_helper.from_array(...).raw_data: {obs['tobytes'][1].hex()} vs {tp_ref.raw_data.hex()}")
    # decode our serialization with the reference decoder
    b = build(spec, workdir, "v")
    ext_ref = spec["rep"] == "external" or (spec["rep"] == "serialized" and spec["params"]["inner"]["rep"] == "external")
    if b.err is None and not ext_ref:
        try:
            tp = serde.serialize_tensor(b.tensor)
            dec = onnx.numpy_helper.to_array(tp)
            mask = (1 << BW(name)) - 1
            got = [x & mask for x in array_to_bits(dec, name)]
            if got != [x & mask for x in xs] or list(dec.shape) != list(spec["shape"]):
                bad.append(f"onnx.numpy_helper.to_array(serialize_tensor(t)) decodes {got} shape {list(dec.shape)}")
        except Exception as e:  # noqa: BLE001
            bad.append(f"ONNX reference decoder rejected the serialized tensor: {type(e).__name__}: {e}"[:200])
        if hasattr(b.tensor, "release"):
            b.tensor.release()
    return bad


def oracle(spec: dict, obs: dict) -> list[str]:
    """Property C04 for ONE representation built from well-formed logical data (dtype, shape, bits): it must
    report the dtype/shape, equal element values, the reference little-endian packed bytes from tobytes() and
    tofile(), of length ceil(size*bw/8).  Pairwise agreement follows from agreement with the reference."""
    import onnx_ir as ir
    if spec.get("malformed"):
        return []
    bad = []
    name, shape, xs = spec["dtype"], list(spec["shape"]), spec["bits"]
    bw = BW(name)
    mask = (1 << bw) - 1
    if "construct_error" in obs:
        if spec.get("may_reject") and obs["construct_error"] == spec["may_reject"]:
            return []      # an accepted rejection (e.g. non-native byte order); if accepted, everything below applies
        return [f"construction raised {obs['construct_error_text']}"]
    if obs["dtype"] != int(ir.DataType[name]):
        bad.append(f"dtype {obs['dtype']} != {int(ir.DataType[name])}")
    if obs["shape"] != shape:
        bad.append(f"shape {obs['shape']} != {shape}")
    want = ref_pack(name, xs)
    nb = ref_nbytes(name, len(xs))
    if obs["nbytes"] != ("ok", nb):
        bad.append(f"nbytes {obs['nbytes'][:2]} != ceil(size*bw/8) = {nb}")
    if obs["numpy"][0] != "ok":
        bad.append(f"numpy() raised {obs['numpy'][2]}")
    else:
        got = [x & mask for x in obs["numpy"][1]["bits"]]
        if got != [x & mask for x in xs]:
            bad.append(f"numpy() elements {got} != {xs}")
        if obs["numpy"][1]["shape"] != shape:
            bad.append(f"numpy().shape {obs['numpy'][1]['shape']} != {shape}")
        if obs["numpy"][1]["npdtype"] != str(ir.DataType[name].numpy()):
            bad.append(f"numpy().dtype {obs['numpy'][1]['npdtype']} != {ir.DataType[name].numpy()}")
    if obs["tobytes"][0] != "ok":
        bad.append(f"tobytes() raised {obs['tobytes'][2]}")
    else:
        if obs["tobytes"][1] != want:
            bad.append(f"tobytes() {obs['tobytes'][1].hex()} != reference {want.hex()}")
        if len(obs["tobytes"][1]) != nb:
            bad.append(f"len(tobytes()) {len(obs['tobytes'][1])} != nbytes {nb}")
    if not obs.get("tobytes_again_same", True):
        bad.append("second tobytes() differs from the first")
    for d, r in zip(spec.get("dests", []), obs["tofile"]):
        init, pos = dest_model(d)
        if r[0] != "ok":
            bad.append(f"tofile({d}) raised {r[1]}")
            continue
        if not want:
            exp, epos = init, pos
        else:
            exp = init[:pos] + bytes(max(0, pos - len(init))) + want + init[pos + len(want):]
            epos = pos + len(want)
        if r[1][0] != exp:
            bad.append(f"tofile({d}) left {r[1][0].hex()} expected {exp.hex()}")
        if r[1][1] != epos:
            bad.append(f"tofile({d}) left the position at {r[1][1]} expected {epos}")
    return bad


# =========================================================================== generators

FLOATS = {"FLOAT": (8, 23), "DOUBLE": (11, 52), "FLOAT16": (5, 10), "BFLOAT16": (8, 7), "FLOAT8E4M3FN": (4, 3),
          "FLOAT8E4M3FNUZ": (4, 3), "FLOAT8E5M2": (5, 2), "FLOAT8E5M2FNUZ": (5, 2), "FLOAT8E8M0": (8, 0),
          "FLOAT4E2M1": (2, 1)}


def special_values(name: str) -> list[int]:
    """extremes, all-ones, sign bit, NaN / Inf / signalling-NaN / subnormal patterns"""
    bw = BW(name)
    full = (1 << bw) - 1
    if name == "BOOL":
        return [0, 1]
    out = [0, full, 1, 1 << (bw - 1), (1 << (bw - 1)) - 1, full - 1]
    if name in FLOATS:
        e, m = FLOATS[name]
        emask = ((1 << e) - 1) << m
        out += [emask, emask | (1 << (bw - 1)) if e + m < bw else emask,      # +-Inf (or max/NaN encodings)
                emask | 1, emask | (1 << max(m - 1, 0)), emask | ((1 << m) - 1),  # sNaN, qNaN, NaN all-ones mantissa
                1 << max(m - 1, 0), (1 << m) if m else 1]                         # subnormal, smallest normal
    if name.startswith("COMPLEX"):
        w = bw // 2
        e, m = (8, 23) if w == 32 else (11, 52)
        nan = (((1 << e) - 1) << m) | 1
        inf = ((1 << e) - 1) << m
        out += [nan, nan << w, (nan << w) | inf, (inf << w) | (1 << (w - 1))]
    return [x & full for x in out]


def gen_bits(rng, name: str, n: int, mode: str) -> list[int]:
    bw = BW(name)
    full = (1 << bw) - 1
    sp = special_values(name)
    if name == "BOOL":
        return [rng.randrange(2) if mode != "ones" else 1 for _ in range(n)]
    if mode == "ones":
        return [full] * n
    if mode == "zeros":
        return [0] * n
    if mode == "special":
        return [sp[(i + rng.randrange(len(sp))) % len(sp)] for i in range(n)]
    if mode == "count":       # position-revealing: element i holds i+1 (mod range); shows reordering/shifts
        return [(i + 1) & full for i in range(n)]
    return [rng.choice(sp) if rng.random() < 0.15 else rng.getrandbits(bw) for _ in range(n)]


def shapes_for(rng, n: int) -> list[list[int]]:
    """shapes with exactly n elements: scalar, vectors, rank <= 5, with unit dims, empty with rank"""
    if n == 0:
        return [[0], [0, 3], [2, 0, 5], [1, 0, 1, 0, 2]]
    out = [[n]]
    if n == 1:
        out += [[], [1, 1], [1, 1, 1, 1, 1]]
    fac = [d for d in range(2, n) if n % d == 0]
    if fac:
        d = rng.choice(fac)
        out.append([d, n // d])
        out.append([1, n // d, 1, d])
        rest = n // d
        f2 = [e for e in range(2, rest) if rest % e == 0]
        if f2:
            e = rng.choice(f2)
            out.append([d, e, rest // e])
            out.append([d, 1, e, rest // e, 1])
    else:
        out.append([1, n, 1])
        out.append([n, 1, 1, 1, 1])
    return out


def rep_variants(name: str) -> list[tuple[str, dict]]:
    """every (representation, storage field / variant) that is legal for the dtype"""
    import onnx_ir as ir
    bw = BW(name)
    ps = proto_sets()
    t = tables()
    non_native = {n for n, v in t["members"] if v in t["non_native"]}
    out = [("array", {"variant": "ml"}), ("array", {"variant": "ml_dtype", "light": True}), ("array", {"variant": "fortran", "light": True}),
           ("array", {"variant": "strided", "light": True}), ("array", {"variant": "ir.tensor", "light": True}),
           ("array", {"variant": "offset_view", "light": True}), ("array", {"variant": "offset_strided", "light": True})]
    if name in non_native:
        out.append(("array", {"variant": "uint"}))
    if name in ("INT4", "INT2"):
        out.append(("array", {"variant": "int8"}))
    if bw < 8:
        out.append(("packed", {}))
        out.append(("packed", {"view": True, "light": True}))
        out.append(("packed", {"raw2d": True, "light": True, "even_bytes": True}))
    out.append(("proto", {"field": "raw"}))
    out.append(("proto", {"field": "raw", "via": "ir.tensor", "light": True}))
    out.append(("proto", {"field": "helper", "light": True}))
    if name in ps["pn_int32"]:
        out += [("proto", {"field": "int32", "ext": "zero", "light": True}), ("proto", {"field": "int32", "ext": "sign"})]
        if bw < 32:
            out.append(("proto", {"field": "int32", "ext": "high", "light": True}))
    if name in ps["pn_int64"]:
        out.append(("proto", {"field": "int64"}))
    if name in ps["pn_uint64"]:
        out.append(("proto", {"field": "uint64"}))
        if bw == 32:
            out.append(("proto", {"field": "uint64", "ext": "high"}))
    if name in ps["pn_float"]:
        out.append(("proto", {"field": "float"}))
    if name in ps["pn_double"]:
        out.append(("proto", {"field": "double"}))
    out += [("external", {"pre": 0, "post": 0, "offset_none": True}),
            ("external", {"pre": 0, "post": 0, "length": "nbytes", "light": True}),
            ("external", {"pre": 5, "post": 0}),                       # data ends exactly at end of file
            ("external", {"pre": 3, "post": 4, "length": "nbytes", "via": "proto", "light": True}),
            ("external", {"pre": 600, "post": 1, "light": True})]
    try:
        from onnx_ir import tensor_adapters
        tensor_adapters.to_torch_dtype(ir.DataType[name])
        if bw >= 8:
            out += [("torch", {}), ("torch", {"variant": "ir.tensor", "light": True}), ("torch", {"variant": "noncontig", "light": True}),
                    ("torch", {"variant": "view_tail", "k": 3, "light": True}), ("torch", {"variant": "view_narrow", "k": 5, "light": True}),
                    ("torch", {"variant": "view_row", "k": 2, "light": True}), ("torch", {"variant": "view_split", "k": 4, "light": True}),
                    ("torch", {"variant": "view_strided", "light": True}), ("torch", {"variant": "view_t_offset", "k": 1, "light": True})]
            if name.startswith("COMPLEX"):
                out.append(("torch", {"variant": "view_conj", "light": True}))
    except Exception:  # noqa: BLE001
        pass
    out += [("lazy", {"inner": {"rep": "array", "params": {"variant": "ml"}}, "cache": False}),
            ("lazy", {"inner": {"rep": "external", "params": {"pre": 2, "post": 0}}, "cache": True, "light": True}),
            ("lazy", {"inner": {"rep": "proto", "params": {"field": "raw"}}, "cache": False, "light": True}),
            ("lazy", {"inner": {"rep": "external", "params": {"pre": 4097, "post": 0}}, "cache": False, "light": True}),
            ("serialized", {"inner": {"rep": "array", "params": {"variant": "ml"}}}),
            ("serialized", {"inner": {"rep": "external", "params": {"pre": 1, "post": 1}}, "light": True})]
    if bw < 8:
        out += [("lazy", {"inner": {"rep": "packed", "params": {}}, "cache": True, "light": True}),
                ("serialized", {"inner": {"rep": "packed", "params": {}}})]
    if name in ps["pn_int32"]:
        out.append(("serialized", {"inner": {"rep": "proto", "params": {"field": "int32", "ext": "sign"}}, "light": True}))
    return out


def gen_dests(rng, nbytes: int, full: bool) -> list[dict]:
    out = []
    kinds = DEST_KINDS if full else (rng.choice(DEST_KINDS),)
    for k in kinds:
        n = rng.choice([0, 3, nbytes + 6, 2 * nbytes + 9])
        pos = rng.choice([0, 1, n // 2, n, n + 2]) if k != "file-seq" else rng.choice([0, 1, n])
        if k == "file-seq":
            pos = min(pos, n)
        out.append({"kind": k, "len": n, "pos": pos, "chunk": rng.choice([None, None, 1, 3, 4])})
    return out


ORDERS = ["ntf", "tnf", "fnt", "tfn", "nft", "ftn"]
BIG_OFFSETS = [4095, 4096, 4097, 8192, 12289, 65535, 65536, 65537, 131072 + 4096]


def gen_wellformed(ck) -> list[dict]:
    """dtype x size 0..9 (exhaustive) x representation/storage field x (shape, values, destination sampled)"""
    rng = ck.rng
    specs = []
    modes = ["random", "special", "ones", "count", "random"]
    for rnd in range(1 if not ck.thorough else 4):      # thorough: the grid again with other shapes/values/destinations
        for name in NUMERIC():
            variants = rep_variants(name)
            for n in range(10 if rnd == 0 else 18):
                for vi, (rep, params) in enumerate(variants):
                    if params.get("light") and not ck.thorough and (n + vi) % 3:
                        continue
                    if params.get("even_bytes") and (ref_nbytes(name, n) % 2 or n == 0):
                        continue
                    shape = rng.choice(shapes_for(rng, n))
                    mode = modes[(n + vi + rnd) % len(modes)]
                    xs = gen_bits(rng, name, n, mode)
                    specs.append({"dtype": name, "shape": shape, "bits": xs, "rep": rep, "params": params,
                                  "order": ORDERS[(n + vi + rnd) % len(ORDERS)],
                                  "dests": gen_dests(rng, ref_nbytes(name, n), full=(n in (0, 5)))})
        # external data deep inside a file: around page / allocation-granularity boundaries, at end of file or not,
        # every entry point first
        far_names = NUMERIC() if ck.thorough else rng.sample(NUMERIC(), 4)
        for name in NUMERIC():
            for oi, off in enumerate(BIG_OFFSETS):
                if off > 20000 and name not in far_names:
                    continue            # quick tier: the far offsets (cost grows with the prefix) on 4 dtypes per run
                n = rng.choice([1, 2, 3, 5, 8, 9]) if oi % 4 else rng.choice([1, 7])
                for order in ((ORDERS if ck.thorough else ORDERS[rnd % 2::2]) if off == 4096 else [ORDERS[(oi + rnd) % len(ORDERS)]]):
                    params = {"pre": off + rng.choice([0, 0, 1, 13]) if oi % 3 == 2 else off,
                              "post": rng.choice([0, 0, 3]), "length": rng.choice(["none", "nbytes"]),
                              "via": rng.choice([None, "proto"])}
                    specs.append({"dtype": name, "shape": rng.choice(shapes_for(rng, n)), "bits": gen_bits(rng, name, n, "random"),
                                  "rep": "external", "params": params, "order": order,
                                  "dests": gen_dests(rng, ref_nbytes(name, n), full=False)})
    n_rand = 100 if not ck.thorough else 2500
    names = NUMERIC()
    for _ in range(n_rand):
        name = rng.choice(names)
        n = rng.choice([10, 11, 13, 16, 17, 31, 64, 97, 255, 256, 300]) if rng.random() < 0.8 else rng.randrange(10, 400)
        rep, params = rng.choice(rep_variants(name))
        if params.get("even_bytes") and (ref_nbytes(name, n) % 2 or n == 0):
            rep, params = "packed", {}
        if rep == "external" and rng.random() < 0.5:
            params = dict(params, pre=rng.choice(BIG_OFFSETS[:5] + [rng.randrange(0, 20000 if not ck.thorough else 200000)]),
                          post=rng.choice([0, 1, 5000]))
            params.pop("offset_none", None)
        specs.append({"dtype": name, "shape": rng.choice(shapes_for(rng, n)), "bits": gen_bits(rng, name, n, rng.choice(modes)),
                      "rep": rep, "params": params, "order": rng.choice(ORDERS),
                      "dests": gen_dests(rng, ref_nbytes(name, n), full=False)})
    return specs


def bits_to_pyvalues(ir, name: str, xs: list[int]) -> list:
    """Python scalars holding the values of the bit patterns (NaNs replaced by 1.0: tolist() loses payloads)."""
    import math
    vals = bits_to_array(ir, name, [len(xs)], xs).tolist()
    out = []
    for v in vals:
        if isinstance(v, complex) and (math.isnan(v.real) or math.isnan(v.imag)):
            v = complex(1.0, -2.0)
        elif isinstance(v, float) and math.isnan(v):
            v = 1.0
        out.append(v)
    return out


def adversarial_floats(rng, ir, name: str, count: int) -> list[float]:
    """Python floats (doubles) around the rounding decisions of a narrow float type: midpoints of neighbouring
    representable values and the doubles next to them, the overflow threshold, half the smallest subnormal,
    plus ordinary and exactly representable numbers."""
    import math

    import numpy as np
    bw = BW(name)
    npdt = ir.DataType[name].numpy()
    allv = sorted({float(v) for v in np.arange(1 << bw, dtype=f"uint{bw}").view(npdt).astype(np.float64)
                   if math.isfinite(float(v))}) if bw <= 16 else []
    out = [0.0, -0.0, 1.0, -2.5, 0.1, 3.14159, float("inf"), -float("inf"), 1e-3, 123456.789]
    if allv:
        pos = [v for v in allv if v > 0]
        mx, mn = allv[-1], pos[0]
        step = mx - allv[-2]
        thr = mx + step / 2                       # overflow threshold of round-to-nearest
        out += [mx, thr, math.nextafter(thr, 0.0), math.nextafter(thr, math.inf), -math.nextafter(thr, 0.0),
                mn, mn / 2, math.nextafter(mn / 2, 1.0), math.nextafter(mn / 2, 0.0), mn / 2 + 2.0 ** -60 if mn > 2.0 ** -40 else mn * 0.75,
                mn * 1.5, math.nextafter(mn * 1.5, 1.0), math.nextafter(mn * 1.5, 0.0)]
        while len(out) < count:
            i = rng.randrange(len(allv) - 1)
            a, b = allv[i], allv[i + 1]
            mid = (a + b) / 2                     # exact in double for these formats
            sgn = rng.choice([1.0, 1.0, -1.0])
            out += [sgn * mid, sgn * math.nextafter(mid, math.inf), sgn * math.nextafter(mid, -math.inf),
                    sgn * (mid + (b - a) * 2.0 ** -30), sgn * (mid - (b - a) * 2.0 ** -30), a]
    rng.shuffle(out)
    return out[:count]


def gen_pyvalues(ck) -> list[dict]:
    """ir.tensor(python values[, dtype]) — one of the property's observe points — and arrays of the non-native byte order"""
    import onnx_ir as ir
    rng = ck.rng
    specs = []
    modes = ["count", "random", "special"]
    reps = 1 if not ck.thorough else 6
    for name in NUMERIC():
        bw = BW(name)
        for r in range(reps):
            # (a) Python values of every dtype, scalar / flat / nested, explicit dtype
            for n in ((0, 1, 4, 6) if r == 0 else (rng.randrange(1, 12),)):
                xs = gen_bits(rng, name, n, modes[(n + r) % 3])
                vals = bits_to_pyvalues(ir, name, xs)
                shape = rng.choice(shapes_for(rng, n)) if n else [0]
                specs.append({"dtype": name, "shape": shape, "bits": pylist_reference_bits(ir, name, vals, shape), "rep": "array",
                              "params": {"variant": "pylist", "values": [py_encode(v) for v in vals]},
                              "order": rng.choice(ORDERS), "dests": gen_dests(rng, ref_nbytes(name, n), full=False)})
            # (a') rank-0 numpy arrays and numpy scalars through ir.tensor() / ir.Tensor(): shape must stay ()
            for var in ("ir.tensor", "ir.tensor_nodtype", "np_scalar", "np_scalar_Tensor", "ml", "fortran", "strided"):
                specs.append({"dtype": name, "shape": [], "bits": gen_bits(rng, name, 1, modes[r % 3]), "rep": "array",
                              "params": {"variant": var}, "order": rng.choice(ORDERS),
                              "dests": gen_dests(rng, ref_nbytes(name, 1), full=False)})
            # (b) narrow float types: doubles next to every kind of rounding decision
            if name in FLOATS and bw < 32:
                for _ in range(4):
                    vals = adversarial_floats(rng, ir, name, 16)
                    shape = rng.choice([[16], [4, 4], [2, 2, 4]])
                    specs.append({"dtype": name, "shape": shape, "bits": pylist_reference_bits(ir, name, vals, shape), "rep": "array",
                                  "params": {"variant": "pylist", "values": [py_encode(v) for v in vals], "adversarial": True},
                                  "order": rng.choice(ORDERS), "dests": gen_dests(rng, ref_nbytes(name, 16), full=False)})
            # (c) arrays in the non-native byte order: either rejected with TypeError or little-endian bytes
            if bw >= 16 and not str(ir.DataType[name].numpy()).startswith(("bfloat", "float8")):
                for var in ("byteswapped", "byteswapped_dtype", "byteswapped_ir.tensor"):
                    n = rng.choice([1, 2, 3, 7])
                    specs.append({"dtype": name, "shape": rng.choice(shapes_for(rng, n)), "bits": gen_bits(rng, name, n, "count" if r == 0 else "random"),
                                  "rep": "array", "params": {"variant": var}, "may_reject": "TypeError",
                                  "order": rng.choice(ORDERS), "dests": gen_dests(rng, ref_nbytes(name, n), full=False)})
    # (d) default dtypes of ir.tensor: ints -> INT64, floats -> FLOAT, bools -> BOOL
    for name, mk in (("INT64", lambda: rng.randrange(-2 ** 63, 2 ** 63)), ("FLOAT", lambda: rng.choice([0.1, -2.5, 1e30, 1 + 2.0 ** -24 + 2.0 ** -50, 3.0e38 * 1.2, 1e-46])),
                     ("BOOL", lambda: rng.random() < 0.5)):
        for n in (1, 3, 6):
            vals = [mk() for _ in range(n)]
            shape = [n]        # the default dtype is chosen for scalars and FLAT sequences only (documented)
            specs.append({"dtype": name, "shape": shape, "bits": pylist_reference_bits(ir, name, vals, shape), "rep": "array",
                          "params": {"variant": "pylist_nodtype", "values": [py_encode(v) for v in vals]},
                          "order": rng.choice(ORDERS), "dests": []})
    return specs



def gen_malformed(ck) -> list[dict]:
    """inputs outside the well-formed domain: the model must still predict what the code does (errors,
    numpy's resize zero-fill / truncation, pass-through of padding bits, conflicting storage fields)"""
    rng = ck.rng
    out = []
    names = NUMERIC()
    sub = [n for n in names if BW(n) < 8]
    ps = proto_sets()
    reps = 8 if not ck.thorough else 120
    for _ in range(reps):
        # packed bytes with non-zero padding bits / wrong byte count
        name = rng.choice(sub)
        n = rng.randrange(0, 12)
        nb = ref_nbytes(name, n)
        raw = [rng.randrange(256) for _ in range(nb)]
        xs = [0] * n
        for field in ("packed", "proto", "external"):
            params = {"packed": {"raw": raw}, "proto": {"field": "fields", "fields": {"raw": raw}},
                      "external": {"data": raw, "pre": rng.randrange(3), "post": rng.randrange(3)}}[field]
            out.append({"dtype": name, "shape": [n], "bits": xs, "rep": field, "params": params, "malformed": "padding-bits",
                        "dests": gen_dests(rng, nb, False)})
        delta = rng.choice([-2, -1, 1, 2, 5])
        raw2 = [rng.randrange(256) for _ in range(max(0, nb + delta))]
        out.append({"dtype": name, "shape": [n], "bits": xs, "rep": "packed", "params": {"raw": raw2}, "malformed": "packed-size"})
        out.append({"dtype": name, "shape": [n], "bits": xs, "rep": "proto", "params": {"field": "fields", "fields": {"raw": raw2}},
                    "malformed": "raw-size-subbyte"})
        out.append({"dtype": name, "shape": [n], "bits": xs, "rep": "proto",
                    "params": {"field": "fields", "fields": {"int32": [rng.randrange(-300, 300) for _ in range(max(0, nb + delta))]}},
                    "malformed": "int32-size-subbyte"})
        # raw_data of the wrong length for whole-byte dtypes
        name = rng.choice([x for x in names if BW(x) >= 8])
        n = rng.randrange(0, 6)
        nb = ref_nbytes(name, n)
        raw3 = [rng.randrange(256) for _ in range(max(0, nb + rng.choice([-1, 1, BW(name) // 8, -(BW(name) // 8)])))]
        out.append({"dtype": name, "shape": [n], "bits": [0] * n, "rep": "proto", "params": {"field": "fields", "fields": {"raw": raw3}},
                    "malformed": "raw-size"})
        # a storage field the dtype may not use, or two fields at once
        name = rng.choice(names)
        n = rng.randrange(1, 5)
        f1, f2 = rng.sample(["int32", "int64", "uint64", "float", "double"], 2)
        mk = lambda f: [rng.randrange(0, 200) for _ in range(n * (2 if name.startswith("COMPLEX") and f in ("float", "double") else 1))]  # noqa: E731
        out.append({"dtype": name, "shape": [n], "bits": [0] * n, "rep": "proto", "params": {"field": "fields", "fields": {f1: mk(f1)}},
                    "malformed": "field-not-allowed"})
        out.append({"dtype": name, "shape": [n], "bits": [0] * n, "rep": "proto",
                    "params": {"field": "fields", "fields": {f1: mk(f1), f2: mk(f2)}}, "malformed": "two-fields"})
        out.append({"dtype": name, "shape": [n + 1], "bits": [0] * (n + 1), "rep": "proto",
                    "params": {"field": "fields", "fields": {}}, "malformed": "no-data"})
        # external: file too short, offset beyond the end, explicit length different from nbytes, empty file
        name = rng.choice(names)
        n = rng.randrange(1, 9)
        nb = ref_nbytes(name, n)
        data = [rng.randrange(256) for _ in range(nb)]
        cut = rng.randrange(0, nb)
        out.append({"dtype": name, "shape": [n], "bits": [0] * n, "rep": "external", "malformed": "short-file",
                    "params": {"data": data[:cut], "pre": rng.randrange(3), "post": 0}, "dests": gen_dests(rng, nb, False)})
        out.append({"dtype": name, "shape": [n], "bits": [0] * n, "rep": "external", "malformed": "offset-past-end",
                    "params": {"data": data, "pre": 0, "post": 0, "offset": nb + rng.randrange(0, 3)}})
        out.append({"dtype": name, "shape": [n], "bits": [0] * n, "rep": "external", "malformed": "length-differs",
                    "params": {"data": data, "pre": 1, "post": 7, "length": max(0, nb + rng.choice([-1, 1, 3]))},
                    "dests": gen_dests(rng, nb, False)})
    return out


# =========================================================================== case files (model run inside Coq)

CASE_HEADER = """From Coq Require Import NArith ZArith List Bool.
From IRV Require Import Base.Exn Gen.C04Gen C04.Model C04.Tie.
Import ListNotations.
Open Scope N_scope.
"""


def _res(o, f) -> str:
    return f"(Ok {f(o[1])})" if o[0] == "ok" else f"(Raise {o[1]})"


def case_term(spec: dict, obs: dict) -> str:
    import onnx_ir as ir
    nl = lambda v: clist(cN(x) for x in v)  # noqa: E731
    if "construct_error" in obs:
        e = obs["construct_error"]
        return (f"(mkcase {obs['term']} false 0 [] (Raise {e}) (Raise {e}) (Raise {e}) [] None None)")
    tf = []
    for d, r in zip(spec.get("dests", []), obs["tofile"]):
        init, pos = dest_model(d)
        rr = f"(Ok (mkdest {nl(r[1][0])} {cN(r[1][1])}))" if r[0] == "ok" else f"(Raise {r[1]})"
        tf.append(f"(mkdest {nl(init)} {cN(pos)}, {rr})")
    logical = "None" if spec.get("malformed") or spec.get("no_spec_check") else f"(Some {nl(spec['bits'])})"
    return "(mkcase %s true %s %s %s %s %s %s %s %s)" % (
        obs["term"], cN(obs["dtype"]), nl(obs["shape"]), _res(obs["nbytes"], cN),
        _res(obs["numpy"], lambda v: nl(v["bits"])), _res(obs["tobytes"], lambda b: nl(b)),
        clist(tf), "None" if not obs.get("ser_inner") else f"(Some {obs['ser_inner']})", logical)


DEFERRED: list = []      # (tag, text, callback(list of failing indices)) — small case files of the side streams


def deferred_failing(ck, text: str, tag: str, callback, errname: str) -> None:
    DEFERRED.append((tag, text, callback, errname))


def correspondence(ck, cases: list[tuple[dict, dict]], tag: str) -> list[int]:
    """indices of `cases` where the model (evaluated by Coq) and the implementation's observations disagree"""
    per = 250
    files = []
    for k in range(0, len(cases), per):
        chunk = cases[k:k + per]
        text = CASE_HEADER + "Definition cases : list case :=\n  " + ";\n  ".join(
            case_term(s, o) for s, o in chunk).join(["[", "]"]) + ".\nEval vm_compute in (failing agree cases).\n"
        files.append((f"{tag}_{k // per}", text))
    import concurrent.futures as cf
    extra = list(DEFERRED)
    del DEFERRED[:]
    with cf.ThreadPoolExecutor(max_workers=4) as ex:      # at most 4 cores
        allres = list(ex.map(lambda f: ck.coq_eval(f[1], f[0], 900), [(t_, x_) for t_, x_, _, _ in extra] + files))
    for (t_, _, cb, errname), (rc, out) in zip(extra, allres[:len(extra)]):
        if rc != 0:
            ck.broken(errname, f"case file {t_} did not compile:\n{out[-2000:]}")
        else:
            cb(common.parse_nat_list(out))
    results = allres[len(extra):]
    bad = []
    for (tg, _), (rc, out), k in zip(files, results, range(0, len(cases), per)):
        if rc != 0:
            raise RuntimeError(f"case file {tg} did not compile:\n{out[-3000:]}")
        bad += [k + i for i in common.parse_nat_list(out)]
    return bad



# =========================================================================== string tensors

STRING_KINDS = ("list", "obj", "S", "proto", "deser", "ir.tensor", "ctor-flat", "ctor-nested", "ctor-bytes", "ctor-dtype")


def observe_string(kind: str, shape, ss: list[bytes]) -> dict:
    import numpy as np
    import onnx
    import onnx_ir as ir
    from onnx_ir import serde
    nl = lambda v: clist(cN(x) for x in v)  # noqa: E731
    sl = clist(nl(x) for x in ss)
    csh = clist(cN(d) for d in shape)
    if kind.startswith("ctor-"):
        # onnx_ir.tensor(python strings / bytes): must give a serializable STRING tensor holding the utf-8 bytes
        term = f"(SBytesArray {csh} {sl})"
        try:
            strs = [x.decode("utf-8") for x in ss]
            if kind == "ctor-bytes":
                t = ir.tensor(nest(list(ss), list(shape)))
            elif kind == "ctor-dtype":
                t = ir.tensor(nest(strs, list(shape)), dtype=ir.DataType.STRING)
            else:
                t = ir.tensor(nest(strs, list(shape)))
            tp = serde.serialize_tensor(t)
            if list(tp.string_data) != [bytes(x) for x in t.string_data()] or tp.data_type != 8 or list(tp.dims) != list(shape):
                return {"term": term, "error": f"serialized proto holds {list(tp.string_data)} dims {list(tp.dims)} type {tp.data_type}"}
        except Exception as e:  # noqa: BLE001
            return {"term": term, "error": f"{type(e).__name__}: {e}"[:200]}
    elif kind == "list":
        t, term = ir.StringTensor(list(ss), shape=ir.Shape(shape)), f"(SList {csh} {sl})"
    elif kind == "obj":
        a = np.empty(len(ss), dtype=object)
        a[:] = ss
        t, term = ir.StringTensor(a.reshape(shape)), f"(SObjArray {csh} {sl})"
    elif kind == "S":
        t, term = ir.StringTensor(np.array(ss, dtype=np.bytes_).reshape(shape)), f"(SBytesArray {csh} {sl})"
    else:
        tp = onnx.TensorProto()
        tp.data_type = onnx.TensorProto.STRING
        tp.dims.extend(shape)
        tp.string_data.extend(ss)
        if kind == "proto":
            t, term = serde.TensorProtoTensor(tp), f"(SProto {csh} {sl})"
        elif kind == "deser":
            t, term = serde.deserialize_tensor(tp), f"(SList {csh} {sl})"
        else:   # "ir.tensor": round trip through serialize_tensor of an object-array tensor
            a = np.empty(len(ss), dtype=object)
            a[:] = ss
            t = serde.deserialize_tensor(serde.serialize_tensor(ir.StringTensor(a.reshape(shape))))
            term = f"(SList {csh} {sl})"
    arr = t.numpy()
    np_elems = [bytes(x) for x in np.asarray(arr).reshape(-1).tolist()]
    if kind == "proto":
        data = list(tp.string_data)
        nbytes = sum(len(x) for x in data)
    else:
        data = [bytes(x) for x in t.string_data()]
        nbytes = int(t.nbytes)
    try:
        t.tobytes()
        tob = "ok"
    except Exception as e:  # noqa: BLE001
        tob = common.exn_name(e)
    return {"term": term, "numpy": np_elems, "data": data, "nbytes": nbytes, "dtype": int(t.dtype),
            "shape": [int(d) for d in t.shape.numpy()], "np_shape": list(np.asarray(arr).shape), "tobytes": tob}


def oracle_string(kind, shape, ss, obs) -> list[str]:
    bad = []
    if "error" in obs:
        return [f"ir.tensor(...) / serialize_tensor raised or lost data: {obs['error']}"]
    if kind == "S" or kind.startswith("ctor-"):
        # the caller's own numpy 'S' array is the logical data (numpy already dropped trailing NULs in it)
        import numpy as np
        ss = [bytes(x) for x in np.array(list(ss), dtype=np.bytes_).tolist()] if ss else []
    if obs["dtype"] != 8:
        bad.append("dtype is not STRING")
    if obs["shape"] != list(shape) or obs["np_shape"] != list(shape):
        bad.append(f"shape {obs['shape']} / numpy shape {obs['np_shape']} != {list(shape)}")
    if obs["numpy"] != list(ss):
        bad.append(f"numpy() elements {obs['numpy']} != {list(ss)}")
    if obs["data"] != list(ss):
        bad.append(f"string_data() {obs['data']} != {list(ss)}")
    if obs["nbytes"] != sum(len(x) for x in ss):
        bad.append(f"nbytes {obs['nbytes']} != {sum(len(x) for x in ss)}")
    return bad


def string_cases(ck):
    rng = ck.rng
    cases = []
    alphabet = [b"", b"a", b"bb", b"\xff\xfe", b"x\x00y", b"caf\xc3\xa9", b"0123456789" * 3]
    nul = [b"a\x00", b"\x00", b"zz\x00\x00"]
    for kind in STRING_KINDS:
        for n in (0, 1, 2, 3, 6):
            for with_nul in (False, True):
                if with_nul and n == 0:
                    continue
                ss = [rng.choice(alphabet) for _ in range(n)]
                if kind.startswith("ctor-"):
                    if n == 0:
                        continue
                    ss = [rng.choice([b"a", b"bb", b"caf\xc3\xa9", b"xyz", b"q"]) for _ in range(n)]
                if with_nul:
                    ss[rng.randrange(n)] = rng.choice(nul)
                if kind == "S" and n and all(len(x) == 0 for x in ss):
                    ss[0] = b"q"     # numpy cannot make an 'S0' array
                shape = rng.choice(shapes_for(rng, n))
                if kind == "ctor-nested":
                    shape = [n, 1] if n > 1 else [1, 1]
                elif kind.startswith("ctor-") and not shape:
                    shape = [1]
                cases.append((kind, shape, ss, with_nul))
    return cases


def is_known_string(kind, ss, bad) -> bool:
    """site of known finding string-trailing-nul: an element ending in NUL, numpy() only"""
    return (any(x.endswith(b"\x00") for x in ss) and all(b.startswith("numpy() elements") for b in bad)
            and kind in ("list", "proto", "deser", "ir.tensor"))


# =========================================================================== the check

def _kind_of(msg: str) -> str:
    return msg.split("(")[0].split(" ")[0]


def shrink(spec: dict, workdir: str, fails) -> dict:
    """greedy: fewer elements (flat shape), fewer destinations; a candidate counts only if it fails in the same way
    as the original (same accessor), so a shrunk replay never shows a different, accidental failure"""
    import onnx_ir as ir
    cur = json.loads(json.dumps(spec))
    try:
        want = {_kind_of(b) for b in check_spec(cur, workdir)[1]} - {"construction"}
    except Exception:  # noqa: BLE001
        want = set()

    def same(c2) -> bool:
        try:
            got = {_kind_of(b) for b in check_spec(c2, workdir)[1]}
        except Exception:  # noqa: BLE001
            return False
        return bool(got & want) if want else bool(got)

    def cut(c, k):
        c2 = dict(c, shape=[k])
        if c["params"].get("variant") in ("pylist", "pylist_nodtype"):
            vals = c["params"]["values"][:k]
            c2["params"] = dict(c["params"], values=vals)
            c2["bits"] = pylist_reference_bits(ir, c["dtype"], [py_decode(v) for v in vals], [k])
        else:
            c2["bits"] = c["bits"][:k]
        return c2
    changed = True
    while changed:
        changed = False
        n = len(cur["bits"])
        for k in ([n // 2, n - 1] if n > 1 else []):
            if k >= 1 and same(cut(cur, k)):
                cur, changed = cut(cur, k), True
                break
        if not changed and n > 1:
            # drop the first element instead of the last
            c2 = dict(cur)
            if cur["params"].get("variant") in ("pylist", "pylist_nodtype"):
                c2["params"] = dict(cur["params"], values=cur["params"]["values"][1:])
                c2["bits"] = pylist_reference_bits(ir, cur["dtype"], [py_decode(v) for v in c2["params"]["values"]], [n - 1])
            else:
                c2["bits"] = cur["bits"][1:]
            c2["shape"] = [n - 1]
            if same(c2):
                cur, changed = c2, True
        if len(cur.get("dests", [])) > 1:
            for d in cur["dests"]:
                c2 = dict(cur, dests=[d])
                if same(c2):
                    cur, changed = c2, True
                    break
        if len(cur["shape"]) != 1 and cur["params"].get("variant") not in ("pylist", "pylist_nodtype"):
            c2 = dict(cur, shape=[len(cur["bits"])])
            if same(c2):
                cur, changed = c2, True
    return cur


def known_site(spec: dict, bad: list[str]) -> str | None:
    """Known-finding key whose call site explains ALL the failures of this case (else None: a different violation).
    No C04 finding is open at the moment (all six recorded ones are fixed and run as ordinary corpus cases)."""
    return None


def check_spec(spec: dict, workdir: str, third: bool = True) -> tuple[dict, list[str]]:
    obs = observe(spec, workdir)
    bad = oracle(spec, obs)
    if third and not spec.get("malformed") and "construct_error" not in obs:
        bad += third_voice(spec, obs, workdir)
    return obs, bad


def nontrivial(spec: dict) -> bool:
    bw = BW(spec["dtype"])
    n = len(spec["bits"])
    p = spec.get("params", {})
    return ((bw < 8 and n % (8 // bw) != 0) or (spec["rep"] == "external" and (p.get("pre", 0) > 0 or p.get("post", 0) == 0))
            or (spec["rep"] == "proto" and p.get("field") not in ("raw", "helper", None))
            or any(d["pos"] > 0 for d in spec.get("dests", [])) or n == 0 or bool(spec.get("malformed")))


def env_contract_subbyte(ck) -> None:
    """Environment contract used by `elem`: ml_dtypes reads a sub-byte integer from the low bits of its byte."""
    import ml_dtypes
    import numpy as np
    for dt, bw, signed in ((ml_dtypes.int4, 4, True), (ml_dtypes.uint4, 4, False), (ml_dtypes.int2, 2, True),
                           (ml_dtypes.uint2, 2, False)):
        a = np.arange(256, dtype=np.uint8).view(dt).astype(np.int32)
        for b in range(256):
            lo = b & ((1 << bw) - 1)
            want = lo - (1 << bw) if signed and lo >> (bw - 1) else lo
            if int(a[b]) != want:
                ck.broken("environment:ml_dtypes-low-bits", f"{dt.__name__} byte {b} reads {int(a[b])}, model says {want}")
                return
        ck.count(256)


def oracle_tables(name: str) -> list[str]:
    """Property clause "the element-type tables are mutually consistent", on the public API of one member."""
    import onnx_ir as ir
    m = ir.DataType[name]
    bad = []
    try:
        bw = m.bitwidth
    except TypeError:
        bw = None
    if bw is None and name not in ("STRING", "UNDEFINED"):
        bad.append("no bit width")
    if bw is not None:
        if m.itemsize * 8 != bw:
            bad.append(f"itemsize {m.itemsize} * 8 != bitwidth {bw}")
        if m.numpy().itemsize * 8 != max(bw, 8):
            bad.append(f"numpy type {m.numpy()} has {m.numpy().itemsize} bytes for a {bw}-bit type")
    try:
        if ir.DataType.from_short_name(m.short_name()) != m:
            bad.append(f"from_short_name(short_name()) = {ir.DataType.from_short_name(m.short_name())!r}")
    except TypeError as e:
        bad.append(f"short name: {e}")
    if name != "UNDEFINED":
        try:
            if ir.DataType.from_numpy(m.numpy()) != m:
                bad.append(f"from_numpy(numpy()) = {ir.DataType.from_numpy(m.numpy())!r}")
        except TypeError as e:
            bad.append(f"numpy type: {e}")
    if m.is_floating_point() and m.is_integer():
        bad.append("both floating point and integer")
    if m.is_floating_point() and not m.is_signed():
        bad.append("floating point but not signed")
    if m.is_integer() and m.is_signed() == name.startswith("U"):
        bad.append("signedness contradicts the name")
    return bad


def tables_runtime_check(ck) -> None:
    """The generated tables describe what the imported module does (translator validation): bitwidth, itemsize,
    numpy(), from_numpy, short_name, from_short_name, is_* of every member, against tables(); and the table
    clause of the property on the public API (concrete replay when it fails)."""
    import ml_dtypes
    import numpy as np
    import onnx_ir as ir
    t = tables()
    if {m.name: int(m) for m in ir.DataType} != dict(t["members"]):
        ck.broken("translation:DataType-members", "enum members at run time differ from the source table")
    bwm, short = dict(t["bitwidth"]), dict(t["short"])
    npk = {v: k for k, v in t["np"]}
    for m in ir.DataType:
        v = int(m)
        ck.count()
        bad = oracle_tables(m.name)
        if bad:
            ck.violation({"kind": "oracle-tables", "tables": {"dtype": m.name}, "failures": bad})
        try:
            got = m.bitwidth
        except TypeError:
            got = None
        if got != bwm.get(v):
            ck.broken("translation:bitwidth", f"{m.name}: run time {got}, table {bwm.get(v)}")
        try:
            if m.short_name() != short.get(v):
                ck.broken("translation:short_name", f"{m.name}: {m.short_name()} / table {short.get(v)}")
        except TypeError:
            ck.broken("translation:short_name", f"{m.name}: no short name at run time")
        if v in npk:
            key = npk[v]
            want = np.dtype(getattr(ml_dtypes, key.split(".", 1)[1])) if key.startswith("ml_dtypes.") else np.dtype(key)
            if m.numpy() != want:
                ck.broken("translation:numpy", f"{m.name}: numpy() {m.numpy()} table {key}")
        for fn, key in (("is_floating_point", "floating"), ("is_integer", "integer"), ("is_signed", "signed")):
            if getattr(m, fn)() != (v in t[key]):
                ck.broken("translation:" + fn, m.name)


def type_casting_stream(ck) -> None:
    """The four functions of _type_casting.py called directly (valid sizes, mismatching dims, scalar dims, empty,
    int8 / multi-dimensional / Fortran inputs) against their translations, evaluated in Coq."""
    import numpy as np
    from onnx_ir import _type_casting as tc
    rng = ck.rng
    rows, meta = [], []
    reps = 220 if not ck.thorough else 3000
    for i in range(reps):
        k = i % 4
        per = 2 if k < 2 else 4
        if k in (0, 2):          # pack
            n = rng.choice([0, 1, 2, 3, 4, 5, 7, 8, 9, 16, 21])
            vals = [rng.randrange(256) for _ in range(n)]
            a = np.array(vals, dtype=np.uint8)
            form = rng.choice(["flat", "int8", "2d", "fortran", "strided"])
            if form == "int8":
                a = a.view(np.int8)
            elif form in ("2d", "fortran") and n % 2 == 0 and n:
                a = a.reshape(2, n // 2)
                if form == "fortran":      # ravel() is C order: the logical order, whatever the memory layout
                    a = np.asfortranarray(a)
            elif form == "strided":
                big = np.zeros(2 * n + 1, dtype=np.uint8)
                big[1::2][:n] = vals
                a = big[1::2][:n]
            keep = a.copy()
            try:
                out = (tc.pack_4bitx2 if k == 0 else tc.pack_2bitx4)(a)
            except Exception as e:  # noqa: BLE001   (the stream must not stop the check: the tensor-level cases follow)
                ck.broken("correspondence:type_casting", f"pack_{per} raised {type(e).__name__}: {e} for a {form} input of {n} bytes")
                continue
            if not np.array_equal(a, keep):
                ck.broken("correspondence:type_casting", f"pack_{per} modified its {form} input {vals} in place")
            rows.append((k, vals, 0, [int(x) for x in out.reshape(-1)]))
            meta.append({"fn": "pack", "per": per, "n": n, "form": form})
            ck.hist("type_casting", f"pack_{per}:{form}")
        else:                    # unpack
            m = rng.choice([0, 1, 2, 3, 5, 8])
            data = [rng.randrange(256) for _ in range(m)]
            full = m * per
            kind = rng.choice(["exact", "minus1", "minus_more", "plus1", "bigger", "zero", "scalar", "2d"])
            dims = {"exact": [full], "minus1": [max(full - 1, 0)], "minus_more": [max(full - rng.randrange(2, 5), 0)],
                    "plus1": [full + 1], "bigger": [full * 2 + 3], "zero": [0], "scalar": [],
                    "2d": [2, full // 2] if full else [0, 3]}[kind]
            try:
                out = (tc.unpack_4bitx2 if k == 1 else tc.unpack_2bitx4)(np.array(data, dtype=np.uint8), dims)
            except Exception as e:  # noqa: BLE001
                ck.broken("correspondence:type_casting", f"unpack raised {type(e).__name__}: {e} for data={data} dims={dims}")
                continue
            n = int(np.prod(dims))
            if list(out.shape) != list(dims):
                ck.broken("correspondence:type_casting", f"unpack returned shape {out.shape} for dims {dims}")
            rows.append((k, data, n, [int(x) for x in out.reshape(-1)]))
            meta.append({"fn": "unpack", "per": per, "data": data, "dims": dims})
            ck.hist("type_casting", f"unpack_{per}:{kind}")
        ck.count()
    nl = lambda v: clist(cN(x) for x in v)  # noqa: E731
    text = CASE_HEADER + "Definition rows : list (N * list N * N * list N) :=\n  " + clist(
        f"({k}, {nl(d)}, {n}, {nl(o)})" for k, d, n, o in rows).replace("; (", ";\n  (") + \
        ".\nEval vm_compute in (failing tc_agree rows).\n"
    def cb(fl):
        for i in fl[:5]:
            ck.broken("correspondence:type_casting", json.dumps({"case": meta[i], "input": rows[i][1], "n": rows[i][2], "impl": rows[i][3]}))
    deferred_failing(ck, text, "type_casting", cb, "correspondence:case-file-type_casting")


def nbytes_stream(ck, corpus=()) -> None:
    """nbytes / size of declared shapes far beyond anything materialisable (LazyTensor never calls its function):
    the model includes the float arithmetic of the code (rne53), so sizes above 2^53 are predicted too."""
    import onnx_ir as ir
    rng = ck.rng
    rows = []
    todo = [(c["dtype"], list(c["shape"])) for c in corpus]
    for name in NUMERIC():
        sizes = [0, 1, 7, (1 << 31) + 1, (1 << 53) - 1, 1 << 53, (1 << 53) + 1, (1 << 53) + 2, (1 << 53) + 3, (1 << 54) + 2,
                 (1 << 54) + 6, (1 << 60) + (1 << 7), (1 << 60) + (1 << 7) + 1, 3 * (1 << 62) + 12345]
        sizes += [rng.getrandbits(rng.randrange(50, 90)) for _ in range(6 if not ck.thorough else 60)]
        for size in sizes:
            todo.append((name, [size] if rng.random() < 0.6 else rng.choice(
                [[1, size], [size, 1, 1], [2, (size + 1) // 2], [3, 5, size // 15 + 1]])))
    reported = False
    for name, shape in todo:
        lt = ir.LazyTensor(lambda: None, dtype=ir.DataType[name], shape=ir.Shape(shape))
        total = 1
        for d in shape:
            total *= d
        if (lt.size != total or lt.nbytes != ref_nbytes(name, total)) and not reported:
            reported = True          # the property itself: nbytes = ceil(size * bitwidth / 8) for every shape
            ck.violation({"kind": "oracle-nbytes", "dtype": name, "shape": shape, "size": lt.size, "nbytes": lt.nbytes,
                          "required_size": total, "required": ref_nbytes(name, total)})
        rows.append((int(ir.DataType[name]), shape, lt.nbytes))
        ck.count()
        ck.hist("nbytes_stream", "size<2^53" if total < (1 << 53) else "size>=2^53")
        if total >= 1 << 53:
            ck.nontriv(("nbytes", name, shape))
    text = CASE_HEADER + "Definition rows : list (N * list N * N) :=\n  " + clist(
        f"({d}, {clist(cN(x) for x in sh)}, {cN(nb)})" for d, sh, nb in rows).replace("; (", ";\n  (") + \
        ".\nEval vm_compute in (failing nb_agree rows).\n"
    def cb(fl):
        for i in fl[:5]:
            ck.broken("correspondence:nbytes_code", json.dumps({"dtype": rows[i][0], "shape": rows[i][1], "impl_nbytes": rows[i][2]}))
    deferred_failing(ck, text, "nbytes", cb, "correspondence:case-file-nbytes")


def run(ck) -> None:
    import logging
    import shutil
    import warnings
    logging.disable(logging.WARNING)
    warnings.simplefilter("ignore", RuntimeWarning)      # numpy: overflow / invalid value in casts of the adversarial floats
    ck.trust("Coq 8.16.1 kernel (coqc; vm_compute in the table theorem, the byte sweeps and the case files)",
             "harness/props/c04.py: fail-closed ast extraction of the dtype tables and dispatch sets (Gen/C04Gen.v), "
             "generators, observation of numpy()/tobytes()/tofile(), Coq literal printer, reference packer",
             "modelled not verified: numpy (view/astype wrap-around/frombuffer/resize/tofile), ml_dtypes storage of "
             "sub-byte types (checked on all 256 bytes every run), protobuf field presence and float bit preservation, "
             "mmap, os.copy_file_range (any schedule of partial copies), torch storage bytes, Python file objects")
    ck.assumptions += ["little-endian platform (the big-endian byte swaps are not modelled)",
                       "numpy/ml_dtypes/onnx/protobuf/torch as installed in /venv",
                       "BOOL elements are 0/1; element bit patterns are in range for the dtype"]
    ck.coverage["rule"] = ("non-trivial = sub-byte dtype with a partial last byte, external data with a prefix or ending "
                           "at end of file, proto storage field other than raw_data, tofile at a non-zero position, "
                           "size 0, or a malformed input")
    import time as _time
    _t = [_time.time()]

    def lap(tag):
        ck.coverage.setdefault("phase_seconds", {})[tag] = round(_time.time() - _t[0], 1)
        _t[0] = _time.time()
    generate(ck)
    ck.prove()
    lap("generate+prove")
    # the comparison functions used by the case files are not in the closure of Property.v
    tie_v, tie_vo = (os.path.join(common.THEORIES, "C04", x) for x in ("Tie.v", "Tie.vo"))
    deps = [tie_v, os.path.join(common.THEORIES, "C04", "Model.vo"), os.path.join(common.GEN, "C04Gen.vo")]
    if not os.path.exists(tie_vo) or any(os.path.exists(d) and os.path.getmtime(d) > os.path.getmtime(tie_vo) for d in deps):
        # own file, own directory: compiled directly (the global coq lock would serialise us behind other properties)
        rc, out = common.sh(["timeout", "300", "coqc", "-Q", "theories", "IRV", "-w", "-all", "theories/C04/Tie.v"], cwd=common.COQ, timeout=330)
        if rc != 0:
            ck.broken("build:C04/Tie.v", out[-2000:])
    def guarded(name, fn, *a):
        """a side stream that fails unexpectedly is a broken obligation, but the tensor-level cases must still run
        (they are what produces the concrete input)"""
        try:
            fn(ck, *a)
        except Exception as e:  # noqa: BLE001
            import traceback
            ck.broken(f"stream-error:{name}", traceback.format_exc()[-1500:])
    guarded("ml_dtypes-contract", env_contract_subbyte)
    guarded("tables", tables_runtime_check)
    guarded("type_casting", type_casting_stream)
    wd = os.path.join(ck.scratch, "w")
    os.makedirs(wd, exist_ok=True)

    # ---- corpus first, then generated cases
    specs = []
    cdir = os.path.join(common.CORPUS, "C04")
    if os.path.isdir(cdir):
        for fn in sorted(os.listdir(cdir)):
            if fn.endswith(".json"):
                with open(os.path.join(cdir, fn)) as f:
                    js = json.load(f)
                specs += js if isinstance(js, list) else [js]
    corpus_strings = [c["strings"] for c in specs if "strings" in c]
    corpus_nbytes = [c["nbytes"] for c in specs if "nbytes" in c]
    specs = [c for c in specs if "dtype" in c]
    ck.coverage["corpus_cases"] = len(specs) + len(corpus_strings) + len(corpus_nbytes)
    guarded("nbytes", nbytes_stream, corpus_nbytes)
    specs += gen_wellformed(ck) + gen_pyvalues(ck) + gen_malformed(ck)
    cases, failures = [], []
    for i, spec in enumerate(specs):
        spec.setdefault("params", {})
        spec.setdefault("dests", [])
        try:
            obs, bad = check_spec(spec, wd)
        except Exception as e:  # noqa: BLE001   one unobservable case must not stop the run
            import traceback
            ck.broken("harness-error:case", json.dumps({k: spec[k] for k in ("dtype", "shape", "rep", "params")}, default=repr)[:400]
                      + " " + traceback.format_exc()[-800:])
            continue
        ck.count()
        if spec.get("may_reject"):
            ck.hist("non_native_byte_order", "rejected:" + obs["construct_error"] if "construct_error" in obs else "accepted")
        site = known_site(spec, bad) if bad else None
        if site and ck.known(site):
            ck.known_finding(site, ck.known(site)["what"])
            bad = []
        cspec, cobs = spec, obs
        if cspec is not None and not (spec.get("may_reject") and obs.get("construct_error") == spec["may_reject"]):
            cases.append((cspec, cobs))
        ck.hist("dtype", spec["dtype"])
        ck.hist("representation", spec["rep"] + (":" + str(spec["params"].get("field") or spec["params"].get("variant") or "")
                                                 if spec["rep"] in ("proto", "array", "torch") else ""))
        ck.hist("size", str(len(spec["bits"])) if len(spec["bits"]) < 10 else "10+")
        ck.hist("rank", str(len(spec["shape"])))
        for d in spec["dests"]:
            ck.hist("destination", d["kind"] + (":pos>0" if d["pos"] else ":pos=0"))
        if spec.get("malformed"):
            ck.hist("malformed", spec["malformed"])
            out = obs.get("construct_error") or "/".join(o[1] if o[0] == "raise" else "ok" for o in (obs["numpy"], obs["tobytes"]))
            ck.hist("malformed_outcome", out)
        if nontrivial(spec):
            ck.nontriv({k: spec[k] for k in ("dtype", "shape", "bits", "rep", "params")})
        if bad:
            failures.append((spec, bad))
        if i % 997 == 3:
            ck.sample({"spec": {k: spec[k] for k in ("dtype", "shape", "bits", "rep", "params", "dests")},
                       "tobytes": obs.get("tobytes", ("?",))[1].hex() if obs.get("tobytes", ("raise",))[0] == "ok" else None})
    lap("streams+observe+oracle")
    ck.coverage["traces_validated_against_impl"] = len(cases)
    try:
        mism = correspondence(ck, cases, "cases")
    except RuntimeError as e:
        mism = []
        ck.broken("correspondence:case-file", str(e))
    for i in mism[:6]:
        spec, obs = cases[i]
        ck.broken("correspondence:C04.Model", json.dumps(
            {"spec": spec, "impl": {k: (v if not isinstance(v, bytes) else v.hex()) for k, v in obs.items()}}, default=repr))
    lap("coq-case-files")
    mism_specs = [cases[i][0] for i in mism]
    for i in mism[:3]:
        ck.notes.append("model/implementation mismatch: " + json.dumps(
            {k: v for k, v in cases[i][0].items() if k != "bits"}, default=repr)[:500] + " impl=" + repr(
            {k: (v if not isinstance(v, bytes) else v.hex()) for k, v in cases[i][1].items() if k in ("numpy", "tobytes", "nbytes", "construct_error_text")})[:500])

    # ---- string tensors
    sc = [(w["kind"], w["shape"], [bytes.fromhex(x) for x in w["strings_hex"]], True) for w in corpus_strings] + string_cases(ck)
    sterms, sfail, sidx, sseen = [], [], [], []
    for kind, shape, ss, with_nul in sc:
        o = observe_string(kind, shape, ss)
        ck.count()
        ck.hist("representation", "string:" + kind)
        nl = lambda v: clist(cN(x) for x in v)  # noqa: E731
        if "error" not in o:
            sterms.append(f"(mkscase {o['term']} {clist(nl(x) for x in o['numpy'])} {clist(nl(x) for x in o['data'])} {cN(o['nbytes'])})")
            sidx.append(len(sseen))
        sseen.append(None)
        bad = oracle_string(kind, shape, ss, o)
        if "error" not in o and o["tobytes"] != "ValueError":
            bad.append("tobytes() of a string tensor did not raise ValueError")
        if bad:
            sfail.append((kind, shape, ss, bad))
        if with_nul:
            ck.nontriv(("string", kind, [x.hex() for x in ss]))
    text = CASE_HEADER + "Definition scases : list scase :=\n  " + clist(sterms).replace("; (mkscase", ";\n  (mkscase") \
        + ".\nEval vm_compute in (failing sagree scases).\n"
    try:
        for i in ck.coq_failing(text, "strings"):
            i = sidx[i]
            ck.broken("correspondence:C04.Model.strings", json.dumps({"kind": sc[i][0], "strings": [x.hex() for x in sc[i][2]]}))
    except RuntimeError as e:
        ck.broken("correspondence:case-file-strings", str(e))

    # ---- known findings: replayed on the implementation on every run
    for k in ck._known:
        if k.get("status") != "known":
            continue
        w = k["witness"]
        if "strings" in w:
            ws = w["strings"]
            ss = [bytes.fromhex(x) for x in ws["strings_hex"]]
            still = bool(oracle_string(ws["kind"], ws["shape"], ss, observe_string(ws["kind"], ws["shape"], ss)))
        else:
            w.setdefault("params", {})
            w.setdefault("dests", [])
            wbad = check_spec(w, wd)[1]
            still = bool(wbad) and known_site(w, wbad) == k["key"]
        if still:
            ck.known_finding(k["key"], k["what"])
        else:
            ck.broken(f"known-finding-stale:{k['key']}", "the recorded witness no longer fails on the implementation "
                      "(the model / oracle still describe a defect the code no longer has)")
    for kind, shape, ss, bad in sfail[:3]:
        if True:
            ck.violation({"kind": "oracle-string", "strings": {"kind": kind, "shape": shape, "strings_hex": [x.hex() for x in ss]},
                          "failures": bad})

    lap("strings+known-findings")
    # ---- oracle failures: shrink and report (one per distinct signature)
    def fails(sp):
        try:
            b = check_spec(sp, wd)[1]
            site = known_site(sp, b) if b else None
            return bool(b) and not (site and ck.known(site))
        except Exception:  # noqa: BLE001
            return False
    seen = set()
    for spec, bad in failures:
        sig = (spec["dtype"] if BW(spec["dtype"]) < 8 else "whole", spec["rep"], spec["params"].get("field"),
               spec["params"].get("variant"), bad[0].split(" ")[0])
        if sig in seen:
            continue
        seen.add(sig)
        if len(seen) > 5:
            break
        small = shrink(spec, wd, fails)
        ck.violation({"kind": "oracle", "spec": small, "failures": check_spec(small, wd)[1], "broken": [b["name"] for b in ck.broken_items]})

    # ---- something broken, nothing concrete yet: search
    if ck.broken_items and not ck.violations:
        search(ck, wd, mism_specs, fails)
    shutil.rmtree(wd, ignore_errors=True)


def search(ck, wd: str, seeds: list[dict], fails) -> None:
    """violation search after a broken proof obligation / correspondence: the diverging cases and their
    shrunk versions first, then fresh cases biased to the features the theorems are about"""
    tried = 0
    for spec in seeds:
        if spec.get("malformed"):
            continue
        for cand in (spec, dict(spec, bits=spec["bits"][:1], shape=[1]) if spec["bits"] else spec):
            tried += 1
            if fails(cand):
                small = shrink(cand, wd, fails)
                ck.violation({"kind": "oracle-after-broken-obligation", "spec": small, "failures": check_spec(small, wd)[1],
                              "broken": [b["name"] for b in ck.broken_items]})
                return
    rng = ck.rng
    budget = 1500 if not ck.thorough else 20000
    names = NUMERIC()
    sub = [n for n in names if BW(n) < 8]
    for i in range(budget):
        name = rng.choice(sub if i % 2 == 0 else names)
        n = rng.choice([1, 2, 3, 5, 7, 9, 16, 33])
        rep, params = rng.choice(rep_variants(name))
        spec = {"dtype": name, "shape": rng.choice(shapes_for(rng, n)), "bits": gen_bits(rng, name, n, rng.choice(["random", "count", "ones"])),
                "rep": rep, "params": params, "dests": gen_dests(rng, ref_nbytes(name, n), full=True)}
        ck.count()
        if fails(spec):
            small = shrink(spec, wd, fails)
            ck.violation({"kind": "oracle-after-broken-obligation", "spec": small, "failures": check_spec(small, wd)[1],
                          "broken": [b["name"] for b in ck.broken_items]})
            return


def replay(rp: dict) -> int:
    import logging
    import shutil
    import warnings
    logging.disable(logging.WARNING)
    warnings.simplefilter("ignore", RuntimeWarning)
    wd = os.path.join(common.SCRATCH_ROOT, f"replay-C04-{os.getpid()}")
    os.makedirs(wd, exist_ok=True)
    try:
        if rp.get("tables"):
            bad = oracle_tables(rp["tables"]["dtype"])
            print(json.dumps({"tables": rp["tables"], "failures": bad}, indent=1))
            return 1 if bad else 0
        if rp.get("kind") == "oracle-nbytes":
            import onnx_ir as ir
            shape = rp.get("shape") or [rp["size"]]
            total = 1
            for d in shape:
                total *= d
            lt = ir.LazyTensor(lambda: None, dtype=ir.DataType[rp["dtype"]], shape=ir.Shape(shape))
            ok = lt.nbytes == ref_nbytes(rp["dtype"], total) and lt.size == total
            print(json.dumps({"dtype": rp["dtype"], "shape": shape, "size": lt.size, "nbytes": lt.nbytes, "required": ref_nbytes(rp["dtype"], total)}))
            return 0 if ok else 1
        if rp.get("strings"):
            w = rp["strings"]
            ss = [bytes.fromhex(x) for x in w["strings_hex"]]
            bad = oracle_string(w["kind"], w["shape"], ss, observe_string(w["kind"], w["shape"], ss))
            print(json.dumps({"strings": w, "failures": bad}, indent=1))
            return 1 if bad else 0
        spec = rp.get("spec")
        if spec is None:
            print("replay names a broken obligation/correspondence, no concrete input:",
                  json.dumps(rp.get("broken"), indent=1)[:3000])
            return 1
        spec.setdefault("params", {})
        spec.setdefault("dests", [])
        _, bad = check_spec(spec, wd)
        print(json.dumps({"spec": spec, "failures": bad}, indent=1))
        return 1 if bad else 0
    finally:
        shutil.rmtree(wd, ignore_errors=True)


if __name__ == "__main__":
    print(gen_text())

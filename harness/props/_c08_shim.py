"""File-system shim, scenario builder and observers for property C08 (used by harness/props/c08.py).

Everything that reaches the operating system from onnx_ir.external_data goes through logging proxies
installed by rebinding that module's globals (os, shutil, tempfile, open) plus ExternalTensor.release /
invalidate (class attributes) and _core._EXTERNAL_TENSOR_COPY_CHUNK_SIZE.  /repo is not edited.
Each proxied call is one *counted effect*: it can be a kill point (os._exit inside the proxy, before the
call is performed) or be made to raise OSError(errno) instead of being performed.
"""

from __future__ import annotations

import builtins
import errno as _errno
import os
import random
import re
import shutil
import stat
import tempfile

import numpy as np

FAULTABLE = {"mkdtemp", "open", "write", "close", "copymode", "replace", "remove", "rmdir", "truncate", "model_save"}
ERRNOS = {"model_save": _errno.ENOSPC, "truncate": _errno.ENOSPC, "mkdtemp": _errno.EACCES, "open": _errno.EACCES, "write": _errno.ENOSPC, "close": _errno.EIO,
          "copymode": _errno.EPERM, "replace": _errno.EXDEV, "remove": _errno.EACCES, "rmdir": _errno.EBUSY}


PURE = {"fspath", "join", "basename", "dirname", "normpath", "abspath", "isabs", "split", "splitext", "relpath",
        "commonpath", "commonprefix", "normcase", "expanduser", "expandvars", "splitdrive", "cpu_count", "getpid",
        "get_terminal_size", "getcwd", "strerror", "fsencode", "fsdecode", "get_ident", "urandom"}


def faultable(kind: str) -> bool:
    """The modelled FS-affecting calls, plus ANY other call into os / os.path / shutil / tempfile (by name):
    a call the current code does not make is still seen, logged as unmodelled, and can be failed."""
    return kind in FAULTABLE or kind.startswith(("os.", "shutil.", "tempfile."))


class Ctl:
    """Interruption control of one save.
    kill_at  = k: the process dies (os._exit) just before effect number k;
    fault_at = k: effect number k raises OSError(err) instead of being performed (only FAULTABLE kinds);
    persistent:   after that, every later attempt of the SAME kind fails too (a rename that is refused again
                  on retry); effects are numbered in the order they are attempted, failed ones included."""

    def __init__(self, mode=None, index=-1, err=None, kill_at=None, fault_at=None, persistent=False, lossy_close=False):
        self.lossy_close = lossy_close     # a failing close() loses the bytes a real file would still have buffered
        self.kill_at = index if mode == "kill" else kill_at
        self.fault_at = index if mode == "fault" else fault_at
        self.err, self.persistent = err, persistent
        self.failed_kind = None
        self.n = 0
        self.log: list = []
        self.handles: dict[int, int] = {}      # id(ExternalTensor) -> handle

    def tick(self, kind: str) -> None:
        k = self.n
        if self.kill_at is not None and k == self.kill_at:
            os._exit(77)
        self.n += 1
        if faultable(kind) and ((self.fault_at is not None and k == self.fault_at)
                                  or (self.persistent and self.failed_kind == kind)):
            self.failed_kind = kind
            self.log.append(("fail", kind))
            e = self.err or ERRNOS.get(kind, _errno.EPERM)
            raise OSError(e, os.strerror(e) + " (injected)")   # EACCES/EPERM -> PermissionError


class _PathProxy:
    def __init__(self, ctl):
        self._c = ctl

    def __getattr__(self, name):
        real = getattr(os.path, name)
        c = self._c
        if name == "islink":
            def islink(p):
                c.tick("islink")
                r = real(p)
                c.log.append(("islink", os.fspath(p), r))
                return r
            return islink
        if name == "realpath":
            def realpath(p, **kw):
                c.tick("realpath")
                r = real(p, **kw)
                c.log.append(("realpath", os.fspath(p), r))
                return r
            return realpath
        if name == "exists":
            def exists(p):
                c.tick("exists")
                r = real(p)
                c.log.append(("exists", os.fspath(p), r))
                return r
            return exists
        if name == "samefile":
            def samefile(a, b):
                c.tick("samefile")
                try:
                    r = real(a, b)
                except OSError:
                    c.log.append(("samefile", os.fspath(a), os.fspath(b), False))
                    raise
                except Exception:      # ValueError: embedded null byte
                    c.log.append(("samefile_err", os.fspath(a), os.fspath(b)))
                    raise
                c.log.append(("samefile", os.fspath(a), os.fspath(b), r))
                return r
            return samefile
        if callable(real) and name not in PURE and not isinstance(real, type):
            def other(*a, **kw):
                c.tick("os.path." + name)
                c.log.append(("unmodelled", "os.path." + name, [repr(x)[:80] for x in a]))
                return real(*a, **kw)
            return other
        return real


class _OsProxy:
    def __init__(self, ctl):
        self._c = ctl
        self.path = _PathProxy(ctl)

    def __getattr__(self, name):
        real = getattr(os, name)
        c = self._c
        if name == "replace":
            def replace(a, b, **kw):
                c.tick("replace")
                c.log.append(("replace", os.fspath(a), os.fspath(b)))
                return real(a, b, **kw)
            return replace
        if name in ("remove", "unlink"):
            def remove(p, **kw):
                c.tick("remove")
                c.log.append(("remove", os.fspath(p)))
                return real(p, **kw)
            return remove
        if name == "rmdir":
            def rmdir(p, **kw):
                c.tick("rmdir")
                c.log.append(("rmdir", os.fspath(p)))
                return real(p, **kw)
            return rmdir
        if callable(real) and name not in PURE and not isinstance(real, type):
            def other(*a, **kw):
                c.tick("os." + name)
                c.log.append(("unmodelled", "os." + name, [repr(x)[:80] for x in a]))
                return real(*a, **kw)
            return other
        return real


class _ModProxy:
    """shutil / tempfile: log the FS-affecting entry points, forward the rest."""

    def __init__(self, ctl, mod, modname):
        self._c, self._m, self._n = ctl, mod, modname

    def __getattr__(self, name):
        real = getattr(self._m, name)
        c = self._c
        if self._n == "tempfile" and name == "mkdtemp":
            def mkdtemp(*a, **kw):
                c.tick("mkdtemp")
                try:
                    r = real(*a, **kw)
                except OSError:
                    c.log.append(("mkdtemp", None, kw.get("dir"), kw.get("prefix")))
                    raise
                c.log.append(("mkdtemp", r, kw.get("dir"), kw.get("prefix")))
                return r
            return mkdtemp
        if self._n == "shutil" and name == "copymode":
            def copymode(a, b, **kw):
                c.tick("copymode")
                c.log.append(("copymode", os.fspath(a), os.fspath(b)))
                return real(a, b, **kw)
            return copymode
        if callable(real) and not isinstance(real, type) and not name.startswith("_"):
            def other(*a, **kw):
                c.tick(self._n + "." + name)
                c.log.append(("unmodelled", self._n + "." + name, [repr(x)[:80] for x in a]))
                return real(*a, **kw)
            return other
        return real


class _FileProxy:
    """Unbuffered file without fileno(): every write is one logged effect on the real file.
    A real buffered file would keep small writes in its userspace buffer until the next seek/flush/close; an
    I/O error at close() (ENOSPC/EFBIG/EIO at flush time) means those bytes never reached the disk.  An injected
    fault at close() therefore first turns the ranges written since the last seek/flush back into a hole
    (zeros / shorter file) and then raises - a save that swallows the error would rename a file that lost data."""

    def __init__(self, ctl, f, name, mode):
        self._c, self._f, self.name, self.mode = ctl, f, name, mode
        self._unflushed: list = []         # (position, length) written since the last seek/flush

    def write(self, b):
        self._c.tick("write")
        b = bytes(b)
        self._c.log.append(("write", self.name, self._f.tell(), b))
        self._unflushed.append((self._f.tell(), len(b)))
        n = 0
        while n < len(b):                       # raw files may write short
            n += self._f.write(b[n:])
        return len(b)

    def seek(self, off, whence=0):
        self._c.tick("seek")
        self._c.log.append(("seek", self.name, off, whence))
        self._unflushed.clear()
        return self._f.seek(off, whence)

    def tell(self):
        return self._f.tell()

    def truncate(self, n=None):
        self._c.tick("truncate")
        self._c.log.append(("truncate", self.name, n))
        return self._f.truncate(n)

    def flush(self):
        self._unflushed.clear()
        return self._f.flush()

    def close(self):
        if self._f.closed:
            return
        try:
            self._c.tick("close")
        except OSError:
            try:                            # the buffered bytes are lost
                if not self._c.lossy_close:
                    self._unflushed.clear()
                size = os.fstat(self._f.fileno()).st_size
                for pos, n in self._unflushed:
                    if pos + n >= size and "r+" not in self.mode:
                        self._f.truncate(min(pos, size))
                        size = min(pos, size)
                    else:
                        self._f.seek(pos)
                        self._f.write(b"\0" * n)
            finally:
                self._f.close()
            raise
        self._c.log.append(("close", self.name))
        self._f.close()

    @property
    def closed(self):
        return self._f.closed

    def __enter__(self):
        return self

    def __exit__(self, *a):
        self.close()
        return False


def _make_open(ctl):
    def popen(p, mode="r", *a, **kw):
        ctl.tick("open")
        ctl.log.append(("open", os.fspath(p), mode))
        return _FileProxy(ctl, builtins.open(p, mode, buffering=0), os.fspath(p), mode)
    return popen


class _DetFuture:
    pass


def _det_namespace():
    """A stand-in for the module's `concurrent` name: ThreadPoolExecutor / as_completed that realise ONE legal
    schedule of the pool deterministically - one task at a time, in submission order, on the calling thread
    (one worker); a task's exception (BaseException included) is captured in its future exactly as the real
    executor does; shutdown(cancel_futures=True) cancels what has not started.  The parallel CODE PATH of the
    writer is exercised (preallocation, r+b worker handle, futures error path, finally-close) with a reproducible
    effect order, so that it can be compared with the Coq model effect by effect."""
    import concurrent.futures as cf
    import types

    class DetFuture(cf.Future):
        def _run(self):
            if self.done() or not self.set_running_or_notify_cancel():
                return
            fn, a, kw = self._det
            try:
                r = fn(*a, **kw)
            except BaseException as e:  # noqa: BLE001
                self.set_exception(e)
            else:
                self.set_result(r)

        def result(self, timeout=None):
            for f in self._owner.queue:           # everything submitted before runs first
                if f is self:
                    break
                f._run()
            self._run()
            return super().result(timeout)

    class DetExecutor:
        def __init__(self, max_workers=None, **kw):
            self.queue = []

        def submit(self, fn, *a, **kw):
            f = DetFuture()
            f._det, f._owner = (fn, a, kw), self
            self.queue.append(f)
            return f

        def shutdown(self, wait=True, cancel_futures=False):
            for f in self.queue:
                if cancel_futures:
                    f.cancel()
                else:
                    f._run()

        def __enter__(self):
            return self

        def __exit__(self, *a):
            self.shutdown(wait=True)
            return False

    def as_completed(fs, timeout=None):
        for f in list(fs):
            f._run()
            yield f
    futures = types.SimpleNamespace(**{k: getattr(cf, k) for k in dir(cf) if not k.startswith("_")})
    futures.ThreadPoolExecutor = DetExecutor
    futures.as_completed = as_completed
    return types.SimpleNamespace(futures=futures)


class Shim:
    """Context manager installing the proxies on onnx_ir.external_data / _core."""

    def __init__(self, ctl: Ctl, chunk: int | None, realfile: bool = False, pardet: bool = False,
                 model_fault: int | None = None):
        self.pardet = pardet
        self.model_fault = model_fault     # errno: writing the MODEL file (onnx.save in _io.save) fails with it
        # realfile: the module's own open() is NOT replaced - ordinary buffered Python files with a file
        # descriptor, so ExternalTensor.tofile takes its copy_file_range path and numpy writes through the fd
        self.ctl, self.chunk, self.realfile = ctl, chunk, realfile

    def __enter__(self):
        from onnx_ir import _core
        from onnx_ir import external_data as ed
        self.ed, self.core = ed, _core
        # the module may stop (or start) importing one of these: absent names are installed and removed again
        self.saved = {"os": ed.__dict__.get("os"), "shutil": ed.__dict__.get("shutil"),
                      "tempfile": ed.__dict__.get("tempfile"),
                      "open": ed.__dict__.get("open", None), "chunk": _core._EXTERNAL_TENSOR_COPY_CHUNK_SIZE,
                      "release": _core.ExternalTensor.release, "invalidate": _core.ExternalTensor.invalidate}
        c = self.ctl
        ed.os = _OsProxy(c)
        ed.shutil = _ModProxy(c, shutil, "shutil")
        ed.tempfile = _ModProxy(c, tempfile, "tempfile")
        if not self.realfile:
            ed.open = _make_open(c)
        import onnx_ir._io as io_mod
        self.io_mod = io_mod
        self.saved["io_onnx"] = io_mod.__dict__.get("onnx")
        import types
        real_onnx, err = io_mod.onnx, self.model_fault

        def logged_save(proto, path, *a, **kw):
            # writing the MODEL file is one effect of ir.save (after the data files): kill point, can be failed
            if err is not None:
                c.log.append(("model_save_failed", os.fspath(path)))
                raise OSError(err, os.strerror(err) + " (injected, model file)")
            c.tick("model_save")
            c.log.append(("model_save",))
            return real_onnx.save(proto, path, *a, **kw)
        io_mod.onnx = types.SimpleNamespace(**{k: getattr(real_onnx, k) for k in ("load", "save", "ModelProto")
                                               if hasattr(real_onnx, k)})
        io_mod.onnx.save = logged_save
        self.saved["concurrent"] = ed.__dict__.get("concurrent")
        if self.pardet:
            ed.concurrent = _det_namespace()
        if self.chunk is not None:
            _core._EXTERNAL_TENSOR_COPY_CHUNK_SIZE = self.chunk
        real_release, real_invalidate = self.saved["release"], self.saved["invalidate"]

        def release(t):
            h = c.handles.get(id(t))
            if h is not None:
                c.tick("release")
                c.log.append(("release", h))
            return real_release(t)

        def invalidate(t):
            h = c.handles.get(id(t))
            if h is not None:
                c.tick("invalidate")
                c.log.append(("invalidate", h))
            return real_invalidate(t)
        _core.ExternalTensor.release = release
        _core.ExternalTensor.invalidate = invalidate
        return self

    def __exit__(self, *a):
        ed, _core, s = self.ed, self.core, self.saved
        for name in ("os", "shutil", "tempfile", "concurrent"):
            if s[name] is None:
                ed.__dict__.pop(name, None)
            else:
                setattr(ed, name, s[name])
        if s["open"] is None:
            ed.__dict__.pop("open", None)
        else:
            ed.open = s["open"]
        if s.get("io_onnx") is not None:
            self.io_mod.onnx = s["io_onnx"]
        _core._EXTERNAL_TENSOR_COPY_CHUNK_SIZE = s["chunk"]
        _core.ExternalTensor.release = s["release"]
        _core.ExternalTensor.invalidate = s["invalidate"]
        return False


# ------------------------------------------------------------------ scenarios

def _bytes(seed: int, n: int) -> bytes:
    r = random.Random(seed)
    return bytes(r.randrange(1, 256) for _ in range(n))


EXC = {"RuntimeError": RuntimeError, "KeyboardInterrupt": KeyboardInterrupt, "SystemExit": SystemExit}


def make_exc(name, what):
    """Exception object of the named kind (BaseException-only kinds model Ctrl-C / sys.exit() during a save)."""
    cls = EXC[name or "RuntimeError"]
    return cls(what) if cls is not SystemExit else SystemExit(3)


class MultiTensor:
    """A third-party TensorProtocol implementation whose tofile() writes several chunks (and may raise
    between two of them)."""

    def __init__(self, name, chunks, raise_after, exc=None):
        import onnx_ir as ir
        self._exc = exc
        self.name = name
        self._chunks = chunks
        self._raise_after = raise_after
        self.dtype = ir.DataType.UINT8
        n = sum(len(c) for c in chunks)
        self.shape = ir.Shape([n])
        self.size = n
        self.nbytes = n
        self.doc_string = None
        self.metadata_props = {}
        self.meta = {}
        self.raw = None

    def numpy(self):
        return np.frombuffer(self.tobytes(), dtype=np.uint8)

    def __array__(self, dtype=None, copy=None):
        return self.numpy()

    def tobytes(self):
        return b"".join(self._chunks)

    def tofile(self, file):
        for i, ch in enumerate(self._chunks):
            if self._raise_after is not None and i == self._raise_after:
                raise make_exc(self._exc, "tensor evaluation failed (injected)")
            file.write(ch)
        if self._raise_after is not None and self._raise_after >= len(self._chunks):
            raise make_exc(self._exc, "tensor evaluation failed (injected)")


class Built:
    pass


def source_len(scn: dict, name: str):
    """Length of the data file a tensor's path names in the scenario's initial directory (links followed), from
    the scenario's own data - None when there is no such file (missing, NUL in the name, ...)."""
    spec = scn["files"].get(name)
    for _ in range(4):
        if spec is None:
            return None
        if spec["kind"] == "file":
            return len(spec["bytes"])
        tgt = spec["target"]
        if spec["kind"] == "symlink":
            tgt = os.path.normpath(os.path.join(os.path.dirname(name), tgt))
        name, spec = tgt, scn["files"].get(tgt)
    return None


def mappable(scn: dict, t: dict) -> bool:
    """Can the tensor be memory-mapped before the save (numpy())?  A tensor whose backing file is shorter than
    offset+length (truncated data file) cannot: that is an input of the scenario, not a harness error."""
    n = source_len(scn, t["file"])
    return n is not None and t["off"] + t["len"] <= n


def wants_map(scn: dict, t: dict) -> bool:
    return bool(t.get("preload") or t.get("hold")) and mappable(scn, t)


def wants_hold(scn: dict, t: dict) -> bool:
    return bool(t.get("hold")) and mappable(scn, t)


def build(scn: dict, root: str) -> Built:
    """Create the directory tree and the model of a scenario under `root` (fresh)."""
    import onnx_ir as ir
    shutil.rmtree(root, ignore_errors=True)
    os.makedirs(root)
    os.umask(0o022)
    for sub in scn.get("dirs", []):
        os.makedirs(os.path.join(root, sub), exist_ok=True)
    if scn.get("model_dir"):
        os.makedirs(os.path.join(root, "model.onnx"))      # a directory sits at the model path: onnx.save fails
    for name, spec in scn["files"].items():
        p = os.path.join(root, name)
        if spec["kind"] == "file":
            with open(p, "wb") as f:
                f.write(bytes(spec["bytes"]))
            os.chmod(p, spec.get("mode", 0o644))
        elif spec["kind"] == "symlink":
            os.symlink(spec["target"], p)
        elif spec["kind"] == "hardlink":
            os.link(os.path.join(root, spec["target"]), p)
    b = Built()
    b.root = root
    b.views = []          # live numpy views held by the "caller"
    b.ext = []            # ExternalTensor objects by handle
    b.small = []          # handles loaded to memory first
    inits = []
    thr = scn["threshold"]
    for i, t in enumerate(scn["tensors"]):
        name = f"w{i}"
        k = t["kind"]
        if k == "mem":
            obj = ir.Tensor(np.frombuffer(_bytes(t["seed"], t["n"]), dtype=np.uint8).copy(), name=name)
        elif k in ("ext", "small"):
            if t.get("abs"):        # programmatic construction: absolute location, no base_dir
                loc, bdir = os.path.join(root, t["file"]), ""
            elif t.get("base"):     # a data file of the same relative location in another directory
                loc, bdir = os.path.relpath(t["file"], t["base"]), os.path.join(root, t["base"])
            else:
                loc, bdir = t["file"], root
            obj = ir.ExternalTensor(loc, t["off"], t["len"], ir.DataType.UINT8,
                                    shape=ir.Shape([t["len"]]), name=name, base_dir=bdir)
            if wants_map(scn, t):
                arr = obj.numpy()
                if wants_hold(scn, t):
                    b.views.append(arr)     # the caller keeps using the array: the memory map cannot be closed
            h = len(b.ext)
            b.ext.append(obj)
            if obj.nbytes <= thr:
                b.small.append(h)
        elif k == "lazy_raise":
            def boom(_exc=t.get("exc")):
                raise make_exc(_exc, "lazy tensor failed (injected)")
            obj = ir.LazyTensor(boom, dtype=ir.DataType.UINT8, shape=ir.Shape([t["n"]]), name=name)
        elif k == "multi":
            chunks, pos = [], 0
            data = _bytes(t["seed"], sum(t["chunks"]))
            for c in t["chunks"]:
                chunks.append(data[pos:pos + c])
                pos += c
            obj = MultiTensor(name, chunks, t.get("raise_after"), t.get("exc"))
        else:
            raise AssertionError(k)
        inits.append(ir.Value(name=name, const_value=obj, type=ir.TensorType(ir.DataType.UINT8),
                              shape=ir.Shape([obj.nbytes])))
    x = ir.Value(name="x", type=ir.TensorType(ir.DataType.FLOAT), shape=ir.Shape([1]))
    y = ir.Value(name="y", type=ir.TensorType(ir.DataType.FLOAT), shape=ir.Shape([1]))
    g = ir.Graph([x], [y], nodes=[ir.Node("", "Identity", [x], outputs=[y], name="n")],
                 initializers=inits, name="g", opset_imports={"": 20})
    b.model = ir.Model(g, ir_version=10)
    b.inits = inits
    b.before = snapshot(root)
    return b


def cleanup(b) -> None:
    """Drop the caller's views and unmap the scenario's tensors."""
    b.views.clear()
    for t in b.ext:
        try:
            t.release()
        except BufferError:
            pass


def snapshot(root: str) -> dict:
    """relative path -> (kind, bytes, mode, inode) of everything but the model file."""
    out = {}
    for dp, dns, fns in os.walk(root):
        for n in list(dns) + fns:
            p = os.path.join(dp, n)
            rel = os.path.relpath(p, root)
            if rel == "model.onnx":
                continue
            st = os.lstat(p)
            if os.path.islink(p):
                out[rel] = ("link", os.readlink(p), None, st.st_ino)
            elif os.path.isdir(p):
                out[rel] = ("dir", None, None, st.st_ino)
            else:
                with open(p, "rb") as f:
                    out[rel] = ("file", f.read(), st.st_mode & 0o777, st.st_ino)
    return out


def save_kwargs(scn: dict, cb_log: list | None = None) -> dict:
    kw = dict(external_data=scn["req"], size_threshold_bytes=scn["threshold"],
              **({"format": scn["format"]} if scn.get("format") else {}),
              max_workers=scn.get("max_workers"), max_shard_size_bytes=scn.get("max_shard"))
    cb = scn.get("cb")
    if cb is not None:
        at, exc = (cb["at"], cb.get("exc")) if isinstance(cb, dict) else (cb, None)

        def callback(tensor, info, _at=at, _exc=exc):
            if cb_log is not None:
                cb_log(info.index)
            if _at != "ok" and info.index == _at:
                raise make_exc(_exc, "callback failed (injected)")
        kw["callback"] = callback
    return kw


def run_save(scn: dict, root: str, mode=None, index=-1, err=None, persistent=False, realfile=False, lossy=False):
    """Build the scenario, run ir.save under the shim.  Returns (built, ctl, outcome)."""
    import onnx_ir as ir
    b = build(scn, root)
    ctl = Ctl(mode, index, err, persistent=persistent, lossy_close=lossy)
    for h, t in enumerate(b.ext):
        ctl.handles[id(t)] = h

    def cb_log(i):
        ctl.tick("callback")
        ctl.log.append(("callback", i))
    outcome = ("ok", None)
    with Shim(ctl, scn.get("chunk"), realfile, bool(scn.get("pardet")), scn.get("model_fault")):
        try:
            ir.save(b.model, os.path.join(root, "model.onnx"), **save_kwargs(scn, cb_log))
        except BaseException as e:  # noqa: BLE001  (KeyboardInterrupt / SystemExit are injected on purpose)
            outcome = ("raise", e)
    return b, ctl, outcome


def run_killed(scn: dict, root: str, index: int, fault_at=None, err=None, persistent=False):
    """Run the save in a forked child that dies (os._exit) just before effect `index`.
    Returns the child's exit status: 77 = killed at the point, 0 = save returned, 3 = save raised."""
    import onnx_ir as ir
    b = build(scn, root)
    pid = os.fork()
    if pid == 0:
        code = 0
        try:
            ctl = Ctl("kill", index, err, fault_at=fault_at, persistent=persistent)
            for h, t in enumerate(b.ext):
                ctl.handles[id(t)] = h

            def cb_log(i):
                ctl.tick("callback")
            with Shim(ctl, scn.get("chunk"), False, bool(scn.get("pardet")), scn.get("model_fault")):
                try:
                    ir.save(b.model, os.path.join(root, "model.onnx"), **save_kwargs(scn, cb_log))
                except BaseException:  # noqa: BLE001
                    code = 3
        except BaseException:  # noqa: BLE001
            code = 4
        os._exit(code)
    _, status = os.waitpid(pid, 0)
    cleanup(b)
    return os.waitstatus_to_exitcode(status), b.before


# ------------------------------------------------------------------ observation / canonical paths

_TMP_RE = re.compile(r"^\.(.+)\.[A-Za-z0-9_]{8}$")


class Canon:
    """Paths -> component lists relative to the scenario root; temp dirs -> 'TMP:<basename>'."""

    def __init__(self, root: str, initial_names: set[str]):
        self.root = os.path.realpath(root)
        self.initial = initial_names

    def comps(self, p: str) -> list[str]:
        p = os.path.normpath(os.path.join(self.root, p))
        rel = os.path.relpath(p, self.root)
        out = []
        for c in rel.split(os.sep):
            if "\0" in c:
                c = "NUL"
            m = _TMP_RE.match(c)
            if m and c not in self.initial:
                c = "TMP:" + m.group(1)
            out.append(c)
        return out


def observe(root: str, canon: Canon) -> list:
    """Sorted listing [(components, node)] with node = ('file', bytes, mode) | ('dir',) | ('link', comps);
    the model file itself is not part of the observation."""
    out = []
    root = os.path.realpath(root)
    for dp, dns, fns in os.walk(root):
        for n in list(dns) + fns:
            p = os.path.join(dp, n)
            rel = os.path.relpath(p, root)
            if rel == "model.onnx":
                continue
            st = os.lstat(p)
            if stat.S_ISLNK(st.st_mode):
                tgt = os.path.normpath(os.path.join(os.path.dirname(p), os.readlink(p)))
                node = ("link", canon.comps(tgt))
            elif stat.S_ISDIR(st.st_mode):
                node = ("dir",)
            else:
                with open(p, "rb") as f:
                    node = ("file", f.read(), stat.S_IMODE(st.st_mode))
            out.append((canon.comps(rel), node))
    out.sort(key=lambda e: e[0])
    return out


def initial_names(root: str) -> set[str]:
    s = set()
    for dp, dns, fns in os.walk(root):
        s.update(dns)
        s.update(fns)
    return s


def canon_log(log: list, canon: Canon) -> list:
    """The proxies' log in the vocabulary of the model's `ob`."""
    out = []
    for e in log:
        k = e[0]
        if k == "islink":
            out.append(("islink", canon.comps(e[1]), bool(e[2])))
        elif k == "realpath":
            out.append(("realpath", canon.comps(e[1]), canon.comps(e[2])))
        elif k == "mkdtemp":
            if e[1] is None:
                out.append(("mkdtemp", canon.comps(os.path.join(e[2], e[3] + "XXXXXXXX"))))
            else:
                out.append(("mkdtemp", canon.comps(e[1])))
        elif k == "samefile":
            out.append(("samefile", canon.comps(e[1]), canon.comps(e[2]), bool(e[3])))
        elif k == "samefile_err":
            out.append(("samefile_err", canon.comps(e[1]), canon.comps(e[2])))
        elif k == "open":
            out.append(("open", canon.comps(e[1]), e[2]))
        elif k == "truncate":
            out.append(("truncate", e[2]))
        elif k == "callback":
            out.append(("callback", e[1]))
        elif k == "seek":
            out.append(("seek", e[2]) if e[3] == 0 else ("unmodelled", "seek-whence"))
        elif k == "write":
            out.append(("write", e[2], list(e[3])))
        elif k == "close":
            out.append(("close",))
        elif k in ("release", "invalidate"):
            out.append((k, e[1]))
        elif k == "exists":
            out.append(("exists", canon.comps(e[1]), bool(e[2])))
        elif k in ("copymode", "replace"):
            out.append((k, canon.comps(e[1]), canon.comps(e[2])))
        elif k in ("remove", "rmdir"):
            out.append((k, canon.comps(e[1])))
        elif k == "model_save":
            out.append(("model_save",))
        elif k == "fail":
            out.append(("fail", e[1] in ("remove", "rmdir")))
        else:
            out.append(("unmodelled",) + tuple(e[1:2]))
    return out


def tensor_obs(b: Built) -> list:
    """(valid, ('ok', bytes) | ('raise', exn name)) for every external tensor handle."""
    from harness import common
    out = []
    for t in b.ext:
        try:
            r = ("ok", list(bytes(t.tobytes())))
        except Exception as e:  # noqa: BLE001
            r = ("raise", common.exn_name(e))
        out.append((bool(t.valid()), r))
    return out

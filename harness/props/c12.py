"""C12 — topological sort: correct across scopes, stable, deterministic, atomic.

Decided by: Coq theorems (coq/theories/C12/Property.v) about the hand-written executable model
C12/Model.v of Graph.sort (_core.py:3921-4021) / Function.sort / TopologicalSortPass, tied to the code on
every run by a correspondence check decided inside Coq (case files embed the implementation's outcome and
the node order of every graph; `agree1`/`agreeP` recompute them with the model under vm_compute and also
decide the theorems' hypothesis `wf` on every case), plus a property oracle run on the implementation.

LOG
Model (as written, bugs included): a scope is a tree `Node id inputs subs` (inputs: None | Some producer
  id; subs: (graph id, node list) per attribute graph, GRAPH/GRAPHS flattened in attribute order).
  entries_n = RecursiveGraphIterator pre-order; neg index = position in that list; preds_of = producers
  of inputs that are in the flattened set, then the nodes directly in attribute graphs; depth0 = one
  increment per recorded predecessor occurrence (Z, so a decrement below zero would not be hidden);
  kahn = the while loop with explicit fuel = #nodes (None = out of fuel, proved unreachable);
  pop_max = the heapq contract only ("pop returns the smallest key" = largest original index);
  the cycle test `len(out) != total` precedes every relinking; relink = Graph.extend on present nodes
  (move-to-end, one by one).  sort_pass = graph then each function, stop at the first ValueError,
  `modified` by the zip comparison of the recursive node sequences (since 733a9c1; flat_new/zip_differs).
Theorems (all closed under the global context, no axioms):
  C12_outcome        wf -> result is Ok or Raise ValueError (fuel suffices: kahn_inv/kahn_total)
  C12_perm           wf -> same graphs, every new sequence a Permutation of the old one
  C12_respects_deps  wf, Ok -> in graph g, node n comes after every producer located in g of a value
                     used by n or by any node nested in n at any depth (desc_n)
  C12_cycle_iff      wf -> (Raise ValueError <-> the relation `uses` has a cycle (clos_trans x x))
  C12_cycle_atomic   any Raise -> orders unchanged (no hypothesis)
  C12_stable         wf, well_scoped, ordered -> sort_graph gr = (Ok tt, orders gr)   [full strength:
                     succeeds AND unchanged; proof: at the moment x is popped, an unpopped ready node
                     of the region "y and later" with a larger index exists (Proofs6), and the
                     post-order is a dependency-respecting arrangement so the run is complete (Proofs7)]
  C12_deterministic  immediate for a Gallina function; its content is the tie (hash-seed reruns)
  Nothing is partial.  `wf` = no node / graph object occurs twice in the scope (a subgraph object
  shared by two attributes is outside the quantifier); its third clause is implied by the first.
Readings of the English:
  * "a graph already in such an order is left exactly as it was": needs well-scoped references
    (producer in the user's graph or an enclosing one) — exactly the property's quantifier.  Without it
    stability is false for the code AND the model: corpus 04 / Example ex_illscoped_moves (ordered, yet
    [0,2,3] -> [2,0,3]); not a finding (ill-scoped references are outside the quantifier).  The oracle
    applies the stability rule only to well-scoped scopes; all other rules to every scope.
  * atomicity for TopologicalSortPass is per sorted unit: the failing unit and the units after it are
    unchanged; units before it were already sorted (the pass has no rollback; weaker reading).
  * "cycle" = cycle of the dependency relation the sort uses (input producers in scope + nodes directly
    in attribute graphs).  Oracle: ValueError iff no valid arrangement exists (own Kahn on the spec).
  * Graph.sort called on a nested graph: producers outside the scope are ignored; graphs outside the
    scope must not change.
Tie: quick 600 generated + 9 corpus cases (Graph.sort 63%, Function.sort 18%, pass 19%; modes dag /
  cyclic / illscoped / sorted; depth 0..4; captured producer placed after the control-flow node in
  ~27% of the cases; repeated / None inputs, multi-output producers; sort on nested graph), every case
  also rerun in-process with another allocation order, the first 250 rerun in subprocesses under
  PYTHONHASHSEED=1 and 4242 with shifted allocation orders; thorough: 12000 cases, all rerun under 6
  hash seeds (2 random).  Measured: quick 9 s, thorough 88 s.
Histories (added after seeded change r3m2 — a cached "already sorted" flag on Graph cleared only when a node
  is added — went undetected by single-sort cases): 35% of the generated cases carry case["history"]: after
  the first sort, 1-2 phases of edits that add no node (replace_input_with incl. inside nested bodies and
  cycle-creating, replace_all_uses_with, remove+append, insert_before of a present node), each followed by
  another sort.  Every later sort is compared (model in Coq + oracle) with the structure and the order current
  at that moment (derived_case) — the content of C12_deterministic: no dependence on the object's history.
  Quick: ~260 later sorts per run.  r3m2 now: VIOLATION with a shrunk replay (sort; rewire in the nested body;
  sort -> "node 1 is not after producer 3").
const_value (added after seeded change r4m2 — sort skipped inputs whose Value has a const_value): 20% of the
  generated nodes set Value.const_value on some outputs (node["const"]); model and oracle ignore it — a produced
  value with a constant annotation still has a producer.
Deepening round (2026-09-26):
  * Source translation.  translate_sort() reads Graph.sort with ast on every run, fail-closed: the plumbing
    statements (flatten, the per-graph dict, add_predecessor's two guards and its append, the whole predecessor
    collection loop incl. the `is None` / `is_ref()` guards and the GRAPH / GRAPHS branches, heapify / heappop /
    heappush with the pushed key tuple, the per-graph append) must be textually what the model assumes, and the
    loaded expressions are translated to Gallina (Gen/C12Gen.gen_src : sort_src): index key `-i`, depth initial
    value, `+= 1`, `-= 1`, the two `== 0` tests, the counter, `num != len(nodes)`, the exception, the order
    "cycle check / re-link", the reversal.  C12/GenModel.gsort runs these pieces with heapq as its contract (pop the
    smallest key); C12_source_is_model (GenEquiv.v, via gsort_eq_model incl. min-of-(-i) = max-of-i and counter =
    length) proves gsort gen_src = Model.sort_graph.  Function.sort, RecursiveGraphIterator._recursive_node_iter and
    TopologicalSortPass.call are pinned textually.  Any other shape -> broken obligation translate:C12Gen (and the
    search runs).  So the hand model is no longer tied by the correspondence alone.
  * wf against the public API (probe_wf_breakers + a malformed stream): a node in two graphs is rejected, a node
    twice in one graph is impossible, so the only public ways to break wf are (b) one Graph object under two
    attributes — now a 6% stream of the generator (mode "shared", wf_b = false checked in Coq): model and
    implementation agree (spurious ValueError whenever the shared graph has a node, nothing re-linked; ok when it
    is empty), oracle restricted to what holds for every input; corpus 14 — and (c) a graph nested in itself:
    RecursionError, nothing re-linked (no finite tree describes it; oracle-only probe).
  * Graph.sort on a graph nested in a FUNCTION body (kind function with nested target; corpus 15).
  Not done: a frame THEOREM for graphs outside the sorted scope (the model returns the orders of the scope only; the
  out-of-scope graphs are checked unchanged by the oracle on every nested-target case).
Round 5 (seeded r5m1 stale tail pointer after a position-preserving move of the tail; r5m2 journaling wrapper of
  Graph.extend exhausting the one-shot `reversed(...)` iterator): histories now contain position-preserving moves
  (insert_after / insert_before / Node.append / Node.prepend of a node to where it already is, Graph.append of the
  tail; k<0 = the tail pair) and every sort is followed by a consistency check of list(graph) against
  reversed(graph), len(graph), graph[0], graph[-1]; 15% of the cases run all their sorts inside 1-2 active
  onnx_ir.journaling.Journal()s (result must equal the model's).
Second deepening round (2026-09-26):
  * C12_writeback_views_agree: the write-back extend(new) of every graph of a successfully sorted scope, run on
    the box-level DoublyLinkedSet model of property C11 (imported read-only), leaves the set well formed with forward
    iteration, backward iteration, len, indexing and membership all describing `new` (Proofs8: C11's list-level
    extend = Model.relink on duplicate-free lists).  The oracle's sequence-consistency check stays as the
    implementation-side observation.
  * C12_frame: Model.sort_in root t (sort called on graph t inside the forest root) keeps every graph outside the
    scope of t, whatever the outcome.  The case files now embed the whole forest, the target and the orders of
    EVERY graph, compared with sort_in inside Coq (before: scope only, the rest oracle-only).
  * C12_collection_is_model: the predecessor-collection loop is no longer pinned textually but translated
    (_translate_collection: scope guard of add_predecessor, GRAPH / GRAPHS branches, order of the two inner loops
    read from the source; other shapes Unsupported) into Gen/C12Gen.gen_collect and proved equal to the model's
    predecessor list for every node of a scope.  Not observed directly on the implementation (node_predecessors
    is a local of sort()); tied through the end-to-end correspondence.  Values without producer (graph inputs) are
    not generated separately: the model identifies them with None inputs.
  * C12_no_self_nesting: a scope is a finite tree (nested nodes strictly smaller).  A self-nested Graph object can
    be built through the API but has no serialised form and is outside the quantifier; RecursionError, nothing
    re-linked (probe_wf_breakers).
Round 6 (seeded r6m2: the cycle error message joined node names -> TypeError for an anonymous node): 12% of the
  generated nodes get name None through the public setter after construction (node["anon"]), in cyclic and acyclic
  cases, main graph and bodies; model and oracle ignore names (ValueError iff cyclic).
Final pass (seeded r4m1 again — only leaf nodes of a body recorded as predecessors: equivalent on well-scoped
  scopes, differs only when a body value is consumed outside the enclosing node's subtree): the illscoped mode now
  adds such consumers deliberately (60% of the illscoped units); search() alternates ordered / ill-scoped
  regenerated units and no longer keeps the history of the case it replaced (that made the shrunk case unrunnable).
Modelled, not verified: heapq (contract only), DoublyLinkedSet internals (C11), node.graph bookkeeping
  and name authority (C01), dict/set iteration order (independent per-graph relinking).
Finding, fixed in /repo by 86f4e6a (known_findings.d/C12.json, status "fixed"): a GRAPH/GRAPHS-typed
  reference attribute made sort / RecursiveGraphIterator raise TypeError (attr.value is None).  Since the
  fix such attributes contribute no predecessors and no nested scope — which is what the model's tree
  expresses (a node's `subs` lists only attribute graphs that exist), so the theorems cover scopes with
  them; the generator now emits them as ordinary attributes ("refg"/"refgs") and the former witness is
  corpus/C12/10_ref_attr_graph.json (11_ adds the GRAPHS variant).
Mutants of /repo tried in a scratch worktree (VERIF_REPO), quick tier, seed 0 — all but the equivalent
  one reported VIOLATION with a shrunk concrete replay from the oracle (and correspondence mismatches):
  M1 heap keyed by +index (min index first)            -> stability: "already ordered but changed [3,0]->[0,3]"
  M2 cycle check moved after the relinking             -> "order changed although ValueError was raised"
  M3 nodes of GRAPHS attributes not predecessors       -> "node 4 is not after producer 3" (captured value)
  M4 predecessor list deduplicated, depth not          -> spurious ValueError on a repeated input
  M5 producers from another graph skipped              -> cyclic-through-body not detected; captured producer order
  M6 iterator yields nested nodes before the node      -> NOT reported (seeds 0,1,2): unobservable through
     list(graph) of any graph — equivalent w.r.t. this property
  M6b pushed heap key taken from the popped node       -> stability violated; TypeError (node comparison)
  M7 iterator visits only the first graph of GRAPHS    -> nested graph left unsorted
  M8 the committed fix 86f4e6a reverted (ref attrs of graph type)  -> TypeError reported by the oracle on corpus 10/11 and generated cases
  M9 733a9c1 reverted (modified from top-level lists only)   -> oracle: "pass reported modified=False but node order changed=True"
Harness note: failing indices of the two case lists are printed by two separate Evals (adding 100000 in
  unary nat overflowed the stack once a pass case failed).
"""

from __future__ import annotations

import json
import os
import random
import subprocess
import sys

from harness import common
from harness.common import REPO, clist

SRC_CORE = os.path.join(REPO, "src", "onnx_ir", "_core.py")

# =========================================================================== translation of the source
# Fail-closed, statement by statement: the plumbing statements of Graph.sort must be textually (ast.unparse) what
# the model assumes (PINS); the semantically loaded expressions are translated into Gallina (Gen/C12Gen.v, a
# `sort_src` record for C12/GenModel.gsort) and C12/GenEquiv.v proves gsort gen_src = Model.sort_graph.  Any other
# shape (an added statement, an extra guard, another key, a missing branch) raises Unsupported -> broken obligation.

class Unsupported(Exception):
    pass


def _find_def(tree, cls: str | None, name: str):
    import ast
    body = tree.body
    if cls is not None:
        for c in body:
            if isinstance(c, ast.ClassDef) and c.name == cls:
                body = c.body
                break
        else:
            raise Unsupported(f"class {cls} not found")
    for f in body:
        if isinstance(f, ast.FunctionDef) and f.name == name:
            return f
    raise Unsupported(f"{cls}.{name} not found")


def _body(f):
    import ast
    b = list(f.body)
    if b and isinstance(b[0], ast.Expr) and isinstance(b[0].value, ast.Constant) and isinstance(b[0].value.value, str):
        b = b[1:]
    return b


def _zexpr(e, env: dict) -> str:
    """Integer / boolean expression over the variables of env (keyed by ast.unparse text) -> Gallina (Z / bool)."""
    import ast
    txt = ast.unparse(e)
    if txt in env:
        return env[txt]
    if isinstance(e, ast.Constant) and isinstance(e.value, int) and not isinstance(e.value, bool):
        return common.cZ(e.value)
    if isinstance(e, ast.UnaryOp) and isinstance(e.op, ast.USub):
        return f"(- {_zexpr(e.operand, env)})%Z"
    if isinstance(e, ast.BinOp):
        ops = {ast.Add: "+", ast.Sub: "-", ast.Mult: "*"}
        for k, v in ops.items():
            if isinstance(e.op, k):
                return f"({_zexpr(e.left, env)} {v} {_zexpr(e.right, env)})%Z"
    if isinstance(e, ast.Compare) and len(e.ops) == 1:
        a, b = _zexpr(e.left, env), _zexpr(e.comparators[0], env)
        tbl = {ast.Eq: f"({a} =? {b})%Z", ast.NotEq: f"negb ({a} =? {b})%Z", ast.Lt: f"({a} <? {b})%Z",
               ast.LtE: f"({a} <=? {b})%Z", ast.Gt: f"({b} <? {a})%Z", ast.GtE: f"({b} <=? {a})%Z"}
        for k, v in tbl.items():
            if isinstance(e.ops[0], k):
                return v
    raise Unsupported(f"expression outside the translatable subset: {txt}")


def _aug(st, target: str, var: str) -> str:
    """`target op= e` -> Gallina function body over var."""
    import ast
    if not (isinstance(st, ast.AugAssign) and ast.unparse(st.target) == target):
        raise Unsupported(f"expected an augmented assignment to {target}, got: {ast.unparse(st)}")
    ops = {ast.Add: "+", ast.Sub: "-", ast.Mult: "*"}
    for k, v in ops.items():
        if isinstance(st.op, k):
            return f"({var} {v} {_zexpr(st.value, {})})%Z"
    raise Unsupported(f"operator of {ast.unparse(st)}")


def _pin(st, expected: str, what: str) -> None:
    import ast
    got = ast.unparse(st)
    if got != expected:
        raise Unsupported(f"{what}: statement changed\n   expected: {expected}\n   found:    {got}")


PIN_BUILD_LOOP = """for node in nodes:
    for input_value in node.inputs:
        if input_value is None:
            continue
        predecessor_node = input_value.producer()
        add_predecessor(node, predecessor_node)
    for attr in node.attributes.values():
        if not isinstance(attr, Attr) or attr.is_ref():
            continue
        if attr.type == _enums.AttributeType.GRAPH:
            for predecessor_node in attr.value:
                add_predecessor(node, predecessor_node)
        elif attr.type == _enums.AttributeType.GRAPHS:
            for attribute_graph in attr.value:
                for predecessor_node in attribute_graph:
                    add_predecessor(node, predecessor_node)"""

PIN_ITER = """iterable = reversed(graph) if self._reverse else graph
if self._enter_graph is not None:
    self._enter_graph(graph)
for node in iterable:
    yield node
    if self._recursive is not None and (not self._recursive(node)):
        continue
    yield from self._iterate_subgraphs(node)
if self._exit_graph is not None:
    self._exit_graph(graph)"""

PIN_PASS = """original_nodes = list(ir.traversal.RecursiveGraphIterator(model.graph))
model.graph.sort()
sorted_nodes = list(ir.traversal.RecursiveGraphIterator(model.graph))
for function in model.functions.values():
    original_nodes.extend(ir.traversal.RecursiveGraphIterator(function))
    function.sort()
    sorted_nodes.extend(ir.traversal.RecursiveGraphIterator(function))
modified = False
for node, new_node in zip(original_nodes, sorted_nodes):
    if node is not new_node:
        modified = True
        break
return ir.passes.PassResult(model=model, modified=modified)"""


def translate_sort() -> str:
    """Gen/C12Gen.v from the current source; raises Unsupported when the source left the expected shape."""
    import ast
    with open(SRC_CORE, encoding="utf-8") as f:
        tree = ast.parse(f.read())
    b = _body(_find_def(tree, "Graph", "sort"))
    if len(b) != 13:
        raise Unsupported(f"Graph.sort has {len(b)} top-level statements, the model describes 13: "
                          + " | ".join(ast.unparse(x).splitlines()[0] for x in b))
    _pin(b[0], "nodes = list(onnx_ir.traversal.RecursiveGraphIterator(self))", "flatten")
    _pin(b[1], "sorted_nodes_by_graph: dict[Graph, list[Node]] = {graph: [] for graph in "
               "{node.graph for node in nodes if node.graph is not None}}", "per-graph lists")
    st = b[2]
    if not (isinstance(st, ast.AnnAssign) and ast.unparse(st.target) == "node_depth" and isinstance(st.value, ast.Call)
            and ast.unparse(st.value.func) == "dict.fromkeys" and len(st.value.args) == 2
            and ast.unparse(st.value.args[0]) == "nodes"):
        raise Unsupported("node_depth initialisation: " + ast.unparse(st))
    depth_init = _zexpr(st.value.args[1], {})
    _pin(b[3], "node_predecessors: dict[Node, list[Node]] = {node: [] for node in nodes}", "predecessor lists")
    st = b[4]
    if not (isinstance(st, ast.AnnAssign) and ast.unparse(st.target) == "neg_node_index"
            and isinstance(st.value, ast.DictComp) and ast.unparse(st.value.key) == "node"
            and len(st.value.generators) == 1 and not st.value.generators[0].ifs
            and ast.unparse(st.value.generators[0].target) == "(i, node)"
            and ast.unparse(st.value.generators[0].iter) == "enumerate(nodes)"):
        raise Unsupported("neg_node_index: " + ast.unparse(st))
    key = _zexpr(st.value.value, {"i": "i"})
    # add_predecessor
    ap = b[5]
    if not (isinstance(ap, ast.FunctionDef) and ap.name == "add_predecessor"
            and [a.arg for a in ap.args.args] == ["child", "predecessor"]):
        raise Unsupported("add_predecessor: " + ast.unparse(ap).splitlines()[0])
    ab = _body(ap)
    if len(ab) != 4:
        raise Unsupported(f"add_predecessor has {len(ab)} statements, the model describes 4")
    _pin(ab[0], "if predecessor is None:\n    return", "add_predecessor guard 1")
    _pin(ab[1], "if predecessor not in node_depth:\n    return", "add_predecessor guard 2")
    _pin(ab[2], "node_predecessors[child].append(predecessor)", "add_predecessor append")
    depth_inc = _aug(ab[3], "node_depth[predecessor]", "d")
    collect = _translate_collection(b[6], ab)
    st = b[7]
    if not (isinstance(st, ast.AnnAssign) and ast.unparse(st.target) == "priority_queue"
            and isinstance(st.value, ast.ListComp) and ast.unparse(st.value.elt) == "(neg_node_index[node], node)"
            and len(st.value.generators) == 1 and ast.unparse(st.value.generators[0].target) == "node"
            and ast.unparse(st.value.generators[0].iter) == "nodes" and len(st.value.generators[0].ifs) == 1):
        raise Unsupported("initial priority queue: " + ast.unparse(st))
    ready = _zexpr(st.value.generators[0].ifs[0], {"node_depth[node]": "d"})
    _pin(b[8], "heapq.heapify(priority_queue)", "heapify")
    st = b[9]
    if not (isinstance(st, ast.Assign) and ast.unparse(st.targets[0]) == "num_of_sorted_nodes"):
        raise Unsupported("counter initialisation: " + ast.unparse(st))
    count_init = _zexpr(st.value, {})
    w = b[10]
    if not (isinstance(w, ast.While) and ast.unparse(w.test) == "priority_queue" and not w.orelse and len(w.body) == 5):
        raise Unsupported("main loop: " + ast.unparse(w).splitlines()[0] + f" ({len(getattr(w, 'body', []))} statements)")
    _pin(w.body[0], "_, current_node = heapq.heappop(priority_queue)", "heappop")
    _pin(w.body[1], "assert current_node.graph is not None", "loop assert")
    _pin(w.body[2], "sorted_nodes_by_graph[current_node.graph].append(current_node)", "append to the graph's list")
    count_inc = _aug(w.body[3], "num_of_sorted_nodes", "c")
    fl = w.body[4]
    if not (isinstance(fl, ast.For) and ast.unparse(fl.target) == "predecessor_node"
            and ast.unparse(fl.iter) == "node_predecessors[current_node]" and not fl.orelse and len(fl.body) == 2):
        raise Unsupported("predecessor loop: " + ast.unparse(fl).splitlines()[0])
    depth_dec = _aug(fl.body[0], "node_depth[predecessor_node]", "d")
    iff = fl.body[1]
    if not (isinstance(iff, ast.If) and not iff.orelse and len(iff.body) == 1):
        raise Unsupported("push test: " + ast.unparse(iff))
    push = _zexpr(iff.test, {"node_depth[predecessor_node]": "d"})
    _pin(iff.body[0], "heapq.heappush(priority_queue, (neg_node_index[predecessor_node], predecessor_node))", "heappush")
    # cycle check / relink, in either order
    chk = [x for x in b[11:] if isinstance(x, ast.If)]
    rel = [x for x in b[11:] if isinstance(x, ast.For)]
    if len(chk) != 1 or len(rel) != 1:
        raise Unsupported("expected one cycle check and one re-link loop after the main loop")
    check_first = b[11] is chk[0]
    c = chk[0]
    if not (not c.orelse and len(c.body) == 1 and isinstance(c.body[0], ast.Raise) and isinstance(c.body[0].exc, ast.Call)
            and isinstance(c.body[0].exc.func, ast.Name)):
        raise Unsupported("cycle check: " + ast.unparse(c))
    cycle = _zexpr(c.test, {"num_of_sorted_nodes": "c", "len(nodes)": "n"})
    exn = c.body[0].exc.func.id
    if exn not in common._EXN_NAMES:
        exn = "OtherError"
    r = rel[0]
    rtxt = ast.unparse(r)
    if rtxt == "for graph, sorted_nodes in sorted_nodes_by_graph.items():\n    graph.extend(reversed(sorted_nodes))":
        reversed_ = True
    elif rtxt == "for graph, sorted_nodes in sorted_nodes_by_graph.items():\n    graph.extend(sorted_nodes)":
        reversed_ = False
    else:
        raise Unsupported("re-link loop: " + rtxt)
    # pinned neighbours: Function.sort, the iterator, the pass
    fs = _body(_find_def(tree, "Function", "sort"))
    if len(fs) != 1:
        raise Unsupported("Function.sort is no longer a single delegation")
    _pin(fs[0], "self._graph.sort()", "Function.sort")
    with open(os.path.join(REPO, "src", "onnx_ir", "traversal.py"), encoding="utf-8") as f:
        ttree = ast.parse(f.read())
    it = _body(_find_def(ttree, "RecursiveGraphIterator", "_recursive_node_iter"))
    if "\n".join(ast.unparse(x) for x in it) != PIN_ITER:
        raise Unsupported("RecursiveGraphIterator._recursive_node_iter changed:\n" + "\n".join(ast.unparse(x) for x in it))
    with open(os.path.join(REPO, "src", "onnx_ir", "passes", "common", "topological_sort.py"), encoding="utf-8") as f:
        ptree = ast.parse(f.read())
    pc = _body(_find_def(ptree, "TopologicalSortPass", "call"))
    if "\n".join(ast.unparse(x) for x in pc) != PIN_PASS:
        raise Unsupported("TopologicalSortPass.call changed:\n" + "\n".join(ast.unparse(x) for x in pc))
    b2 = "true" if check_first else "false"
    b3 = "true" if reversed_ else "false"
    return _GEN_TEMPLATE(locals())


def _translate_collection(loop, add_body) -> str:
    """Step 1 of Graph.sort (`for node in nodes:` with its input loop and its attribute loop, and the guards of
    add_predecessor) -> Gallina folds over the Python-level view of a node (GenModel.pyin / pyat).  The scope
    guard of add_predecessor, each of the GRAPH / GRAPHS branches and the order of the two inner loops are read
    from the source; everything else must have the expected shape."""
    import ast
    if not (isinstance(loop, ast.For) and ast.unparse(loop.target) == "node" and ast.unparse(loop.iter) == "nodes"
            and not loop.orelse and len(loop.body) == 2 and all(isinstance(x, ast.For) for x in loop.body)):
        raise Unsupported("step 1: expected `for node in nodes:` with two inner loops")
    # add_predecessor: `if predecessor is None: return` is required (else None would be appended);
    # `if predecessor not in node_depth: return` is translated
    scope_guard = ast.unparse(add_body[1]) == "if predecessor not in node_depth:\n    return"
    add = ("match p with None => acc | Some q => "
           + ("if scope q then acc ++ [q] else acc" if scope_guard else "acc ++ [q]") + " end")
    parts = {}
    for inner in loop.body:
        it = ast.unparse(inner.iter)
        if it == "node.inputs" and ast.unparse(inner.target) == "input_value":
            if len(inner.body) != 3:
                raise Unsupported("input loop: " + ast.unparse(inner))
            _pin(inner.body[0], "if input_value is None:\n    continue", "input loop guard")
            _pin(inner.body[1], "predecessor_node = input_value.producer()", "producer lookup")
            _pin(inner.body[2], "add_predecessor(node, predecessor_node)", "input loop add_predecessor")
            parts["inputs"] = ("fold_left (fun acc iv => match iv with PNone => acc | PVal p => gen_add scope acc p end) "
                               "ins acc")
        elif it == "node.attributes.values()" and ast.unparse(inner.target) == "attr":
            if len(inner.body) != 2:
                raise Unsupported("attribute loop: " + ast.unparse(inner))
            _pin(inner.body[0], "if not isinstance(attr, Attr) or attr.is_ref():\n    continue", "attribute loop guard")
            branches = {"PGraph l": "acc", "PGraphs ls": "acc"}
            node_if = inner.body[1]
            while node_if is not None:
                if not isinstance(node_if, ast.If):
                    raise Unsupported("attribute type dispatch: " + ast.unparse(node_if))
                test = ast.unparse(node_if.test)
                body = "\n".join(ast.unparse(x) for x in node_if.body)
                if test == "attr.type == _enums.AttributeType.GRAPH" and \
                        body == "for predecessor_node in attr.value:\n    add_predecessor(node, predecessor_node)":
                    branches["PGraph l"] = "fold_left (fun acc q => gen_add scope acc (Some q)) l acc"
                elif test == "attr.type == _enums.AttributeType.GRAPHS" and \
                        body == ("for attribute_graph in attr.value:\n    for predecessor_node in attribute_graph:\n"
                                 "        add_predecessor(node, predecessor_node)"):
                    branches["PGraphs ls"] = ("fold_left (fun acc l => fold_left (fun acc q => gen_add scope acc (Some q)) l acc) "
                                              "ls acc")
                else:
                    raise Unsupported("attribute type branch: " + test + " / " + body)
                if len(node_if.orelse) > 1:
                    raise Unsupported("attribute type dispatch else-part")
                node_if = node_if.orelse[0] if node_if.orelse else None
            parts["attrs"] = ("fold_left (fun acc a => match a with POther => acc | PRef => acc | PGraph l => "
                              + branches["PGraph l"] + " | PGraphs ls => " + branches["PGraphs ls"] + " end) ats acc")
        else:
            raise Unsupported("step 1: unexpected inner loop over " + it)
    if set(parts) - {"order"} != {"inputs", "attrs"}:
        raise Unsupported("step 1: need one input loop and one attribute loop")
    first_inputs = ast.unparse(loop.body[0].iter) == "node.inputs"
    chain = ("gen_attrs scope (gen_inputs scope [] ins) ats" if first_inputs
             else "gen_inputs scope (gen_attrs scope [] ats) ins")
    return (f"Definition gen_add (scope : nat -> bool) (acc : list nat) (p : option nat) : list nat :=\n  {add}.\n"
            f"Definition gen_inputs (scope : nat -> bool) (acc : list nat) (ins : list pyin) : list nat :=\n  {parts['inputs']}.\n"
            f"Definition gen_attrs (scope : nat -> bool) (acc : list nat) (ats : list pyat) : list nat :=\n  {parts['attrs']}.\n"
            "(* node_predecessors[node] after step 1, for a node with inputs `ins` and attributes `ats` *)\n"
            f"Definition gen_collect (scope : nat -> bool) (ins : list pyin) (ats : list pyat) : list nat :=\n  {chain}.\n")


def _GEN_TEMPLATE(v: dict) -> str:
    key, depth_init, depth_inc, ready = v["key"], v["depth_init"], v["depth_inc"], v["ready"]
    count_init, count_inc, depth_dec, push = v["count_init"], v["count_inc"], v["depth_dec"], v["push"]
    cycle, exn, b2, b3, collect = v["cycle"], v["exn"], v["b2"], v["b3"], v["collect"]
    return f"""(* GENERATED by harness/props/c12.py (translate_sort) from src/onnx_ir/_core.py Graph.sort — do not edit. *)
From Coq Require Import ZArith List Bool.
From IRV Require Import Base.Exn C12.GenModel.
Definition gen_src : sort_src := {{|
  s_key := fun i : Z => {key};
  s_depth_init := {depth_init};
  s_depth_inc := fun d : Z => {depth_inc};
  s_ready := fun d : Z => {ready};
  s_count_init := {count_init};
  s_count_inc := fun c : Z => {count_inc};
  s_depth_dec := fun d : Z => {depth_dec};
  s_push := fun d : Z => {push};
  s_cycle := fun c n : Z => {cycle};
  s_exn := {exn};
  s_check_before_relink := {b2};
  s_relink_reversed := {b3}
|}}.
Import ListNotations.
{collect}"""


def generate(ck) -> bool:
    try:
        text = translate_sort()
    except (Unsupported, SyntaxError, OSError) as e:
        ck.gen_failed("C12Gen", e)
        return False
    ck.gen("C12Gen", text)
    return True


# =========================================================================== case format
# case  = {"kind": "graph"|"function"|"pass", "units": [graph, ...], "target": gid | None,
#          "alloc": int, "mode": str}
# graph = {"gid": int, "nodes": [node, ...]}
# node  = {"id": int, "ins": [ref, ...], "nout": int, "attrs": [attr, ...], "const": [output index, ...] (optional:
#          outputs whose Value.const_value is set; must be irrelevant to the order)}
# ref   = None | [producer id, output index]
# attr  = ["g", graph] | ["gs", [graph, ...]] | ["i"] | ["ref"] | ["refg"] | ["refgs"] (GRAPH / GRAPHS-typed reference attributes)
# kind "graph": units = [g]; Graph.sort() is called on the graph with id `target` (the root or a nested one)
# kind "function": units = [g]; Function.sort() on a function whose body is g
# kind "pass": units = [main, f1, ...]; TopologicalSortPass()(model)


def node_subgraphs(node: dict) -> list[dict]:
    out = []
    for a in node["attrs"]:
        if a[0] == "g":
            out.append(a[1])
        elif a[0] == "gs":
            out.extend(a[1])
    return out


def walk_graphs(g: dict):
    """The graph, then every nested graph, in the order of Model.orders (depth first, by node sequence)."""
    yield g
    for n in g["nodes"]:
        for s in node_subgraphs(n):
            yield from walk_graphs(s)


def walk_nodes(g: dict):
    """RecursiveGraphIterator order."""
    for n in g["nodes"]:
        yield n
        for s in node_subgraphs(n):
            yield from walk_nodes(s)


def find_graph(case: dict, gid: int) -> dict:
    for u in case["units"]:
        for g in walk_graphs(u):
            if g["gid"] == gid:
                return g
    raise KeyError(gid)


# =========================================================================== generator

def _gen_tree(rng, depth: int, budget: list, ids: list, gids: list, maxdepth: int) -> dict:
    g = {"gid": gids[0], "nodes": []}
    gids[0] += 1
    n = rng.choice([0, 1, 1, 2, 2, 3, 3, 4, 5, 6]) if depth else rng.choice([1, 2, 3, 4, 5, 6, 7, 8])
    for _ in range(n):
        if budget[0] <= 0:
            break
        budget[0] -= 1
        node = {"id": ids[0], "ins": [], "nout": rng.choice([1, 1, 1, 2, 3]), "attrs": []}
        if rng.random() < 0.12:
            node["anon"] = True
        if rng.random() < 0.2:
            node["const"] = sorted(set(rng.randrange(node["nout"]) for _ in range(rng.choice([1, 1, 2]))))
        ids[0] += 1
        if depth < maxdepth and rng.random() < (0.35 if depth == 0 else 0.3):
            for _ in range(rng.choice([1, 1, 2])):
                r = rng.random()
                if r < 0.6:
                    node["attrs"].append(["g", _gen_tree(rng, depth + 1, budget, ids, gids, maxdepth)])
                elif r < 0.8:
                    node["attrs"].append(["gs", [_gen_tree(rng, depth + 1, budget, ids, gids, maxdepth)
                                                 for _ in range(rng.choice([0, 1, 2]))]])
                else:
                    node["attrs"].append([rng.choice(["i", "ref", "refg", "refgs"])])
        elif rng.random() < 0.15:
            node["attrs"].append([rng.choice(["i", "ref", "refg", "refgs"])])
        g["nodes"].append(node)
    return g


def _postorder(g: dict, rng, out: list, anc: dict, chain: tuple):
    """A random execution order in which nested nodes precede the enclosing node; also records for
    every node id the chain of graph ids enclosing it (innermost last)."""
    nodes = list(g["nodes"])
    rng.shuffle(nodes)
    ch = chain + (g["gid"],)
    for n in nodes:
        anc[n["id"]] = ch
        for s in node_subgraphs(n):
            _postorder(s, rng, out, anc, ch)
        out.append(n)


def gen_unit(rng, ids: list, gids: list, mode: str, size: int, maxdepth: int = 4) -> dict:
    """mode: dag | cyclic | illscoped | sorted"""
    g = _gen_tree(rng, 0, [size], ids, gids, maxdepth)
    order: list = []
    anc: dict = {}
    _postorder(g, rng, order, anc, ())
    pos = {n["id"]: i for i, n in enumerate(order)}
    byid = {n["id"]: n for n in order}
    allids = list(byid)
    for c in order:
        k = rng.choice([0, 1, 1, 2, 2, 3, 4])
        cands = [p for p in allids if pos[p] < pos[c["id"]] and anc[p][-1] in anc[c["id"]]]
        # bias towards captured values (producer in a strictly enclosing graph)
        captured = [p for p in cands if anc[p][-1] != anc[c["id"]][-1]]
        for _ in range(k):
            r = rng.random()
            if r < 0.15 or not cands:
                c["ins"].append(None)
            elif r < 0.3 and c["ins"] and c["ins"][-1] is not None:
                c["ins"].append(list(c["ins"][-1]))          # repeated input
            else:
                p = rng.choice(captured if captured and rng.random() < 0.5 else cands)
                c["ins"].append([p, rng.randrange(byid[p]["nout"])])
    if mode == "cyclic" and len(allids) >= 1:
        for _ in range(rng.choice([1, 1, 2])):
            c = rng.choice(allids)
            scoped = [p for p in allids if pos[p] >= pos[c] and anc[p][-1] in anc[c]]
            if scoped:
                p = rng.choice(scoped)
                byid[c]["ins"].insert(rng.randrange(len(byid[c]["ins"]) + 1), [p, rng.randrange(byid[p]["nout"])])
    if mode == "illscoped" and len(allids) >= 2:
        for _ in range(rng.choice([1, 2, 3])):
            c, p = rng.choice(allids), rng.choice(allids)
            byid[c]["ins"].insert(rng.randrange(len(byid[c]["ins"]) + 1), [p, rng.randrange(byid[p]["nout"])])
        if rng.random() < 0.6:
            # targeted: a value produced inside a body is consumed OUTSIDE the subtree of the enclosing node
            # (the body node then has a consumer that does not lead back to the enclosing node)
            inner = [x for x in allids if len(anc[x]) >= 2]
            for _ in range(rng.choice([1, 2])):
                if not inner:
                    break
                sid = rng.choice(inner)
                outside = [x for x in allids if anc[sid][-1] not in anc[x] and pos[x] > pos[sid]]
                if outside:
                    c = rng.choice(outside)
                    byid[c]["ins"].insert(rng.randrange(len(byid[c]["ins"]) + 1), [sid, rng.randrange(byid[sid]["nout"])])
    # physical order of every graph
    for gr in walk_graphs(g):
        if mode == "sorted" or rng.random() < 0.15:
            gr["nodes"].sort(key=lambda n: pos[n["id"]])
            if mode != "sorted" and len(gr["nodes"]) >= 2 and rng.random() < 0.5:
                i = rng.randrange(len(gr["nodes"]) - 1)
                gr["nodes"][i], gr["nodes"][i + 1] = gr["nodes"][i + 1], gr["nodes"][i]
        else:
            rng.shuffle(gr["nodes"])
    return g


MODES = ["dag", "dag", "dag", "cyclic", "illscoped", "sorted"]


def gen_case(rng, small: bool = False) -> dict:
    ids, gids = [0], [0]
    kind = rng.choice(["graph", "graph", "graph", "function", "pass"])
    size = rng.choice([3, 5, 8]) if small else rng.choice([6, 10, 16, 24, 30])
    mode = rng.choice(MODES)
    if kind == "pass":
        units = [gen_unit(rng, ids, gids, rng.choice(MODES), max(2, size // 2)) for _ in range(rng.choice([1, 2, 3]))]
        mode = "mixed"
        target = None
    else:
        units = [gen_unit(rng, ids, gids, mode, size)]
        target = units[0]["gid"]
        if rng.random() < 0.2:        # Graph.sort on a nested graph, also inside a function body
            target = rng.choice([g["gid"] for g in walk_graphs(units[0])])
    case = {"kind": kind, "units": units, "target": target, "alloc": rng.randrange(4), "mode": mode}
    if kind != "pass" and rng.random() < 0.06 and add_alias(rng, units[0]):
        # malformed stream: one Graph object under two attributes — the only way the public API breaks `wf`
        case["mode"], case["shared"], case["target"] = "shared", True, units[0]["gid"]
        return case
    if rng.random() < 0.4:
        case["history"] = gen_history(rng, case)
    if rng.random() < 0.15:
        case["journal"] = rng.choice([1, 1, 2])      # sorts run while onnx_ir.journaling.Journal()s are active
    return case


def add_alias(rng, unit: dict) -> bool:
    """Put a copy of a nested graph's description (same gid, same node ids = the same Graph object, see
    build.mk_graph) under a second attribute of a node outside that graph."""
    subs = [g for g in walk_graphs(unit)][1:]
    if not subs:
        return False
    g = rng.choice(subs)
    inside = {n["id"] for n in walk_nodes(g)}
    holders = [n for n in walk_nodes(unit) if n["id"] not in inside]
    if not holders:
        return False
    rng.choice(holders)["attrs"].append(["g", _clone(g)])
    return True


# =========================================================================== implementation side

def build(case: dict):
    """Build the IR objects. Returns (units as ir objects, graphs {gid: ir.Graph}, node_id {id(node): id})."""
    import onnx_ir as ir
    alloc = case.get("alloc", 0)
    keep = []                                    # vary object allocation order / addresses
    values: dict = {}
    graphs: dict = {}
    ids: dict = {}
    all_nodes = [n for u in case["units"] for n in walk_nodes(u)]
    if alloc % 2:
        all_nodes = list(reversed(all_nodes))
    for n in all_nodes:
        if alloc >= 2:
            keep.append([object() for _ in range(1 + n["id"] % 3)])
        values[n["id"]] = [ir.Value(name=f"v{n['id']}_{k}") for k in range(n["nout"])]
        for k in n.get("const", []):
            # a produced value annotated with a constant (e.g. the folded output of a Constant node):
            # irrelevant to the order — it still has a producer
            values[n["id"]][k].const_value = ir.tensor([float(n["id"])], name=f"v{n['id']}_{k}")

    def mk_graph(g: dict, depth: int):
        if g["gid"] in graphs:
            return graphs[g["gid"]]          # the same Graph object under a second attribute (malformed stream)
        nodes = []
        for n in g["nodes"]:
            attrs = []
            for k, a in enumerate(n["attrs"]):
                if a[0] == "g":
                    attrs.append(ir.AttrGraph(f"a{k}", mk_graph(a[1], depth + 1)))
                elif a[0] == "gs":
                    attrs.append(ir.AttrGraphs(f"a{k}", [mk_graph(s, depth + 1) for s in a[1]]))
                elif a[0] == "i":
                    attrs.append(ir.AttrInt64(f"a{k}", 7))
                elif a[0] == "refg":      # reference attributes of graph type: no value, contribute nothing
                    attrs.append(ir.RefAttr(f"a{k}", "outer_g", ir.AttributeType.GRAPH))
                elif a[0] == "refgs":
                    attrs.append(ir.RefAttr(f"a{k}", "outer_gs", ir.AttributeType.GRAPHS))
                else:
                    attrs.append(ir.RefAttr(f"a{k}", "outer", ir.AttributeType.INT))
            ins = [None if r is None else values[r[0]][r[1]] for r in n["ins"]]
            node = ir.Node("", "Op", ins, attributes=attrs, outputs=values[n["id"]], name=f"n{n['id']}")
            ids[id(node)] = n["id"]
            keep.append(node)
            nodes.append(node)
        gin = ir.Value(name=f"in{g['gid']}")
        outs = []      # graph outputs play no role in the sort and would constrain replace_all_uses_with
        gr = ir.Graph([gin], outs, nodes=nodes, name=f"g{g['gid']}", opset_imports={"": 20})
        graphs[g["gid"]] = gr
        return gr

    roots = [mk_graph(u, 0) for u in case["units"]]
    anon = {n["id"] for n in all_nodes if n.get("anon")}
    for obj in keep:
        if isinstance(obj, ir.Node) and ids.get(id(obj)) in anon:
            obj.name = None          # anonymous node (public setter); must be irrelevant to the sort and its errors
    return roots, graphs, ids, (keep, values)


def observe(case: dict, graphs: dict, ids: dict) -> dict:
    return {str(gid): [ids.get(id(n), -1) for n in gr] for gid, gr in graphs.items()}


def apply_edit_json(case: dict, e: list) -> None:
    """Effect of an edit on the structure (node orders are taken from the implementation afterwards)."""
    nodes = [n for u in case["units"] for n in walk_nodes(u)]
    if e[0] == "rewire":
        for n in nodes:
            if n["id"] == e[1]:
                n["ins"][e[2]] = None if e[3] is None else list(e[3])
    elif e[0] == "rauw":
        for n in nodes:
            n["ins"] = [[e[3], e[4]] if (r is not None and r[0] == e[1] and r[1] == e[2]) else r for r in n["ins"]]


def derived_case(case: dict, order: dict) -> dict:
    """The case as it stands now: current structure, every graph in the order observed on the implementation."""
    c = _clone(case)
    c.pop("history", None)
    for u in c["units"]:
        for g in walk_graphs(u):
            pos = {x: i for i, x in enumerate(order[str(g["gid"])])}
            g["nodes"].sort(key=lambda n: pos.get(n["id"], 1 << 30))
    return c


def run_impl(case: dict) -> dict:
    """Run the real sort on the case; observations: outcome, node order of every graph before/after,
    ownership (node.graph) afterwards.  With case["history"] = [[edit, ...], ...]: after the first sort every
    phase applies its edits through the public API and sorts again; obs["phases"] holds, per phase, the case
    as it stood before that sort (current structure and order) and the observations of that sort."""
    import onnx_ir as ir
    roots, graphs, ids, (keep, values) = build(case)
    node_of = {v: k for k, v in ids.items()}
    objs = {id(n): n for n in keep if isinstance(n, ir.Node)}
    node_obj = {nid: objs[pyid] for pyid, nid in ids.items()}
    state = {}

    def seq_problems() -> list:
        """list(graph) against the other views of the same sequence (a corrupted link shows here first)."""
        out = []
        for gid, gr in graphs.items():
            fwd = list(gr)
            if [ids.get(id(n)) for n in reversed(gr)] != [ids.get(id(n)) for n in fwd][::-1]:
                out.append(f"graph {gid}: reversed(graph) is not list(graph) backwards")
            if len(gr) != len(fwd):
                out.append(f"graph {gid}: len(graph)={len(gr)} but list(graph) has {len(fwd)} nodes")
            if fwd and (gr[-1] is not fwd[-1] or gr[0] is not fwd[0]):
                out.append(f"graph {gid}: graph[0]/graph[-1] are not the ends of list(graph)")
        return out

    def one_sort() -> dict:
        import contextlib
        with contextlib.ExitStack() as stack:
            for _ in range(case.get("journal", 0)):
                from onnx_ir.journaling import Journal
                stack.enter_context(Journal())
            o = one_sort_inner()
        o["seq_bad"] = seq_problems()
        return o

    def one_sort_inner() -> dict:
        before = observe(case, graphs, ids)
        outcome, modified = "ok", None
        try:
            if case["kind"] == "graph":
                graphs[case["target"]].sort()
            elif case["kind"] == "function":
                if "f" not in state:
                    state["f"] = ir.Function("d", "f", graph=roots[0], attributes=[])
                if case["target"] in (None, case["units"][0]["gid"]):
                    state["f"].sort()
                else:
                    graphs[case["target"]].sort()        # a graph nested in the function body
            else:
                from onnx_ir.passes.common.topological_sort import TopologicalSortPass
                if "model" not in state:
                    fs = [ir.Function("d", f"f{i}", graph=r, attributes=[]) for i, r in enumerate(roots[1:])]
                    state["model"] = ir.Model(roots[0], ir_version=10, functions=fs)
                model = state["model"]
                res = TopologicalSortPass()(model)
                modified = bool(res.modified)
                if res.model is not model:
                    outcome = "raise:OtherError"
        except Exception as e:  # noqa: BLE001
            outcome = "raise:" + common.exn_name(e)
            for k in type(e).__mro__:
                if k.__name__ == "PassError" and e.__cause__ is not None:
                    outcome = "raise:" + common.exn_name(e.__cause__)
        after = observe(case, graphs, ids)
        owner_ok = all(n.graph is gr for gr in graphs.values() for n in gr)
        return {"outcome": outcome, "modified": modified, "before": before, "after": after, "owner_ok": owner_ok}

    obs = one_sort()
    cur = _clone(case)
    phases = []
    for phase in case.get("history", []):
        for e in phase:
            if e[0] == "rewire":
                node_obj[e[1]].replace_input_with(e[2], None if e[3] is None else values[e[3][0]][e[3][1]])
            elif e[0] == "rauw":
                values[e[1]][e[2]].replace_all_uses_with(values[e[3]][e[4]])
            elif e[0] == "move_end":
                graphs[e[1]].remove(node_obj[e[2]])
                graphs[e[1]].append(node_obj[e[2]])
            elif e[0] == "move_before":
                graphs[e[1]].insert_before(node_obj[e[3]], node_obj[e[2]])
            elif e[0].startswith("noop"):
                # position-preserving "moves": put a node where it already is (k < 0: the tail pair)
                cur_nodes = list(graphs[e[1]])
                if len(cur_nodes) >= 2:
                    i = len(cur_nodes) - 2 if e[2] < 0 else e[2] % (len(cur_nodes) - 1)
                    x, y = cur_nodes[i], cur_nodes[i + 1]
                    if e[0] == "noop_after":
                        graphs[e[1]].insert_after(x, y)
                    elif e[0] == "noop_before":
                        graphs[e[1]].insert_before(y, x)
                    elif e[0] == "noop_nappend":
                        x.append(y)
                    elif e[0] == "noop_nprepend":
                        y.prepend(x)
                    elif e[0] == "noop_append":
                        graphs[e[1]].append(cur_nodes[-1])
                elif cur_nodes and e[0] == "noop_append":
                    graphs[e[1]].append(cur_nodes[-1])
            apply_edit_json(cur, e)
        now = derived_case(cur, observe(case, graphs, ids))
        phases.append({"case": now, "obs": one_sort()})
    obs["phases"] = phases
    return obs


def obs_sig(obs: dict):
    return [(o["outcome"], o["after"], o["modified"]) for o in [obs] + [p["obs"] for p in obs.get("phases", [])]]


def gen_history(rng, case: dict) -> list:
    """1-2 phases of edits that add no node to any graph: rewire inputs (possibly creating a cycle or an
    unsorted order, also inside nested bodies), replace_all_uses_with, move present nodes."""
    cur = _clone(case)
    hist = []
    for _ in range(rng.choice([1, 1, 2])):
        phase = []
        for _ in range(rng.choice([1, 1, 2, 3])):
            u = rng.choice(cur["units"])
            nodes = list(walk_nodes(u))
            if not nodes:
                continue
            r = rng.random()
            if r < 0.3:
                g = rng.choice(list(walk_graphs(u)))
                e = [rng.choice(["noop_after", "noop_before", "noop_nappend", "noop_nprepend", "noop_append"]),
                     g["gid"], rng.choice([-1, -1, 0, 1, 2, 3])]
                phase.append(e)
                continue
            r = rng.random()
            if r < 0.55:
                cands = [n for n in nodes if n["ins"]]
                if not cands:
                    continue
                n = rng.choice(cands)
                p = rng.choice(nodes)
                ref = None if rng.random() < 0.1 else [p["id"], rng.randrange(p["nout"])]
                e = ["rewire", n["id"], rng.randrange(len(n["ins"])), ref]
            elif r < 0.7:
                p, q = rng.choice(nodes), rng.choice(nodes)
                e = ["rauw", p["id"], rng.randrange(p["nout"]), q["id"], rng.randrange(q["nout"])]
            else:
                gs = [g for g in walk_graphs(u) if len(g["nodes"]) >= 2]
                if not gs:
                    continue
                g = rng.choice(gs)
                a, b = rng.sample(g["nodes"], 2)
                e = ["move_end", g["gid"], a["id"]] if rng.random() < 0.5 else ["move_before", g["gid"], a["id"], b["id"]]
            apply_edit_json(cur, e)
            phase.append(e)
        hist.append(phase)
    return hist


# =========================================================================== oracle (the property itself)

def _subtree_ids(n: dict) -> list[int]:
    out = [n["id"]]
    for s in node_subgraphs(n):
        for m in walk_nodes(s):
            out.append(m["id"])
    return out


def order_violations(g: dict, order: list[int]) -> list[str]:
    """`order` of graph g: every node after the producers located in g of every value used by it or by
    any node nested inside it."""
    bad = []
    here = {n["id"] for n in g["nodes"]}
    posn = {x: i for i, x in enumerate(order)}
    for n in g["nodes"]:
        used = set()
        stack = [n]
        while stack:
            m = stack.pop()
            used.update(r[0] for r in m["ins"] if r is not None)
            for s in node_subgraphs(m):
                stack.extend(s["nodes"])
        for p in used & here:
            if p not in posn or n["id"] not in posn or not posn[p] < posn[n["id"]]:
                bad.append(f"graph {g['gid']}: node {n['id']} is not after producer {p}")
    return bad


def scope_graphs(case: dict) -> list[list[dict]]:
    """Graphs each sort call is responsible for: one list per sorted unit."""
    if case["kind"] in ("graph", "function") and case["target"] is not None:
        return [list(walk_graphs(find_graph(case, case["target"])))]
    return [list(walk_graphs(u)) for u in case["units"]]


def well_scoped(g: dict) -> bool:
    """Every used value with a producer inside the scope of g is produced in the user's graph or in a
    graph enclosing it (the property's quantifier)."""
    anc: dict = {}

    def rec(gr, chain):
        ch = chain + (gr["gid"],)
        for n in gr["nodes"]:
            anc[n["id"]] = ch
            for s in node_subgraphs(n):
                rec(s, ch)
    rec(g, ())
    for n in walk_nodes(g):
        for r in n["ins"]:
            if r is not None and r[0] in anc and anc[r[0]][-1] not in anc[n["id"]]:
                return False
    return True


def has_valid_order(g: dict) -> bool:
    """Is there any arrangement of the scope satisfying the order predicate?  (= the dependency relation
    used by the property — producer edges plus nested-node edges — is acyclic); Kahn on the spec."""
    nodes = list(walk_nodes(g))
    idset = {n["id"] for n in nodes}
    succ = {n["id"]: set() for n in nodes}      # p -> users
    indeg = {n["id"]: 0 for n in nodes}
    for n in nodes:
        ps = {r[0] for r in n["ins"] if r is not None and r[0] in idset}
        for s in node_subgraphs(n):
            ps.update(m["id"] for m in s["nodes"])
        for p in ps:
            if n["id"] not in succ[p]:
                succ[p].add(n["id"])
                indeg[n["id"]] += 1
    ready = [x for x, d in indeg.items() if d == 0]
    seen = 0
    while ready:
        x = ready.pop()
        seen += 1
        for u in succ[x]:
            indeg[u] -= 1
            if indeg[u] == 0:
                ready.append(u)
    return seen == len(nodes)


def oracle_shared(case: dict, obs: dict) -> list[str]:
    """Outside the property's quantifier (a Graph object under two attributes): only what holds for every input —
    ValueError is the only exception, nothing changes when it is raised, every graph keeps its nodes."""
    bad = []
    if obs["outcome"] not in ("ok", "raise:ValueError"):
        bad.append(f"sort raised {obs['outcome']} (only ValueError is allowed)")
    for k in obs["before"]:
        if sorted(obs["before"][k]) != sorted(obs["after"][k]):
            bad.append(f"graph {k}: nodes {obs['before'][k]} became {obs['after'][k]} (not a permutation)")
        elif obs["outcome"] != "ok" and obs["before"][k] != obs["after"][k]:
            bad.append(f"graph {k}: order changed although an exception was raised")
    return bad


def oracle(case: dict, obs: dict) -> list[str]:
    if case.get("shared"):
        return oracle_shared(case, obs) + list(obs.get("seq_bad", []))
    bad = list(obs.get("seq_bad", []))
    before, after = obs["before"], obs["after"]
    if not obs["owner_ok"]:
        bad.append("a node's graph is not the graph holding it after the sort")
    in_scope = set()
    scopes = scope_graphs(case)
    failed_unit = None
    if obs["outcome"] != "ok":
        if obs["outcome"] != "raise:ValueError":
            bad.append(f"sort raised {obs['outcome']} (only ValueError on a cycle is allowed)")
        # which unit failed: the first one without a valid order (pass sorts units in sequence)
        for i, sc in enumerate(scopes):
            if not has_valid_order(sc[0]):
                failed_unit = i
                break
        if failed_unit is None:
            bad.append("ValueError raised but the dependencies contain no cycle")
            failed_unit = len(scopes)
    for i, sc in enumerate(scopes):
        for g in sc:
            in_scope.add(g["gid"])
            b, a = before[str(g["gid"])], after[str(g["gid"])]
            if sorted(a) != sorted(b) or len(set(a)) != len(a):
                bad.append(f"graph {g['gid']}: nodes {b} became {a} (not a permutation)")
                continue
            if failed_unit is not None and i >= failed_unit:
                if a != b:
                    bad.append(f"graph {g['gid']}: order changed although ValueError was raised")
                continue
            if not has_valid_order(sc[0]):
                bad.append(f"graph {g['gid']}: dependencies are cyclic but no ValueError was raised")
                continue
            bad += order_violations(g, a)
        # stability: the whole scope already ordered (and well scoped) -> nothing moves
        if (failed_unit is None or i < failed_unit) and well_scoped(sc[0]) and \
                all(not order_violations(g, before[str(g["gid"])]) for g in sc):
            for g in sc:
                if before[str(g["gid"])] != after[str(g["gid"])]:
                    bad.append(f"graph {g['gid']}: already ordered but changed "
                               f"{before[str(g['gid'])]} -> {after[str(g['gid'])]}")
    if case["kind"] == "pass" and obs["outcome"] == "ok":
        moved = any(before[k] != after[k] for k in before)
        if bool(obs["modified"]) != moved:
            bad.append(f"pass reported modified={obs['modified']} but node order changed={moved}")
    for gid in before:
        if int(gid) not in in_scope and before[gid] != after[gid]:
            bad.append(f"graph {gid} is outside the sorted scope but changed")
    return bad


# =========================================================================== Coq terms

def c_node(n: dict) -> str:
    ins = clist("None" if r is None else f"Some {r[0]}" for r in n["ins"])
    subs = clist(c_graph(s) for s in node_subgraphs(n))
    return f"Node {n['id']} {ins} {subs}"


def c_graph(g: dict) -> str:
    return f"({g['gid']}, {clist(c_node(n) for n in g['nodes'])})"


def c_orders(g: dict, after: dict) -> str:
    return clist(f"({s['gid']}, {clist(str(x) for x in after[str(s['gid'])])})" for s in walk_graphs(g))


def c_res(outcome: str, okv: str) -> str:
    return f"(Ok {okv})" if outcome == "ok" else f"(Raise {outcome.split(':')[1]})"


CASE_HEADER = """From Coq Require Import ZArith List Bool Arith.
From IRV Require Import Base.Exn C12.Model.
Import ListNotations.
Open Scope nat_scope.
Definition ord_eqb := list_eqb (fun a b : nat * list nat => Nat.eqb (fst a) (fst b) && list_eqb Nat.eqb (snd a) (snd b)).
Fixpoint nodupb (l : list nat) : bool :=
  match l with [] => true | x :: r => negb (memb x r) && nodupb r end.
(* the hypothesis `wf` of the theorems, decided on every generated case *)
Definition wf_b (g : graph) : bool :=
  nodupb (flat_of (entries g)) && nodupb (map fst (orders g)) && forallb (fun go => nodupb (snd go)) (orders g).
(* last component: whether the case is expected to satisfy wf (false only for the shared-subgraph stream);
   first components: the whole forest and the id of the graph sort() is called on; the expected orders list
   EVERY graph of the forest (frame: graphs outside the sorted scope included) *)
Definition agree1 (c : graph * nat * (res unit * list (nat * list nat)) * bool) : bool :=
  let '(g, t, (r, o), w) := c in let '(r', o') := sort_in g t in
  Bool.eqb (wf_b g) w && res_eqb (fun _ _ => true) r' r && ord_eqb o' o.
Definition agreeP (c : list graph * (res bool * list (list (nat * list nat)))) : bool :=
  let '(us, (r, o)) := c in let '(r', o') := sort_pass us in
  forallb wf_b us && res_eqb Bool.eqb r' r && list_eqb ord_eqb o' o.
"""


def case_files(cases: list[tuple[dict, dict]], per_file: int = 250) -> list[tuple[str, str, list[int]]]:
    """[(tag, text, indices of the cases in the file)], single-unit and pass cases in separate lists."""
    files = []
    for start in range(0, len(cases), per_file):
        chunk = list(range(start, min(len(cases), start + per_file)))
        ones, passes = [], []
        for i in chunk:
            case, obs = cases[i]
            if case["kind"] == "pass":
                us = clist(c_graph(u) for u in case["units"])
                o = clist(c_orders(u, obs["after"]) for u in case["units"])
                passes.append((i, f"({us}, ({c_res(obs['outcome'], 'true' if obs['modified'] else 'false')}, {o}))"))
            else:
                g = case["units"][0]
                w = "false" if case.get("shared") else "true"
                ones.append((i, f"({c_graph(g)}, {case['target']}, ({c_res(obs['outcome'], 'tt')}, "
                                f"{c_orders(g, obs['after'])}), {w})"))
        text = CASE_HEADER
        text += ("Definition ones : list (graph * nat * (res unit * list (nat * list nat)) * bool) :=\n "
                 + clist("\n  " + t for _, t in ones) + ".\n")
        text += ("Definition passes : list (list graph * (res bool * list (list (nat * list nat)))) :=\n "
                 + clist("\n  " + t for _, t in passes) + ".\n")
        # two separate lists: never build a large unary number inside Coq
        text += "Eval vm_compute in (failing agree1 ones).\nEval vm_compute in (failing agreeP passes).\n"
        files.append((f"cases_{start}", text, [i for i, _ in ones], [i for i, _ in passes]))
    return files


def correspondence(ck, cases: list[tuple[dict, dict]]) -> list[int]:
    """Indices of the cases on which the model (run inside Coq) and the implementation disagree."""
    files = case_files(cases)
    results = ck.coq_eval_many([(tag, text) for tag, text, _, _ in files])
    mism = []
    for (tag, _, ones, passes), (rc, out) in zip(files, results):
        if rc != 0:
            raise RuntimeError(f"case file {tag} did not compile:\n{out[-3000:]}")
        parts = [p for p in out.split("     = ")[1:]]
        if len(parts) != 2:
            raise RuntimeError(f"case file {tag}: unexpected output:\n{out[-2000:]}")
        mism += [ones[j] for j in common.parse_nat_list("= " + parts[0])]
        mism += [passes[j] for j in common.parse_nat_list("= " + parts[1])]
    return sorted(mism)


# =========================================================================== determinism across processes

def _worker() -> None:
    """Subprocess entry: cases (JSON list) on stdin -> observations (JSON list) on stdout."""
    import logging
    logging.disable(logging.WARNING)
    cases = json.load(sys.stdin)
    json.dump([run_impl(c) for c in cases], sys.stdout)


def run_in_subprocess(cases: list[dict], hashseed: str, alloc_shift: int) -> list[dict]:
    shifted = [dict(c, alloc=(c.get("alloc", 0) + alloc_shift) % 4) for c in cases]
    env = dict(os.environ, PYTHONHASHSEED=hashseed,
               PYTHONPATH=os.pathsep.join([os.path.join(REPO, "src"), common.VERIF,
                                           os.path.join(common.VERIF, "tools")]))
    p = subprocess.run([sys.executable, "-c", "from harness.props import c12; c12._worker()"],
                       input=json.dumps(shifted), env=env, cwd=common.VERIF, text=True,
                       stdout=subprocess.PIPE, stderr=subprocess.PIPE, timeout=1200)
    if p.returncode != 0:
        raise RuntimeError("determinism worker failed:\n" + p.stderr[-2000:])
    return json.loads(p.stdout)


# =========================================================================== shrinking

def _clone(x):
    return json.loads(json.dumps(x))


def _remove_node(case: dict, nid: int) -> dict | None:
    c = _clone(case)
    dead = set()

    def rec(g):
        keep = []
        for n in g["nodes"]:
            if n["id"] == nid:
                dead.update(_subtree_ids(n))
            else:
                keep.append(n)
                for s in node_subgraphs(n):
                    rec(s)
        g["nodes"] = keep
    for u in c["units"]:
        rec(u)
    for u in c["units"]:
        for n in walk_nodes(u):
            n["ins"] = [None if (r is not None and r[0] in dead) else r for r in n["ins"]]
    try:
        if c["target"] is not None:
            find_graph(c, c["target"])
    except KeyError:
        return None
    if "history" in c:
        def alive(e):
            if e[0].startswith("noop"):
                return True
            if e[0] == "rewire":
                return e[1] not in dead and (e[3] is None or e[3][0] not in dead)
            if e[0] == "rauw":
                return e[1] not in dead and e[3] not in dead
            if e[0] == "move_end":
                return e[2] not in dead
            return e[2] not in dead and e[3] not in dead
        c["history"] = [[e for e in ph if alive(e)] for ph in c["history"]]
    return c


def shrink(case: dict, fails) -> dict:
    """Greedy minimisation keeping `fails(case)` true."""
    cur = _clone(case)
    changed = True
    while changed:
        changed = False
        if cur["kind"] == "pass" and len(cur["units"]) > 1:
            for i in range(len(cur["units"]) - 1, 0, -1):
                c2 = _clone(cur)
                del c2["units"][i]
                if fails(c2):
                    cur, changed = c2, True
        for k in range(len(cur.get("history", [])) - 1, -1, -1):
            c2 = _clone(cur)
            del c2["history"][k]
            if fails(c2):
                cur, changed = c2, True
                continue
            for j in range(len(cur["history"][k]) - 1, -1, -1):
                c2 = _clone(cur)
                del c2["history"][k][j]
                if fails(c2):
                    cur, changed = c2, True
        for nid in [n["id"] for u in cur["units"] for n in walk_nodes(u)]:
            c2 = _remove_node(cur, nid)
            if c2 is not None and fails(c2):
                cur, changed = c2, True
        for u in cur["units"]:
            for n in list(walk_nodes(u)):
                for i in range(len(n["ins"]) - 1, -1, -1):
                    old = n["ins"][i]
                    if cur.get("history"):          # keep the indices used by rewire edits valid
                        if old is None:
                            continue
                        n["ins"][i] = None
                        if fails(cur):
                            changed = True
                        else:
                            n["ins"][i] = old
                        continue
                    del n["ins"][i]
                    if fails(cur):
                        changed = True
                    else:
                        n["ins"].insert(i, old)
                for i in range(len(n["attrs"]) - 1, -1, -1):
                    a = n["attrs"][i]
                    if a[0] in ("i", "ref", "refg", "refgs") or (a[0] == "gs" and not any(s["nodes"] for s in a[1])) \
                            or (a[0] == "g" and not a[1]["nodes"]):
                        del n["attrs"][i]
                        if fails(cur):
                            changed = True
                        else:
                            n["attrs"].insert(i, a)
        for u in cur["units"]:
            for n in walk_nodes(u):
                if n.get("const"):
                    old_c = n.pop("const")
                    if fails(cur):
                        changed = True
                    else:
                        n["const"] = old_c
                if n.get("anon"):
                    n.pop("anon")
                    if fails(cur):
                        changed = True
                    else:
                        n["anon"] = True
        if cur.get("journal"):
            c2 = dict(cur)
            c2.pop("journal")
            if fails(c2):
                cur, changed = c2, True
        if cur.get("alloc"):
            c2 = dict(cur, alloc=0)
            if fails(c2):
                cur, changed = c2, True
    return cur


def check_case(case: dict) -> tuple[dict, list[str]]:
    """Implementation run + oracle (on the first sort and on every later sort of the history, each against
    the structure and order current at that moment) + in-process determinism (another allocation order)."""
    obs = run_impl(case)
    bad = oracle(case, obs)
    for k, ph in enumerate(obs["phases"]):
        bad += [f"sort #{k + 2} of the history (after edits {case['history'][k]}): {b}" for b in oracle(ph["case"], ph["obs"])]
    obs2 = run_impl(dict(case, alloc=(case.get("alloc", 0) + 1) % 4))
    if obs_sig(obs2) != obs_sig(obs):
        bad.append("result depends on object allocation order, not only on structure and previous order")
    return obs, bad


def is_known(ck, case: dict, bad: list[str]) -> str | None:
    """Map a failing case to a known finding by site: every failure is the TypeError raised for a
    GRAPH-typed reference attribute present in the case."""
    has_refg = any(a[0] == "refg" for u in case["units"] for n in walk_nodes(u) for a in n["attrs"])
    for k in ck._known:
        if k.get("status") == "known" and k.get("site", {}).get("attr_kind") == "refg" and has_refg \
                and all("TypeError" in b or "no cycle" in b for b in bad):
            return k["key"]
    return None


def _oracle_fails(case: dict) -> bool:
    try:
        return bool(check_case(case)[1])
    except Exception:  # noqa: BLE001
        return False


# =========================================================================== main

def load_corpus() -> list[dict]:
    d = os.path.join(common.CORPUS, "C12")
    out = []
    if os.path.isdir(d):
        for fn in sorted(os.listdir(d)):
            if fn.endswith(".json"):
                with open(os.path.join(d, fn)) as f:
                    c = json.load(f)
                c.pop("_comment", None)
                out.append(c)
    return out


def features(ck, case: dict, obs: dict) -> None:
    ck.hist("kinds", case["kind"])
    ck.hist("modes", case.get("mode", "corpus"))
    ck.hist("outcomes", obs["outcome"])
    depth = 0

    def d(g, k):
        nonlocal depth
        depth = max(depth, k)
        for n in g["nodes"]:
            for s in node_subgraphs(n):
                d(s, k + 1)
    captured_after = repeated = optional = multi = 0
    for u in case["units"]:
        d(u, 0)
        anc: dict = {}

        def rec(gr, chain):
            for i, n in enumerate(gr["nodes"]):
                anc[n["id"]] = chain + ((gr["gid"], i),)
                for s in node_subgraphs(n):
                    rec(s, anc[n["id"]])
        rec(u, ())
        for n in walk_nodes(u):
            refs = [tuple(r) for r in n["ins"] if r is not None]
            repeated += len(refs) != len(set(refs))
            optional += any(r is None for r in n["ins"])
            multi += any(r[1] > 0 for r in refs)
            for r in refs:
                if r[0] in anc and anc[r[0]][-1][0] != anc[n["id"]][-1][0]:
                    # captured: producer in an enclosing graph; placed after the enclosing node?
                    gp, ip = anc[r[0]][-1]
                    for (ga, ia) in anc[n["id"]][:-1]:
                        if ga == gp and ip > ia:
                            captured_after += 1
    ck.hist("nesting_depth", str(depth))
    if any(n.get("anon") for u in case["units"] for n in walk_nodes(u)):
        ck.hist("features", "anonymous_node(name=None)" + ("_and_cycle" if obs["outcome"] != "ok" else ""))
    cids = {(n["id"], k) for u in case["units"] for n in walk_nodes(u) for k in n.get("const", [])}
    if any(r is not None and tuple(r) in cids for u in case["units"] for n in walk_nodes(u) for r in n["ins"]):
        ck.hist("features", "consumed_value_has_const_value")
    if any(a[0] in ("refg", "refgs") for u in case["units"] for n in walk_nodes(u) for a in n["attrs"]):
        ck.hist("features", "graph_typed_reference_attribute")
    if captured_after:
        ck.hist("features", "captured_producer_after_control_flow_node")
    if repeated:
        ck.hist("features", "repeated_input")
    if optional:
        ck.hist("features", "optional_none_input")
    if multi:
        ck.hist("features", "multi_output_producer")
    if case["kind"] != "pass" and case["target"] != case["units"][0]["gid"]:
        ck.hist("features", "sort_called_on_nested_graph" + ("_of_function_body" if case["kind"] == "function" else ""))
    if case.get("shared"):
        ck.hist("shared_subgraph_outcomes", obs["outcome"])
    if case.get("journal"):
        ck.hist("features", f"sorted_inside_{case['journal']}_journal(s)")
    moved = any(obs["before"][k] != obs["after"][k] for k in obs["before"])
    if moved:
        ck.hist("features", "order_changed")
    if obs["outcome"] != "ok" or (moved and depth >= 1) or captured_after:
        ck.nontriv(case)


def probe_wf_breakers(ck) -> None:
    """`wf` (no node / graph object twice in the scope) against the public API: which calls can break it.
    (a) a node in two graphs / twice in one graph: rejected by Graph (ValueError) resp. impossible (linked set);
    (b) one Graph object under two attributes: accepted -> the shared-subgraph stream of the correspondence;
    (c) a graph nested in itself: accepted -> RecursionError from the iterator, nothing re-linked (no finite tree
        describes it; oracle-only)."""
    import onnx_ir as ir
    m = ir.Node("", "A", [], name="m")
    g1 = ir.Graph([], [], nodes=[m], name="g1")
    try:
        ir.Graph([], [], nodes=[m], name="g2")
        ck.broken("wf-assumption:node-in-two-graphs", "Graph accepted a node that belongs to another graph")
    except Exception as e:  # noqa: BLE001
        ck.hist("wf_breakers", "node_in_two_graphs:rejected:" + common.exn_name(e))
    g1.append(m)
    ck.hist("wf_breakers", "node_twice_in_one_graph:" + ("kept_once" if [x.name for x in g1] == ["m"] else "DUPLICATED"))
    if [x.name for x in g1] != ["m"]:
        ck.broken("wf-assumption:node-twice-in-graph", "Graph.append of a present node duplicated it")
    a, b = ir.Node("", "A", [], name="a"), ir.Node("", "B", [], name="b")
    n = ir.Node("", "Loop", [], name="n")
    g = ir.Graph([], [], nodes=[n, a, b], name="g")
    n.attributes["body"] = ir.AttrGraph("body", g)
    try:
        g.sort()
        out = "ok"
    except RecursionError:
        out = "RecursionError"
    except Exception as e:  # noqa: BLE001
        out = common.exn_name(e)
    ck.hist("wf_breakers", "graph_nested_in_itself:" + out)
    if [x.name for x in g] != ["n", "a", "b"]:
        ck.violation({"kind": "oracle", "case": None, "failures": ["self-nested graph re-linked although sort raised"],
                      "observed": [x.name for x in g]})
    ck.count(3)


def run(ck) -> None:
    import logging
    logging.disable(logging.WARNING)
    ck.coverage["rule"] = ("non-trivial = the sort raised on a cycle, or moved nodes in a scope with nested graphs, "
                           "or a nested node captures a value whose producer is placed after the control-flow node")
    ck.trust("Coq 8.16.1 kernel (coqc; vm_compute in case files)",
             "harness/props/c12.py (forest generator, IR builder, observation of list(graph), Coq literal printer)",
             "heapq: only its contract is modelled — heappop returns the entry with the smallest key; keys "
             "(-index) are distinct so nodes are never compared (Model.pop_max selects the maximum index)",
             "modelled not verified: DoublyLinkedSet (C11) — Graph.extend on present nodes is modelled as "
             "move-to-end (Model.relink); Graph name authority / node.graph bookkeeping (C01); dict/set iteration "
             "order (per-graph relinking is independent of it — checked by the hash-seed reruns)",
             "RecursiveGraphIterator is modelled by the structural recursion Model.entries_n (node, then its "
             "attribute graphs in attribute order)")
    ck.assumptions += ["no node object and no graph object occurs twice in the sorted scope (wf; a subgraph shared by "
                       "two attributes is outside the property's quantifier); decided by wf_b on every generated case",
                       "stability additionally assumes well-scoped references (producer in the same or an enclosing "
                       "graph), as in the property's quantifier"]
    generate(ck)
    ck.prove()
    probe_wf_breakers(ck)
    n_cases = 600 if not ck.thorough else 12000
    cases: list[tuple[dict, dict]] = []
    failures: list[tuple[dict, list[str]]] = []
    origin: list[dict] = []          # the (possibly multi-step) case each compared sort comes from
    todo = load_corpus()
    ck.coverage["corpus_cases"] = len(todo)
    for i in range(n_cases):
        todo.append(gen_case(ck.rng, small=(i % 3 == 0)))
    for i, case in enumerate(todo):
        obs, bad = check_case(case)
        ck.count()
        features(ck, case, obs)
        if bad:
            failures.append((case, bad))
        cases.append((case, obs))
        origin.append(case)
        for k, ph in enumerate(obs["phases"]):
            # later sorts of the history: the model is applied to the structure/order current at that moment
            ck.count()
            ck.hist("history", "sort_after_edits")
            for e in case["history"][k]:
                ck.hist("history_edits", e[0])
            ck.hist("outcomes", "later:" + ph["obs"]["outcome"])
            if ph["obs"]["before"] != ph["obs"]["after"] or ph["obs"]["outcome"] != "ok":
                ck.nontriv(("later", ph["case"]))
            cases.append((ph["case"], ph["obs"]))
            origin.append(case)
        if i in (0, 1) or (len(ck.coverage["samples"]) < 5 and i > 20 and obs["outcome"] != "ok"):
            ck.sample({"case": case, "before": obs["before"], "after": obs["after"], "outcome": obs["outcome"]})
    ck.coverage["traces_validated_against_impl"] = len(cases)
    # ---- correspondence, decided inside Coq
    try:
        mism = correspondence(ck, cases)
    except RuntimeError as e:
        mism = []
        ck.broken("correspondence:case-file", str(e))
    for i in mism[:3]:
        case, obs = cases[i]
        ck.broken("correspondence:sort_graph",
                  json.dumps({"case": case, "from_history_case": origin[i] if origin[i] is not case else None,
                              "impl_outcome": obs["outcome"], "impl_after": obs["after"],
                              "impl_modified": obs["modified"]}))
    # ---- determinism across processes: other hash seeds and allocation orders must give identical results
    seeds = ["1", "4242"] if not ck.thorough else ["1", "2", "4242", "99991", "random", "random"]
    firsts = [(c, o) for c, o in cases if "phases" in o]          # one entry per generated case (with its history)
    subset = [c for c, _ in firsts] if ck.thorough else [c for c, _ in firsts[:250]]
    for k, hs in enumerate(seeds):
        try:
            others = run_in_subprocess(subset, hs, k + 1)
        except Exception as e:  # noqa: BLE001
            ck.broken("determinism:worker", str(e))
            break
        ck.count(len(subset))
        ck.hist("determinism_reruns", f"PYTHONHASHSEED={hs}", len(subset))
        for (case, obs), o2 in zip(firsts, others):
            if json.loads(json.dumps(obs_sig(o2))) != json.loads(json.dumps(obs_sig(obs))):
                failures.append((case, [f"result differs under PYTHONHASHSEED={hs} / another allocation order: "
                                        f"{obs['after']} vs {o2['after']}"]))
                break
    # ---- known findings still open (none today; the fixed one is a corpus case), then violations
    for k in ck._known:
        if k.get("status") != "known":
            continue
        _, bad = check_case(k["witness"])
        if bad:
            ck.known_finding(k["key"], k["what"])
        else:
            ck.broken(f"known-finding-stale:{k['key']}", "the recorded witness no longer fails")
    reported = set()
    for case, bad in failures:
        key = is_known(ck, case, bad)
        if key:
            ck.known_finding(key, next(k["what"] for k in ck._known if k["key"] == key))
            continue
        import re
        sig = re.sub(r"[\d\[\], >-]+", "#", re.sub(r"^sort #\d+ of the history \(after edits .*?\]\]\): ", "", bad[0]))[:60]
        if sig in reported:
            continue
        reported.add(sig)
        small = shrink(case, _oracle_fails) if _oracle_fails(case) else case
        obs, bad2 = check_case(small)
        ck.violation({"kind": "oracle", "case": small, "failures": bad2 or bad, "before": obs["before"],
                      "after": obs["after"], "outcome": obs["outcome"], "broken": ck.broken_items})
    if ck.broken_items and not ck.violations:
        search(ck)


def search(ck) -> None:
    """A proof obligation or the correspondence broke without an oracle failure so far: look harder for a
    concrete failing input — the diverging cases first (already checked), then fresh cases biased to the
    stability and cycle rules."""
    budget = 3000 if not ck.thorough else 30000
    for i in range(budget):
        case = gen_case(ck.rng, small=(i % 2 == 0))
        if i % 3 != 2 and case["kind"] != "pass":
            # force the stability rule (an already ordered scope) or the cross-scope dependency rules (references
            # leaving their scope): re-generate the unit; the old history / flags do not apply to it
            ids, gids = [0], [0]
            mode = "sorted" if i % 3 == 0 else "illscoped"
            case = {"kind": case["kind"], "units": [gen_unit(ck.rng, ids, gids, mode, ck.rng.choice([4, 8, 14]))],
                    "target": None, "alloc": case.get("alloc", 0), "mode": mode}
            case["target"] = case["units"][0]["gid"]
        ck.count()
        try:
            obs, bad = check_case(case)
        except Exception:  # noqa: BLE001      (a case the harness cannot run is not evidence of anything)
            continue
        if bad:
            small = shrink(case, _oracle_fails)
            try:
                obs, bad2 = check_case(small)
            except Exception:  # noqa: BLE001
                small = case
                obs, bad2 = check_case(case)
            ck.violation({"kind": "oracle-after-broken-obligation", "case": small, "failures": bad2 or bad,
                          "before": obs["before"], "after": obs["after"], "outcome": obs["outcome"],
                          "broken": ck.broken_items})
            return


def replay(rp: dict) -> int:
    case = rp.get("case")
    if case is None:
        print("replay names a broken obligation/correspondence, no concrete input:",
              json.dumps(rp.get("broken"), indent=1)[:3000])
        return 1
    obs, bad = check_case(case)
    print(json.dumps({"case": case, "before": obs["before"], "after": obs["after"], "outcome": obs["outcome"],
                      "failures": bad}, indent=1))
    return 1 if bad else 0

"""C08 — an interrupted external-data save never damages an existing data file.

Decided by: Coq theorems (coq/theories/C08/Property.v) about the executable model C08/Model.v of
`_write_external_data` / `_ExternalDataWriter._write_serial` / the sharded path of
`_write_external_tensors` / the "load small external tensors first" step of `unload_from_model`
(src/onnx_ir/external_data.py) and `ExternalTensor.release/invalidate/valid/tobytes/tofile` (_core.py), over a
small file-system model (path -> File bytes mode | Dir | Link).  A save is a structured program
(sequence / try-finally) of atomic actions; every action that reaches the OS or a hook is a counted effect
that can be a kill point (`crash_at`) or raise OSError (`fault_at`).

Tie (this module + _c08_shim.py): the FS-affecting names of onnx_ir.external_data (os, os.path, shutil,
tempfile, open -> proxy file objects) and ExternalTensor.release/invalidate are rebound to logging proxies.
For every generated scenario
  (i)   the logged effect sequence of the un-interrupted `ir.save` must equal the model's trace,
  (ii)  EVERY effect index is failed in-process with OSError(ENOSPC/EACCES/EXDEV/...) and the outcome,
        the complete log (handlers included), the directory (names, bytes, modes) and valid()/tobytes()
        of every ExternalTensor are compared with `run_with_fault k`,
  (iii) EVERY effect index is used as a kill point in a forked child (os._exit inside the proxy) and the
        directory left behind is compared with `run_prefix k`.
The comparison runs inside Coq (case files, vm_compute, only failing indices are printed).
Independently the property oracle (`oracle_*` below: the property statement on the real directory) is
evaluated on every interrupted run; the parallel writer (max_workers > 1), whose effect order is schedule
dependent, is checked by the oracle only (kill/fault at every effect count).

Readings of the English (weaker reading where ambiguous):
  * "if producing the new data file fails with an exception": the failing effect is any effect up to and
    including os.replace (or a tensor/callback raising).  A fault injected into the cleanup itself
    (os.remove/os.rmdir of the `finally`) necessarily leaves what it failed to remove; for those only
    atomicity of the destination is required (single-fault assumption, stated in the theorem through the
    logged `OFail true`).
  * "external tensors reading from it are still valid": valid() is True and tobytes() returns the old bytes.
  * temp names: mkdtemp returns a fresh, unpredictable name (contract, hypothesis `single_wf`/`shard_wf`).
  * process death = os._exit between two effects; no power-loss model (page cache), os.replace is atomic
    (modelled, not verified).  The proxy file is unbuffered so that "k effects performed" means the same on
    disk and in the model.

Theorems (coq/theories/C08/Property.v, all "Closed under the global context"; none partial):
  C08_crash_atomic               for every input and every prefix length k: at most k effects happened and the
                                 destination node is its old node, or a File whose bytes are exactly
                                 `image` (every tensor's bytes at its offset, holes = zeros), the latter only
                                 with OReplace among the first k effects.  Hypotheses: single_wf (mkdtemp fresh,
                                 dest not a directory), src_wf (ExternalTensor sources not inside the temp dir).
  C08_interrupt_atomic           the same for any kill point combined with any single injected fault and any
                                 kind of tensor/callback exception.
  C08_new_is_image               the completely written temp file holds `image` for EVERY tensor kind, incl.
                                 the chunked copy loop of ExternalTensor.tofile (any chunk size; short sources
                                 make the loop raise, so they never reach the rename) - Proofs6.copy_Cont.
  C08_crash_atomic_parallel,     the PARALLEL writer (_write_parallel; sc_par = Some total) is in the model:
  C08_interrupt_atomic_parallel  open(wb), truncate(total), close; after the first task's callback the worker's
                                 open(r+b); per task callback, seek, writes; finally close - under the maximally
                                 serialised schedule (one task at a time, submission order, one worker).  Same
                                 statements as the serial ones with the complete new bytes = every tensor's bytes at
                                 its offset over `total` zero bytes (image_from (repeat 0 total)); every fault at
                                 open/truncate/write/close and every kill point is covered by ctl.  All structural
                                 theorems (exception_clean, invalidate rule, bystanders, interrupt_structural) hold
                                 for either writer (the decomposition is generic in the writer program).
                                 C08_crash_atomic / C08_interrupt_atomic / C08_new_is_image now say sc_par = None.
  C08_parallel_bytes_are_serial_bytes,  image_from (repeat 0 total) l = image l when every range lies within `total`
  C08_interrupt_atomic_parallel_serial_image  and total is the end of the last range: the parallel theorems restated with
                                 the serial `image` (Proofs8: pointwise characterisation of write_at, zero padding is
                                 invisible pointwise).
  C08_copy_file_range_complete,  ExternalTensor.tofile's copy_file_range loop is a modelled loop (C08/Cfr.v: kernel answers =
  C08_copy_file_range_short_source_raises,  arbitrary stream of short copies / 0 / fallback errno / fatal errno, then the
  C08_copy_file_range_total      chunked userspace loop): returns normally only after exactly n bytes were copied (needs the
                                 source to hold them); a short source always raises; a long enough source is always
                                 copied completely.  Tie: `exercise_cfr` runs the real tofile on real files with
                                 _core.os.copy_file_range scripted (short copies performed for real) and compares
                                 (outcome, kernel bytes, userspace bytes) with tofile_fast inside Coq; oracle: returned
                                 normally => every byte copied and the bytes are the source's.
  C08_plan_is_translated_source  `generate(ck)` translates the statement sequence of external_data._write_external_data
                                 (ast, fail-closed: every statement must be one of the recognised forms) into
                                 Gen/C08Gen.v on every run; C08/Skel.v gives the statements their meaning (sequence,
                                 try/finally = PTry, suppress(FileNotFoundError), the two loops); the theorem says
                                 that meaning IS plan_single.  A moved/dropped/added step or finally->except breaks
                                 the translation or the theorem (obligation `translate:C08Gen` / proof broken).
  C08_sharded_plan_is_translated_source  the same for _check_no_existing_shard_files (os.path.exists on every destination,
                                 FileExistsError before anything is written) and the sharded branch of
                                 _write_external_tensors (pre-flight before the per-shard saves): their translated
                                 statement sequences mean plan_sharded.
  C08_model_file_failure,        ir.save is the entry point of the model too: run_io = the data save followed by
  C08_io_same_directory,         ASaveModel (onnx.save of the model file; counted effect: kill point, ENOSPC).  Once
  C08_io_sharded_same_directory  the data write succeeded the destination holds exactly the complete new bytes whatever
                                 happens at the model file; in general run_io's directory and tensors are those of
                                 run, so every theorem transfers.  The case files evaluate run_io / run_sharded_io.
  C08_interrupt_structural       without src_wf: old node or a file moved wholesale after every action between
                                 temp creation and os.replace returned normally.
  C08_exception_clean            exception of ANY kind (Exception or BaseException-only: KeyboardInterrupt /
                                 SystemExit = OtherError in the shared enum, Model.is_base_exception), no kill,
                                 fault not in the cleanup: the WHOLE directory equals the initial one (dest = old,
                                 no temp file/dir, nothing else touched), validity flags unchanged.  Single-fault
                                 assumption is in the statement.  The model's handlers are PTry (= `finally`,
                                 runs for every kind), which is what _write_external_data uses; the kinds are
                                 explicit in ACallback/AEvalRaise/TLazyRaise/TMulti/sc_cb.
  C08_exception_tensors_read_old ... and every ExternalTensor reads what it read before.
  C08_sharded_never_overwrites   run_sharded under any interruption leaves every pre-existing path unchanged.
  C08_invalidate_only_if_replaced  invalid afterwards -> invalid before, or samefile(dest) and dest replaced.
  C08_bystanders_untouched       a single-file save never changes any other pre-existing path.
  C08_samefile_valueerror_before_fix  record of the repaired finding: the old witness (NUL in a location) now
                                 raises ValueError BEFORE mkdtemp and leaves the directory untouched.
Findings, both REPAIRED in /repo (known_findings.d/C08.json status "fixed", witnesses in corpus/C08/10,11 and
replayed as regression cases on every run):
  fixed: property=C08 66e131a  os.path.samefile raised ValueError (NUL in a location) after mkdtemp and outside the
         try -> temp dir leaked.  Model: probes (ASameFile/ASameFileNul/ASameFileAlias) now precede AMkdtemp; the
         hypothesis nul_free is gone from C08_exception_clean again.
  fixed: property=C08 8df84db  a tensor reading through ANOTHER hard link of the destination was invalidated although
         its file kept the old inode and bytes.  Model: hard links of the destination are a static input
         (sc_aliases, ASameFileAlias logs samefile=True); `overwritten` (released) = samefile or alias,
         `invalidated` = those with realpath(tensor.path) = realpath(destination); plan_post performs the two kinds
         of realpath probes like the code; C08_invalidate_only_if_replaced states the realpath rule.  Path-map
         entries are otherwise independent files, exact as long as nothing writes in place (which the frame
         theorems prove for the plan and the trace equality checks for the code).
Every call the module makes into os / os.path / shutil / tempfile goes through a proxy of the WHOLE namespace: the
modelled calls are logged by kind; any other callable (os.chmod, os.stat, shutil.move ...; pure helpers such as
os.path.join excepted) is logged as an unmodelled effect (breaks the trace equality), is a kill point, and is
failed by NAME with EPERM - so an exception surfacing after the rename has committed is seen by the oracle.
Scenarios where the caller holds a live numpy view of a (destination-backed) tensor: release() raises
BufferError (model: AReleaseHeld / sc_held; it happens before the rename, so the save fails cleanly).
Deterministic parallel flavour (model-tied): scenarios with "pardet" replace the module's `concurrent` name by a
one-worker executor that runs one task at a time in submission order on the calling thread (a legal schedule of
the pool; exceptions captured in futures like the real one), so the parallel code path has a reproducible effect
order: its trace, every fault (incl. truncate, open r+b, the worker handle's close) and every kill point are
compared with the Coq model like the serial writer's.  Real multi-thread schedules stay oracle-only
(`exercise_parallel`) and are C09's subject.
Model-file failures (oracle only, `exercise_modelsave`): every scenario whose save succeeds is saved again through
ir.save with a failure AFTER the data write, while the model file is written - ENOSPC injected into onnx.save,
a directory at the model path, an unknown format.  The save must raise; an existing destination data file holds
its old bytes or the complete new bytes, never missing; no temporary leftovers; nothing else changes.
Real-file flavour (oracle only, `exercise_realfile`): every single-file scenario is also saved with the module's
own open() (ordinary buffered files with a descriptor; ExternalTensor.tofile takes its copy_file_range path, numpy
writes through the fd), serial and with max_workers=3, and judged against the run through the modelled file path
(same outcome class, same destination bytes).  Sources shorter than offset+length (truncated data file, also the
destination itself re-saved in place) must make the save raise and leave the destination.
A fault at close() exists in two forms: plain (model-tied), and "lossy" = the bytes written since the last
seek/flush - which a real buffered file would still hold in userspace - are turned back into a hole before the
OSError is raised (ENOSPC/EFBIG/EIO at flush time); lossy is what the parallel writer's faults use, and the
oracle requires "a save that returns normally holds the complete new bytes".
Interruptions injected by the generator: os.replace is additionally failed with PermissionError (EACCES,
EPERM), once and persistently (every retry fails too); after every injected fault every later effect - the
effects that only exist on error paths - is also a kill point (ctl with both crash_at and fault_at), and the
log after a fault must equal the model's (an extra os.remove(destination) breaks it).  Scenarios contain a
second data file with the SAME relative location in another base directory (b/m.data vs m.data). OSError at every FS effect; os._exit at every effect; and from tensors
(lazy evaluation, third-party tofile between two chunks) and callbacks: RuntimeError, KeyboardInterrupt and
SystemExit (serial and max_workers>1) - the last two are what a Ctrl-C / sys.exit() in a SIGTERM handler look
like to the save, and they bypass any `except Exception` cleanup.
Model choices worth knowing: an empty write changes nothing (write_at f off [] = f), a hole reads as zeros; the control flow of the plan is resolved on the initial file system (islink,
samefile, exists are re-evaluated dynamically only for the logged result); the tie compares both, so a
divergence shows up as a trace mismatch.  Hard links are independent files in the model (true as long as
nothing writes in place - which is what the trace equality checks).  Parallel writer (max_workers>1): not
modelled (C09's subject); oracle only.  copy_file_range fast path of ExternalTensor.tofile is not exercised
(the proxy file has no fileno, so the documented chunked fallback runs).

Adjacent observation (NOT a C08 violation, reported to the orchestrator): after ir.save(..., external_data=p)
a *small* ExternalTensor (<= size_threshold_bytes) backed by p is put back into the model by save()'s
restore, is still valid() but reads the bytes of the NEW file (stale) - the save() docstring promises
invalidation.  C08 only says "invalidated only when replaced", which holds.

Mutants tried (scratch worktree /tmp/wt-C08, VERIF_REPO), all reported VIOLATION at seed 0, quick tier:
  M1 invalidate loop moved before os.replace            -> oracle replay (fault at replace: tensor invalid, file not replaced)
  M2 os.rmdir moved out of the finally (success only)   -> oracle replay (temp dir left after an exception)
  M3 _check_no_existing_shard_files(paths[1:])          -> oracle replay (sharded save changed a pre-existing file)
  M4 write in place when no input tensor reads dest     -> oracle replay (destination gone / hard link changed)
  M5 small external tensors loaded after the write      -> correspondence only (trace), no-failing-input-found
  M6 symlinked destination not resolved (no realpath)   -> oracle replay (pre-existing symlink replaced)
  M7 os.remove dropped from the finally                 -> oracle replay (temp file+dir left)
  seeded C08-m3 (finally -> `except Exception: cleanup; raise` + rmdir on success)
                                                         -> oracle replay (SystemExit/KeyboardInterrupt from a tensor or
                                                            callback leaves .m.data.XXXX/ behind); before BaseException
                                                            kinds were injected this was only a correspondence break
  seeded C08-r2m1 (overwritten detection cached by tensor.location) -> oracle replay (tensor of b/m.data invalidated,
                                                            file not replaced); r2m2 (PermissionError handler unlinks the
                                                            destination and retries) -> oracle replays (persistent EACCES:
                                                            destination gone after the failed save; fault then kill between
                                                            unlink and retry); r2m3 -> oracle replay
  seeded C08-r3m1 (revert of the realpath rule) -> oracle replay; r3m2 (mode copied by os.chmod AFTER os.replace) ->
                                                            oracle replay (EPERM injected into os.chmod by name: the save
                                                            raises, destination already new); r3m3 (release after the rename
                                                            on POSIX) -> oracle replay (live numpy view: BufferError after the
                                                            destination was replaced)
  seeded C08-r4m1 (worker handles closed under suppress(OSError) in _write_parallel) -> oracle replay (lossy close fault:
                                                            save returns normally, destination lost bytes); r4m3 (`else: return`
                                                            after the copy_file_range loop) -> oracle replay (real-file flavour,
                                                            truncated source: save succeeds with an incomplete file)
  seeded C08-r5m1 (ir.save removes join(base_dir, external_data) when onnx.save fails) -> oracle replay (model-file
                                                            failure after the data write: destination data file missing)
  seeded C08-r6m1 (mkdtemp replaced by a stable `.<file>.tmp` directory, makedirs exist_ok) -> oracle replay (a pre-existing
                                                            `.<file>.tmp/<file>` is clobbered / removed: pre-existing path changed)
  seeded C08-r2m1 on the realpath-rule HEAD: with the non-destination tensor declared first the cache says "not the same
                                                            file" for the shared location and the destination-backed tensor
                                                            stays valid -> oracle replay (rule 4b, corpus 09)
Unchanged tree: quiet for VERIF_SEED 0..4 (two `fixed:` lines).
"""

from __future__ import annotations

import json
import os
import shutil

from harness import common
from harness.common import REPO, cN, cbool, clist, cnat, copt
from harness.props import _c08_shim as S

SRC = os.path.join(REPO, "src", "onnx_ir", "external_data.py")

CASE_HEADER = """From Coq Require Import List Bool Arith NArith.
From IRV Require Import Base.Exn C08.Model.
Import ListNotations.
Definition mk (c f : option nat) : ctl := {| crash_at := c; fault_at := f |}.
"""


# --------------------------------------------------------------------------- scenario -> Coq

class Tok:
    def __init__(self):
        self.ids: dict[str, int] = {}

    def __call__(self, comps) -> str:
        out = []
        for c in comps:
            if c == "NUL":                     # a component with an embedded NUL character: token 0 (Model.has_nul)
                out.append(cN(0))
                continue
            if c not in self.ids:
                self.ids[c] = len(self.ids) + 1
            out.append(cN(self.ids[c]))
        return clist(out)


def c_exn(name) -> str:
    """Exception kind in the shared enum: the BaseException-only kinds are reported as OtherError
    (Model.is_base_exception)."""
    return "RuntimeError" if (name or "RuntimeError") == "RuntimeError" else "OtherError"


def c_bytes(b) -> str:
    return clist(cN(x) for x in b)


def c_node(node, tok) -> str:
    if node[0] == "file":
        return f"(File {c_bytes(node[1])} {cN(node[2])})"
    if node[0] == "dir":
        return "Dir"
    return f"(Link {tok(node[1])})"


def c_fs(listing, tok) -> str:
    return clist(f"({tok(c)}, {c_node(n, tok)})" for c, n in listing)


def c_ob(e, tok) -> str:
    k = e[0]
    if k == "islink":
        return f"OIsLink {tok(e[1])} {cbool(e[2])}"
    if k == "realpath":
        return f"ORealpath {tok(e[1])} {tok(e[2])}"
    if k == "mkdtemp":
        return f"OMkdtemp {tok(e[1])}"
    if k == "samefile":
        return f"OSameFile {tok(e[1])} {tok(e[2])} {cbool(e[3])}"
    if k == "samefile_err":
        return f"OSameFileErr {tok(e[1])} {tok(e[2])}"
    if k == "open" and e[2] == "wb":
        return f"OOpenW {tok(e[1])}"
    if k == "open" and e[2] == "r+b":
        return f"OOpenRW {tok(e[1])}"
    if k == "truncate" and isinstance(e[1], int):
        return f"OTruncate {cnat(e[1])}"
    if k == "callback":
        return f"OCallback {cnat(e[1])}"
    if k == "seek":
        return f"OSeek {cnat(e[1])}"
    if k == "write":
        return f"OWrite {cnat(e[1])} {c_bytes(e[2])}"
    if k == "close":
        return "OClose"
    if k == "release":
        return f"ORelease {cnat(e[1])}"
    if k == "invalidate":
        return f"OInvalidate {cnat(e[1])}"
    if k == "exists":
        return f"OExists {tok(e[1])} {cbool(e[2])}"
    if k == "copymode":
        return f"OCopymode {tok(e[1])} {tok(e[2])}"
    if k == "replace":
        return f"OReplace {tok(e[1])} {tok(e[2])}"
    if k == "remove":
        return f"ORemove {tok(e[1])}"
    if k == "rmdir":
        return f"ORmdir {tok(e[1])}"
    if k == "model_save":
        return "OModelSave"
    if k == "fail":
        return f"OFail {cbool(e[1])}"
    # an effect the model has no name for (e.g. a mutant opening the destination "r+b"): make the
    # traces differ for sure
    return "OSeek 4999%nat"


def c_sig(outcome) -> str:
    if outcome[0] == "ok":
        return "SOk"
    if outcome[0] == "crash":
        return "SCrash"
    return f"(SRaise {common.exn_name(outcome[1]) if not isinstance(outcome[1], str) else outcome[1]})"


def c_tobs(tobs) -> str:
    return clist(f"({cbool(v)}, {'(Ok ' + c_bytes(r[1]) + ')' if r[0] == 'ok' else '(Raise ' + r[1] + ')'})"
                 for v, r in tobs)


def layout(scn: dict, root: str):
    """The write plan the real code will follow, obtained from the real layout/sharding functions:
    [(req relative path, [(offset, tensor index)])], sharded?"""
    from onnx_ir import external_data as ed
    from onnx_ir._shard_filename import get_shard_filename

    class _T:
        def __init__(self, n, i):
            self.nbytes, self.name, self.i = n, f"w{i}", i
    big = []
    for i, t in enumerate(scn["tensors"]):
        n = tensor_nbytes(t)
        if n > scn["threshold"]:
            big.append(_T(n, i))
    if scn.get("max_shard") is None:
        groups = [(scn["req"], big)]
    else:
        shards = ed._shard_tensors(big, scn["max_shard"], None, ed._DEFAULT_ALIGN_THRESHOLD)
        groups = [(get_shard_filename(scn["req"], i + 1, len(shards)), g) for i, g in enumerate(shards)]
    out = []
    for req, g in groups:
        cur, items = 0, []
        for t in g:
            info = ed._compute_external_data_info(t, cur)
            items.append((info.offset, t.i))
            cur = info.offset + info.length
        out.append((req, items))
    return out


def tensor_nbytes(t: dict) -> int:
    k = t["kind"]
    if k in ("mem", "lazy_raise"):
        return t["n"]
    if k in ("ext", "small"):
        return t["len"]
    return sum(t["chunks"])


def scenario_terms(scn: dict, root: str, tok: Tok, tag: str):
    """Coq definitions fs_<tag>, tens_<tag>, small_<tag>, scs_<tag> (list of scn, one per data file)."""
    b = S.build(scn, root)
    names = S.initial_names(root)
    canon = S.Canon(root, names)
    fs0 = S.observe(root, canon)
    tens, small, held, handle_of = [], [], [], {}
    for i, t in enumerate(scn["tensors"]):
        if t["kind"] in ("ext", "small"):
            h = len(tens)
            handle_of[i] = h
            m = None
            if S.wants_map(scn, t):
                with open(os.path.join(root, t["file"]), "rb") as f:
                    m = f.read()
            tens.append("{| t_path := %s; t_off := %s; t_len := %s; t_valid := true; t_map := %s |}" % (
                tok(canon.comps(t["file"])), cnat(t["off"]), cnat(t["len"]), copt(m, c_bytes)))
            if t["len"] <= scn["threshold"]:
                small.append(h)
            elif S.wants_hold(scn, t):
                held.append(h)
    S.cleanup(b)
    scs = []
    base = 0
    for req, items in layout(scn, root):
        reqp = os.path.join(root, req)
        dest = os.path.realpath(reqp) if os.path.islink(reqp) else reqp
        tmpd = canon.comps(os.path.join(os.path.dirname(dest), "." + os.path.basename(dest) + ".XXXXXXXX"))
        tl = []
        for off, i in items:
            t = scn["tensors"][i]
            k = t["kind"]
            if k == "mem":
                sp = f"TMem {c_bytes(S._bytes(t['seed'], t['n']))}"
            elif k == "ext":
                sp = f"TExt {cnat(handle_of[i])}"
            elif k == "lazy_raise":
                sp = f"(TLazyRaise {c_exn(t.get('exc'))})"
            else:
                data, pos, chunks = S._bytes(t["seed"], sum(t["chunks"])), 0, []
                for c in t["chunks"]:
                    chunks.append(c_bytes(data[pos:pos + c]))
                    pos += c
                sp = f"TMulti {clist(chunks)} {copt(t.get('raise_after'), cnat)} {c_exn(t.get('exc'))}"
            tl.append(f"({cnat(off)}, {sp})")
        cb = scn.get("cb")
        if cb is None:
            cbt = "None"
        elif cb == "ok":
            cbt = "(Some None)"
        elif isinstance(cb, dict):
            cbt = f"(Some (Some ({cnat(cb['at'])}, {c_exn(cb.get('exc'))})))"
        else:
            cbt = f"(Some (Some ({cnat(cb)}, RuntimeError)))"
        destrel = os.path.relpath(dest, os.path.realpath(root))
        aliases = [tok(canon.comps(name)) for name, spec in scn["files"].items()
                   if spec["kind"] == "hardlink" and os.path.normpath(spec["target"]) == destrel]
        scs.append("{| sc_req := %s; sc_tmpd := %s; sc_tensors := %s; sc_chunk := %s; sc_cb := %s; sc_cbbase := %s; "
                   "sc_aliases := %s; sc_held := %s; sc_par := %s |}" % (
                       tok(canon.comps(req)), tok(tmpd), clist(tl), cnat(min(scn.get("chunk") or 4000, 4000)), cbt,
                       cnat(base), clist(aliases), clist(cnat(h) for h in held),
                       copt(max([o + tensor_nbytes(scn["tensors"][i]) for o, i in items], default=0), cnat)
                       if scn.get("pardet") and (scn.get("max_workers") or 1) > 1 and len(items) > 1 else "None"))
        base += len(items)
    text = (f"Definition fs_{tag} : fsT := {c_fs(fs0, tok)}.\n"
            f"Definition tens_{tag} : list tstate := {clist(tens)}.\n"
            f"Definition small_{tag} : list nat := {clist(cnat(h) for h in small)}.\n"
            f"Definition scs_{tag} : list scn := {clist(scs)}.\n")
    return text, canon, fs0


def run_term(scn: dict, tag: str, crash, fault) -> str:
    c = f"(mk {copt(crash, cnat)} {copt(fault, cnat)})"
    if scn.get("max_shard") is None:
        return f"(run_io {c} fs_{tag} tens_{tag} small_{tag} (hd (Build_scn [] [] [] 0 None 0 [] [] None) scs_{tag}))"
    return f"(run_sharded_io {c} fs_{tag} tens_{tag} small_{tag} scs_{tag})"



# --------------------------------------------------------------------------- translation of the source (fail-closed)

_PURE_CALLEES = {"os.fspath", "os.path.dirname", "os.path.basename", "os.path.join", "_ExternalDataWriter",
                 "_create_tensor_write_locks", "logger.warning"}


class Untranslatable(Exception):
    pass


def _u(node) -> str:
    import ast
    return ast.unparse(node)


def _is_pure(st) -> bool:
    """An assignment / logging statement all of whose calls are known to have no file-system, tensor or writer
    effect."""
    import ast
    if not isinstance(st, (ast.Assign, ast.AnnAssign, ast.Expr)):
        return False
    for n in ast.walk(st):
        if isinstance(n, ast.Call) and _u(n.func) not in _PURE_CALLEES:
            return False
        if isinstance(n, (ast.Await, ast.Yield, ast.YieldFrom, ast.NamedExpr)):
            return False
    return True


def _stm(st, in_loop: bool = False) -> str:
    """One Python statement of _write_external_data -> a term of C08/Skel.v's `stm` (or Untranslatable)."""
    import ast
    text = _u(st)
    if isinstance(st, ast.Assign) and len(st.targets) == 1:
        tgt, val = _u(st.targets[0]), _u(st.value)
        if tgt == "destination_path" and val == ("os.path.realpath(requested_path) if os.path.islink(requested_path) "
                                                 "else requested_path"):
            return "SAssignDest"
        if tgt == "overwritten_tensors" and val == ("[tensor for tensor in tensors if isinstance(tensor, "
                                                    "_core.ExternalTensor) and _paths_refer_to_same_file(tensor.path, "
                                                    "destination_path)]"):
            return "SOverwritten"
        if tgt == "temporary_dir" and val == ("tempfile.mkdtemp(dir=destination_dir, "
                                              "prefix=f'.{os.path.basename(destination_path)}.')"):
            return "SMkdtemp"
        if tgt == "replaced_path" and val == "os.path.realpath(destination_path)":
            return "SRealpathDest"
    if isinstance(st, ast.Expr):
        if text == "writer.write()":
            return "SWriterWrite"
        if text == "os.replace(temporary_path, destination_path)":
            return "SReplace"
        if text == "shutil.copymode(destination_path, temporary_path)":
            return "SCopymode"
        if text == "os.remove(temporary_path)":
            return "SRemoveTmp"
        if text == "os.rmdir(temporary_dir)":
            return "SRmdirTmp"
        if in_loop and text == "tensor.release()":
            return "SRelease"
        if in_loop and text == "tensor.invalidate()":
            return "SInvalidate"
    if isinstance(st, ast.For) and not st.orelse and _u(st.target) == "tensor" and _u(st.iter) == "overwritten_tensors":
        return "(SForOverwritten %s)" % clist(_stm(x, True) for x in st.body)
    if isinstance(st, ast.If) and not st.orelse:
        test = _u(st.test)
        if test == "os.path.exists(destination_path)":
            return "(SIfExists %s)" % clist(_stm(x, in_loop) for x in st.body)
        if in_loop and test == "os.path.realpath(tensor.path) != replaced_path" and len(st.body) == 1 \
                and isinstance(st.body[0], ast.Continue):
            return "SIfRealpathDiffersContinue"
    if isinstance(st, ast.With) and len(st.items) == 1 and st.items[0].optional_vars is None \
            and _u(st.items[0].context_expr) == "contextlib.suppress(FileNotFoundError)" and len(st.body) == 1:
        return "(SSuppressFNF %s)" % _stm(st.body[0], in_loop)
    if isinstance(st, ast.Try) and not st.handlers and not st.orelse and st.finalbody:
        return "(STry %s %s)" % (clist(_stm(x, in_loop) for x in st.body), clist(_stm(x, in_loop) for x in st.finalbody))
    if _is_pure(st):
        return "SPure"
    raise Untranslatable(f"line {getattr(st, 'lineno', '?')}: {text[:160]}")


_SHARD_PURE_CALLEES = {"_create_tensor_write_locks", "_shard_tensors", "len", "_get_shard_filename", "str", "range",
                       "os.path.join", "_make_shard_callback", "zip", "shard_jobs.append"}


def _pure_in(st, allowed: set) -> bool:
    """Statement (possibly a for loop of such statements) all of whose calls are in `allowed`."""
    import ast
    if isinstance(st, ast.For):
        return not st.orelse and all(_pure_in(x, allowed) for x in st.body) and \
            all(_u(n.func) in allowed for n in ast.walk(st.iter) if isinstance(n, ast.Call))
    if isinstance(st, ast.Return):
        return isinstance(st.value, ast.Name)
    if not isinstance(st, (ast.Assign, ast.AnnAssign, ast.AugAssign, ast.Expr)):
        return False
    return all(_u(n.func) in allowed for n in ast.walk(st) if isinstance(n, ast.Call))


def _sstm(st) -> str:
    """One statement of _write_external_tensors -> `sstm`."""
    import ast
    if isinstance(st, ast.If) and not st.orelse and _u(st.test) == "max_shard_size_bytes is None" \
            and len(st.body) == 1 and isinstance(st.body[0], ast.Return) \
            and isinstance(st.body[0].value, ast.Call) and _u(st.body[0].value.func) == "convert_tensors_to_external":
        return "SSSingleBranch"
    if isinstance(st, ast.Expr) and _u(st) == "_check_no_existing_shard_files(destination_paths)":
        return "SSPreflight"
    if isinstance(st, ast.If) and not st.orelse \
            and _u(st.test) == "max_workers is not None and max_workers > 1 and (len(shard_jobs) > 1)" \
            and isinstance(st.body[-1], ast.Return) and _u(st.body[-1]) == "return external_tensors" \
            and not any(isinstance(n, ast.Call) and (_u(n.func).startswith(("os.", "shutil.", "tempfile.", "open"))
                                                     or _u(n.func) == "_check_no_existing_shard_files")
                        for n in ast.walk(st)):
        return "SSParallelShards"
    if isinstance(st, ast.For) and not st.orelse and _u(st.iter) == "shard_jobs" and len(st.body) == 1 \
            and isinstance(st.body[0], ast.Expr) and isinstance(st.body[0].value, ast.Call) \
            and _u(st.body[0].value.func) == "external_tensors.extend" and len(st.body[0].value.args) == 1 \
            and isinstance(st.body[0].value.args[0], ast.Call) \
            and _u(st.body[0].value.args[0].func) == "convert_tensors_to_external":
        return "SSForShardsConvert"
    if _pure_in(st, _SHARD_PURE_CALLEES):
        return "SSPure"
    raise Untranslatable(f"_write_external_tensors line {getattr(st, 'lineno', '?')}: {_u(st)[:160]}")


def _pstm(st) -> str:
    """One statement of _check_no_existing_shard_files -> `pstm`."""
    import ast
    if isinstance(st, ast.Assign) and _u(st) == ("existing = [os.fspath(path) for path in destination_paths "
                                                 "if os.path.exists(path)]"):
        return "PExistsEach"
    if isinstance(st, ast.If) and not st.orelse and _u(st.test) == "existing" and st.body \
            and isinstance(st.body[-1], ast.Raise) and isinstance(st.body[-1].exc, ast.Call) \
            and _u(st.body[-1].exc.func) == "FileExistsError" \
            and all(_pure_in(x, {"', '.join", "repr"}) for x in st.body[:-1]):
        return "PIfExistingRaise"
    raise Untranslatable(f"_check_no_existing_shard_files line {getattr(st, 'lineno', '?')}: {_u(st)[:160]}")


def _body(mod, name: str):
    import ast
    fn = next(n for n in mod.body if isinstance(n, ast.FunctionDef) and n.name == name)
    body = fn.body
    if body and isinstance(body[0], ast.Expr) and isinstance(getattr(body[0], "value", None), ast.Constant) \
            and isinstance(body[0].value.value, str):
        body = body[1:]
    return body


def generate(ck) -> bool:
    """Gen/C08Gen.v, regenerated from the source tree on every run: the statement sequences of
    external_data._write_external_data, _check_no_existing_shard_files and (the sharded branch of)
    _write_external_tensors as terms of C08/Skel.v.  C08/GenEquiv.v proves that their meaning is the model's
    plan_single / plan_sharded."""
    import ast
    try:
        with open(SRC, encoding="utf-8") as f:
            mod = ast.parse(f.read())
        terms = [_stm(st) for st in _body(mod, "_write_external_data")]
        pterms = [_pstm(st) for st in _body(mod, "_check_no_existing_shard_files")]
        sterms = [_sstm(st) for st in _body(mod, "_write_external_tensors")]
    except (Untranslatable, StopIteration, SyntaxError, OSError) as e:
        ck.gen_failed("C08Gen", e)
        return False
    text = ("(* GENERATED by /verif/harness/props/c08.py (generate) from src/onnx_ir/external_data.py on every run - "
            "do not edit. *)\nFrom Coq Require Import List.\nFrom IRV Require Import Base.Exn C08.Model C08.Skel.\n"
            "Import ListNotations.\n\n(* translated from external_data.py::_write_external_data (statement sequence) *)\n"
            "Definition write_external_data_body : list stm :=\n  " + clist(terms).replace("; ", ";\n   ") + ".\n\n"
            "(* translated from external_data.py::_check_no_existing_shard_files *)\n"
            "Definition check_no_existing_body : list pstm := " + clist(pterms) + ".\n\n"
            "(* translated from external_data.py::_write_external_tensors *)\n"
            "Definition sharded_branch_body : list sstm :=\n  " + clist(sterms) + ".\n")
    ck.gen("C08Gen", text)
    return True


# --------------------------------------------------------------------------- oracle (the property itself)

def _dest_path(scn: dict, root: str, req: str) -> str:
    p = os.path.join(root, req)
    return os.path.realpath(p) if os.path.islink(p) else p


snapshot = S.snapshot


def oracle(scn: dict, root: str, before: dict, after: dict, outcome: str, failed_kind: str | None,
           new_bytes: dict | None, tens_before: list | None, built=None, after_commit: bool = False) -> list[str]:
    """Violations of the property statement visible on the real directory after an interrupted save.
    outcome: 'ok' | 'raise' | 'killed'.  failed_kind: kind of the injected failing effect (None for a tensor /
    callback failure or a kill).  new_bytes: data file -> complete new bytes of the un-interrupted save
    (None when that save itself raises)."""
    bad = []
    after_commit = after_commit or failed_kind == "model_save"
    sharded = scn.get("max_shard") is not None
    dests = {}
    if not sharded:
        # destination as the save must see it at its start: the target of a symbolic link, else the path
        d = scn["req"]
        if d in before and before[d][0] == "link":
            d = os.path.normpath(os.path.join(os.path.dirname(d), before[d][1]))
        dests[d] = True
    # 1. atomicity of an existing destination
    for d in dests:
        if d in before and before[d][0] == "file":
            old = before[d][1]
            if d not in after or after[d][0] != "file":
                bad.append(f"destination {d} disappeared")
                continue
            cur = after[d][1]
            if cur != old and not (new_bytes is not None and cur == new_bytes.get(d)):
                bad.append(f"destination {d} holds neither the previous bytes nor the complete new bytes "
                           f"({len(cur)} bytes, old {len(old)})")
    # 1b. a save that returns normally has produced the complete new data file
    if outcome == "ok" and new_bytes is not None and not sharded:
        for d in dests:
            if d in new_bytes and (d not in after or after[d][0] != "file" or after[d][1] != new_bytes[d]):
                bad.append(f"save returned normally but destination {d} does not hold the complete new bytes")
    # 2. exception while producing the new file: everything as before, nothing left over
    cleanup_fault = failed_kind in ("remove", "rmdir")
    if outcome == "raise" and after_commit:
        # the exception comes from writing the MODEL file, after the data file was produced: the destination may
        # hold the complete new bytes (rule 1), nothing temporary may remain
        for p in after:
            if p not in before and any(S._TMP_RE.match(comp) for comp in p.split(os.sep)):
                bad.append(f"left over after a failed save: {p}")
    if outcome == "raise" and not cleanup_fault and not after_commit:
        for p, e in before.items():
            if p not in after:
                bad.append(f"{p} removed by a failed save")
            elif after[p][:3] != e[:3]:
                bad.append(f"{p} changed by a failed save")
        if not sharded:
            for p in after:
                if p not in before:
                    bad.append(f"left over after a failed save: {p}")
        if built is not None and tens_before is not None and not sharded:
            for h, t in enumerate(built.ext):
                if tens_before[h][1][0] != "ok":
                    continue
                if True:
                    if not t.valid():
                        bad.append(f"external tensor {h} invalidated by a failed save")
                    else:
                        try:
                            if list(t.tobytes()) != tens_before[h][1][1]:
                                bad.append(f"external tensor {h} no longer reads its previous bytes")
                        except Exception as e:  # noqa: BLE001
                            bad.append(f"external tensor {h} unreadable after a failed save: {type(e).__name__}")
    # 3. a sharded save never changes a pre-existing file (any outcome)
    if sharded:
        for p, e in before.items():
            if p not in after or after[p] != e:
                bad.append(f"sharded save changed the pre-existing path {p}")
    else:
        # hard links / bystanders keep their bytes in every outcome
        for p, e in before.items():
            if p in dests:
                continue
            if p not in after or after[p][:3] != e[:3]:
                bad.append(f"pre-existing path {p} changed")
    # 4b. ... and exactly then: after a save that returned normally and replaced the destination, a WRITTEN external
    # tensor (larger than the threshold) whose own path is the destination must not stay valid - it would silently
    # read the new file at its old offset.  (Tensors reading through another hard link keep their old inode and
    # stay valid; small tensors are copied to memory and are outside this rule.)
    if built is not None and outcome == "ok" and not sharded:
        exts = [t for t in scn["tensors"] if t["kind"] in ("ext", "small")]
        for d in dests:
            replaced = d in after and (d not in before or after[d][3] != before[d][3])
            dreal = os.path.realpath(os.path.join(root, d))
            for h, t in enumerate(built.ext):
                if h < len(exts) and exts[h]["len"] > scn["threshold"] and replaced and t.valid() \
                        and os.path.realpath(t.path) == dreal:
                    bad.append(f"external tensor {h} was written from the replaced destination {d} but stays valid "
                               "(it now reads the new file at its old offset)")
    # 4. invalidated only if the backing file was actually replaced
    if built is not None:
        for h, t in enumerate(built.ext):
            if not t.valid():
                rel = os.path.relpath(os.path.realpath(t.path), root)
                if rel not in before or rel not in after or after[rel][3] == before[rel][3]:
                    bad.append(f"external tensor {h} invalidated although its backing file {rel} was not replaced")
    return bad


# --------------------------------------------------------------------------- generator

def gen_scenario(rng, sharded: bool = False) -> dict:
    dest_kind = rng.choice(["file", "file", "file", "absent", "symlink", "hardlink", "subdir"])
    files, dirs = {}, []
    req = "m.data"
    old = [rng.randrange(1, 256) for _ in range(rng.choice([1, 9, 24, 40]))]
    mode = rng.choice([0o644, 0o600, 0o640, 0o444])
    backing = "m.data"
    if dest_kind == "file":
        files["m.data"] = {"kind": "file", "bytes": old, "mode": mode}
    elif dest_kind == "symlink":
        tgt = rng.choice(["real.data", "sub/real.data"])
        if "/" in tgt:
            dirs.append("sub")
        files[tgt] = {"kind": "file", "bytes": old, "mode": mode}
        files["m.data"] = {"kind": "symlink", "target": tgt}
    elif dest_kind == "hardlink":
        files["m.data"] = {"kind": "file", "bytes": old, "mode": mode}
        files["zz_hl.data"] = {"kind": "hardlink", "target": "m.data"}
        backing = None                      # the containment check rejects reads from multi-link files
    elif dest_kind == "subdir":
        dirs.append("w")
        req = "w/m.data"
        backing = "w/m.data"
        files["w/m.data"] = {"kind": "file", "bytes": old, "mode": mode}
    else:
        backing = None
    files["src.bin"] = {"kind": "file", "bytes": [rng.randrange(1, 256) for _ in range(30)], "mode": 0o644}
    if rng.random() < 0.4:
        files["by.txt"] = {"kind": "file", "bytes": [7, 7, 7], "mode": 0o600}
    thr = rng.choice([0, 2, 4])
    tensors = []
    n = rng.choice([1, 2, 2, 3, 3, 4, 5])
    for _ in range(n):
        k = rng.choice(["mem", "mem", "extd", "extd", "exto", "multi", "small", "lazy_raise", "short", "missing"])
        if k in ("lazy_raise",) and rng.random() < 0.6:
            k = "mem"
        if k in ("short", "missing") and rng.random() < 0.6:
            k = "extd"
        if k == "extd" and backing is not None and rng.random() < 0.08:
            k = "shortd"
        if k == "extd" and backing is None:
            k = "exto"
        if k == "small" and (backing is None or thr == 0):
            k = "mem"
        if k == "mem":
            tensors.append({"kind": "mem", "n": thr + rng.choice([1, 3, 8, 17]), "seed": rng.randrange(1 << 20)})
        elif k == "extd":
            ln = thr + rng.choice([1, 2, 5, 11])
            ln = min(ln, len(old))
            if ln <= thr:
                tensors.append({"kind": "mem", "n": thr + 1, "seed": rng.randrange(1 << 20)})
                continue
            off = rng.randrange(0, len(old) - ln + 1)
            tensors.append({"kind": "ext", "file": backing_name(backing, dest_kind, rng), "off": off, "len": ln,
                            "preload": rng.random() < 0.5})
        elif k == "exto":
            ln = thr + rng.choice([1, 4, 9])
            tensors.append({"kind": "ext", "file": "src.bin", "off": rng.randrange(0, 30 - ln + 1), "len": ln,
                            "preload": rng.random() < 0.3})
        elif k == "short":
            tensors.append({"kind": "ext", "file": "src.bin", "off": 22, "len": 8 + rng.choice([1, 5, 12]),
                            "preload": False})
        elif k == "shortd":
            # the data file was truncated behind the tensor's back: offset+length exceeds the backing file
            tensors.append({"kind": "ext", "file": backing, "off": max(0, len(old) - 2), "len": thr + rng.choice([3, 6]),
                            "preload": False})
        elif k == "missing":
            tensors.append({"kind": "ext", "file": "nothere.bin", "off": 0, "len": thr + 3, "preload": False})
        elif k == "multi":
            chunks = [rng.choice([1, 2, 5]) for _ in range(rng.choice([1, 2, 3]))]
            chunks[0] += thr
            ra = rng.choice([None, None, None] + list(range(len(chunks) + 1)))
            tensors.append({"kind": "multi", "chunks": chunks, "seed": rng.randrange(1 << 20), "raise_after": ra,
                            "exc": gen_exc(rng)})
        elif k == "small":
            ln = rng.randrange(1, thr + 1)
            ln = min(ln, len(old))
            tensors.append({"kind": "small", "file": backing_name(backing, dest_kind, rng),
                            "off": rng.randrange(0, len(old) - ln + 1), "len": ln, "preload": rng.random() < 0.5})
        else:
            tensors.append({"kind": "lazy_raise", "n": thr + 2, "exc": gen_exc(rng)})
    if req == "m.data" and not sharded and rng.random() < 0.4:
        # a different data file with the SAME relative location in another base directory
        dirs.append("b")
        other = [rng.randrange(1, 256) for _ in range(20)]
        files["b/m.data"] = {"kind": "file", "bytes": other, "mode": 0o644}
        for _ in range(rng.choice([1, 1, 2])):
            ln = thr + rng.choice([1, 3, 6])
            t = {"kind": "ext", "file": "b/m.data", "base": "b", "off": rng.randrange(0, 20 - ln + 1), "len": ln,
                 "preload": rng.random() < 0.5}
            tensors.insert(rng.randrange(len(tensors) + 1), t)
    if not sharded and rng.random() < 0.25:
        # a stale hidden directory with a STABLE name next to the destination (left by something else, or by a
        # killed earlier run of a tool that used such a name): a save picks a fresh mkdtemp name and never touches it
        ddir, dbase = ("", "m.data")
        if dest_kind == "symlink":
            ddir, dbase = os.path.dirname(tgt), os.path.basename(tgt)
        elif dest_kind == "subdir":
            ddir = "w"
        stale = os.path.join(ddir, f".{dbase}.tmp")
        dirs.append(stale)
        files[os.path.join(stale, dbase)] = {"kind": "file", "bytes": [66, 66, 66, 66, 66], "mode": rng.choice([0o644, 0o444])}
        if rng.random() < 0.5:
            files[os.path.join(stale, "keep.txt")] = {"kind": "file", "bytes": [1, 2], "mode": 0o644}
    if dest_kind == "hardlink" and not sharded:
        # tensors constructed programmatically (absolute location, no base_dir, so the hard-link containment check
        # does not apply): one reading through the OTHER hard link, one through the destination path itself
        for fn, pr in (("zz_hl.data", 0.7), ("m.data", 0.5)):
            if rng.random() < pr:
                ln = min(thr + rng.choice([1, 2, 4]), len(old))
                if ln > thr:
                    tensors.insert(rng.randrange(len(tensors) + 1),
                                   {"kind": "ext", "file": fn, "abs": True, "off": rng.randrange(0, len(old) - ln + 1),
                                    "len": ln, "preload": rng.random() < 0.5})
    for t in tensors:
        # the caller keeps a live numpy view of some (large) external tensors: release() raises BufferError
        if t["kind"] == "ext" and t["len"] > thr and "\0" not in t["file"] and t["file"] not in ("nothere.bin",) \
                and not (t["file"] in files and files[t["file"]]["kind"] == "file"
                         and t["off"] + t["len"] > len(files[t["file"]]["bytes"])) \
                and not (t["file"] == "src.bin" and t["off"] + t["len"] > 30) and rng.random() < 0.2:
            t["hold"] = True
    nbig = sum(1 for t in tensors if tensor_nbytes(t) > thr)
    cb = rng.choice([None, None, "ok", "ok"] + ([{"at": rng.randrange(nbig), "exc": gen_exc(rng)}] * 2 if nbig else []))
    scn = {"files": files, "dirs": dirs, "req": req, "threshold": thr, "chunk": rng.choice([1, 3, 5, 8, 64]),
           "cb": cb, "max_workers": rng.choice([None, None, 1]), "max_shard": None, "tensors": tensors}
    if not sharded and rng.random() < 0.3:
        # the parallel code path of the writer under the deterministic one-worker schedule (model-tied)
        scn["max_workers"] = rng.choice([2, 3])
        scn["pardet"] = True
    if sharded:
        scn["max_shard"] = rng.choice([1, 8, 16, 30])
        # pre-existing shard files in ~half of the cases (the name depends on the shard count)
        if rng.random() < 0.55:
            lay = layout(scn, "/nonexistent")
            if lay:
                victim = rng.choice(lay)[0]
                if victim not in scn["files"]:
                    if "/" in victim and os.path.dirname(victim) not in scn["dirs"]:
                        scn["dirs"].append(os.path.dirname(victim))
                    scn["files"][victim] = {"kind": "file", "bytes": [9, 9, 9, 9], "mode": 0o600}
    return scn


def gen_exc(rng) -> str:
    """Kind of an injected tensor/callback failure: an ordinary Exception or a BaseException-only interruption
    (Ctrl-C -> KeyboardInterrupt, sys.exit() in a SIGTERM handler / lazy tensor -> SystemExit)."""
    return rng.choice(["RuntimeError", "RuntimeError", "KeyboardInterrupt", "SystemExit"])


def backing_name(backing, dest_kind, rng):
    # a symlinked destination is referenced through the link or through its target
    return backing


# --------------------------------------------------------------------------- one scenario, all interruptions

class ScenarioRun:
    def __init__(self):
        self.checks: list[tuple[str, dict]] = []     # (coq bool term, description)
        self.oracle_failures: list[dict] = []
        self.text = ""
        self.n_effects = 0
        self.ref_outcome = None        # outcome of the un-interrupted save through the modelled file path
        self.new_bytes = None
        self.tens_before = None


def exercise(ck, scn: dict, tag: str, root: str, kills: bool = True, faults: bool = True) -> ScenarioRun:
    sr = ScenarioRun()
    tok = Tok()
    text, canon, fs0 = scenario_terms(scn, root, tok, tag)
    # reference: un-interrupted save
    b = S.build(scn, root)
    before = snapshot(root)
    tens_before = S.tensor_obs(b)
    S.cleanup(b)
    b, ctl, outcome = S.run_save(scn, root)
    before = b.before
    after = snapshot(root)
    log = S.canon_log(ctl.log, canon)
    kinds = [e[0] for e in ctl.log]
    sr.n_effects = ctl.n
    new_bytes = None
    if outcome[0] == "ok":
        new_bytes = {p: e[1] for p, e in after.items() if e[0] == "file"}
    bad = oracle(scn, root, before, after, "ok" if outcome[0] == "ok" else "raise", None, new_bytes,
                 tens_before, b)
    if bad:
        sr.oracle_failures.append({"scenario": scn, "mode": "none", "index": None, "failures": bad})
    sr.ref_outcome, sr.new_bytes, sr.tens_before = outcome, new_bytes, tens_before
    sr.checks.append((
        f"agree_full {run_term(scn, tag, None, None)} {c_sig(outcome)} {clist(c_ob(e, tok) for e in log)} "
        f"{c_fs(S.observe(root, canon), tok)} {c_tobs(S.tensor_obs(b))}",
        {"scenario": scn, "mode": "none", "index": None, "impl_log": [list(map(str, e)) for e in log],
         "impl_outcome": c_sig(outcome)}))
    ck.hist("outcome_uninterrupted", c_sig(outcome))
    if outcome[0] == "raise":
        ck.hist("exception_types_uninterrupted", type(outcome[1]).__name__)
    for k in set(kinds):
        ck.hist("effect_kinds", k, kinds.count(k))
    n = ctl.n
    ck.count()
    # every effect index failed in-process; os.replace additionally with the PermissionError family, once and
    # persistently (a retry fails again); after every fault, every later effect (the handlers' effects, i.e.
    # effects that only exist on error paths) is also used as a kill point
    if faults:
        import errno as _e
        for k in range(n):
            kind = kinds_at(ctl, k)
            if not S.faultable(kind):
                continue
            variants = [(None, False)]
            if kind == "replace":
                variants += [(_e.EACCES, False), (_e.EPERM, False), (_e.EACCES, True), (_e.EPERM, True)]
            for err, persistent in variants:
                b2, c2, out2 = S.run_save(scn, root, "fault", k, err, persistent)
                after2 = snapshot(root)
                log2 = S.canon_log(c2.log, canon)
                ck.count()
                label = kind + ("" if err is None else ":" + _e.errorcode[err] + ("*" if persistent else ""))
                ck.hist("fault_kinds", label)
                ck.hist("fault_outcomes", c_sig(out2))
                bad = oracle(scn, root, b2.before, after2, "ok" if out2[0] == "ok" else "raise", kind, new_bytes,
                             tens_before, b2)
                desc = {"scenario": scn, "mode": "fault", "index": k, "kind": kind, "errno": err,
                        "persistent": persistent}
                if bad:
                    sr.oracle_failures.append(dict(desc, failures=bad))
                sr.checks.append((
                    f"agree_full {run_term(scn, tag, None, k)} {c_sig(out2)} {clist(c_ob(e, tok) for e in log2)} "
                    f"{c_fs(S.observe(root, canon), tok)} {c_tobs(S.tensor_obs(b2))}",
                    dict(desc, impl_log=[list(map(str, e)) for e in log2], impl_outcome=c_sig(out2))))
                S.cleanup(b2)
                if kind == "close" and err is None:
                    # the same failure at close() with the data a real buffered file would still hold in userspace
                    # lost (ENOSPC/EIO at flush time); oracle only
                    b5, c5, out5 = S.run_save(scn, root, "fault", k, lossy=True)
                    ck.count()
                    ck.hist("fault_kinds", "close:lossy")
                    bad = oracle(scn, root, b5.before, snapshot(root), "ok" if out5[0] == "ok" else "raise", kind,
                                 new_bytes, tens_before, b5)
                    if bad:
                        sr.oracle_failures.append({"scenario": scn, "mode": "fault", "index": k, "kind": kind,
                                                   "lossy": True, "failures": bad})
                    S.cleanup(b5)
                if persistent or (err is None and kind == "replace"):
                    continue
                if kind == "write" and k % 3 and not ck.thorough:
                    continue            # quick tier: every third write fault is followed up by kill points
                # fault at k, then death before effect j (j ranges over everything that runs after the fault)
                for j in range(k + 1, c2.n):
                    code, before4 = S.run_killed(scn, root, j, fault_at=k, err=err)
                    after4 = snapshot(root)
                    ck.count()
                    ck.hist("fault_then_kill", kind)
                    if code != 77:
                        continue
                    bad = oracle(scn, root, before4, after4, "killed", None, new_bytes, None, None)
                    d4 = {"scenario": scn, "mode": "fault+kill", "index": j, "fault_index": k, "kind": kind,
                          "errno": err}
                    if bad:
                        sr.oracle_failures.append(dict(d4, failures=bad))
                    sr.checks.append((
                        f"agree_fs {run_term(scn, tag, j, k)} SCrash {c_fs(S.observe(root, canon), tok)}", d4))
    # every effect index as a kill point (k = n: the save completes)
    if kills:
        for k in range(n + 1):
            code, before3 = S.run_killed(scn, root, k)
            after3 = snapshot(root)
            ck.count()
            if k < n and code != 77:
                sr.oracle_failures.append({"scenario": scn, "mode": "kill", "index": k,
                                           "failures": [f"harness: child exit {code}, expected kill"]})
                continue
            ck.hist("kill_kinds", kinds_at(ctl, k) if k < n else "complete")
            bad = oracle(scn, root, before3, after3, "killed", None, new_bytes, None, None)
            if bad:
                sr.oracle_failures.append({"scenario": scn, "mode": "kill", "index": k, "failures": bad})
            sig = "SCrash" if k < n else c_sig(outcome)
            sr.checks.append((
                f"agree_fs {run_term(scn, tag, k, None)} {sig} {c_fs(S.observe(root, canon), tok)}",
                {"scenario": scn, "mode": "kill", "index": k}))
    S.cleanup(b)
    sr.text = text
    return sr


def kinds_at(ctl, k: int) -> str:
    """Kind of the k-th counted effect of the reference run (log entries are appended one per effect)."""
    e = ctl.log[k][0]
    if e == "unmodelled":
        return ctl.log[k][1]
    return {"islink": "islink", "realpath": "realpath", "samefile": "samefile", "exists": "exists",
            "release": "release", "invalidate": "invalidate", "callback": "callback", "seek": "seek"}.get(e, e)


def coq_compare(ck, runs: list[ScenarioRun], tagbase: str) -> list[dict]:
    """Evaluate all checks inside Coq; return the descriptions of the disagreeing ones."""
    files, index = [], []
    cur_text, cur_idx, cur_n = "", [], 0
    for sr in runs:
        if cur_n and cur_n + len(sr.checks) > 450:
            files.append((cur_text, cur_idx))
            cur_text, cur_idx, cur_n = "", [], 0
        cur_text += sr.text
        for term, desc in sr.checks:
            cur_idx.append((term, desc))
        cur_n += len(sr.checks)
    if cur_n:
        files.append((cur_text, cur_idx))
    texts = []
    for i, (defs, idx) in enumerate(files):
        body = CASE_HEADER + defs + "Definition checks : list bool := [\n  " + ";\n  ".join(t for t, _ in idx) + "].\n"
        body += "Eval vm_compute in (failing (fun b : bool => b) checks).\n"
        texts.append((f"{tagbase}_{i}", body))
    out = []
    results = ck.coq_eval_many(texts) if len(texts) > 1 else [ck.coq_eval(texts[0][1], texts[0][0])] if texts else []
    for (defs, idx), (rc, o), (tag, _) in zip(files, results, texts):
        if rc != 0:
            raise RuntimeError(f"case file {tag} did not compile:\n{o[-3000:]}")
        for j in common.parse_nat_list(o):
            out.append(idx[j][1])
    return out


# --------------------------------------------------------------------------- real files: oracle only

def exercise_realfile(ck, scn: dict, root: str, ref_outcome, new_bytes, tens_before) -> list[dict]:
    """The same save through ordinary buffered Python files with a descriptor (the module's open() is not
    replaced): ExternalTensor.tofile takes its copy_file_range path, numpy writes through the fd.  Serial and
    parallel writer.  Judged against the run through the modelled file path (whose trace and result are tied to
    the Coq model): same outcome class, same destination bytes; in particular a tensor whose backing file is
    shorter than offset+length cannot deliver its bytes, so the save must raise and leave the destination."""
    fails = []
    for mw in (None, 3):
        scn2 = dict(scn, max_workers=mw, pardet=False)
        b2, c2, out2 = S.run_save(scn2, root, realfile=True)
        after2 = snapshot(root)
        ck.count()
        ck.hist("realfile", ("parallel:" if mw else "serial:") + ("ok" if out2[0] == "ok" else "raise"))
        bad = oracle(scn2, root, b2.before, after2, "ok" if out2[0] == "ok" else "raise", None, new_bytes,
                     tens_before, b2)
        if ref_outcome[0] != "ok" and out2[0] == "ok":
            bad.append("save returned normally through real files although the new data file cannot be produced "
                       f"(the save through the modelled file path raises {type(ref_outcome[1]).__name__})")
        if ref_outcome[0] == "ok" and out2[0] != "ok":
            bad.append(f"save raised {type(out2[1]).__name__} through real files but succeeds through the modelled "
                       "file path")
        if bad:
            fails.append({"scenario": scn2, "mode": "realfile", "index": None, "failures": bad})
        S.cleanup(b2)
    return fails


# --------------------------------------------------------------------------- failures while writing the model file

MODEL_VARIANTS = [{"model_fault": 28}, {"model_dir": True}, {"format": "no-such-format"}]   # 28 = ENOSPC


def exercise_modelsave(ck, scn: dict, root: str, ref_outcome, new_bytes, tens_before) -> list[dict]:
    """ir.save as the entry point with a failure AFTER the data write, while the model file is written (ENOSPC on
    the model file, a directory at the model path, an unknown format).  Oracle only: the save must raise; an
    existing destination data file holds its old bytes or the complete new bytes - never missing; nothing
    temporary remains; nothing else changes."""
    fails = []
    if ref_outcome[0] != "ok":
        return fails
    for var in MODEL_VARIANTS:
        scn2 = dict(scn, **var)
        b2, c2, out2 = S.run_save(scn2, root)
        after2 = snapshot(root)
        ck.count()
        ck.hist("model_file_failure", next(iter(var)) + (":raise" if out2[0] != "ok" else ":ok"))
        bad = oracle(scn2, root, b2.before, after2, "ok" if out2[0] == "ok" else "raise", None, new_bytes,
                     tens_before, b2, after_commit=True)
        if out2[0] == "ok":
            bad.append("save returned normally although the model file could not be written")
        if bad:
            fails.append({"scenario": scn2, "mode": "modelsave", "index": None, "failures": bad})
        S.cleanup(b2)
    return fails


# --------------------------------------------------------------------------- copy_file_range loop (C08/Cfr.v)

def run_cfr_case(case: dict, root: str) -> dict:
    """ExternalTensor.tofile on real files with a scripted kernel: os.copy_file_range (the name _core looks up) answers
    from case["answers"]: ["copy", cap] copies min(cap, requested) bytes for real, ["fallback"] raises EXDEV,
    ["fatal"] raises EIO; an exhausted script answers 0.  Returns the observation."""
    import errno
    import types
    import onnx_ir as ir
    from onnx_ir import _core
    shutil.rmtree(root, ignore_errors=True)
    os.makedirs(root)
    off, avail, n, d0 = case["off"], case["avail"], case["n"], case["d0"]
    data = S._bytes(case["seed"], off + avail)
    with open(os.path.join(root, "src.bin"), "wb") as f:
        f.write(data)
    t = ir.ExternalTensor("src.bin", off, n, ir.DataType.UINT8, shape=ir.Shape([n]), name="t", base_dir=root)
    answers = [list(a) for a in case["answers"]]
    stat = {"kernel": 0, "calls": 0}
    real_os = _core.os

    def cfr(src_fd, dst_fd, count, offset_src=None, offset_dst=None):
        stat["calls"] += 1
        if not answers:
            return 0
        a = answers.pop(0)
        if a[0] == "fallback":
            raise OSError(errno.EXDEV, "cross-device (scripted)")
        if a[0] == "fatal":
            raise OSError(errno.EIO, "I/O error (scripted)")
        k = min(a[1], count)
        if k == 0:
            return 0
        r = real_os.copy_file_range(src_fd, dst_fd, k, offset_src=offset_src, offset_dst=offset_dst)
        stat["kernel"] += r
        return r

    class OsProxy:
        def __getattr__(self, name):
            return cfr if name == "copy_file_range" else getattr(real_os, name)
    saved_chunk = _core._EXTERNAL_TENSOR_COPY_CHUNK_SIZE
    _core.os = OsProxy()
    _core._EXTERNAL_TENSOR_COPY_CHUNK_SIZE = case["chunk"]
    outcome = "ok"
    try:
        with open(os.path.join(root, "dst.bin"), "wb") as dst:
            dst.write(b"\xaa" * d0)
            try:
                t.tofile(dst)
            except OSError:
                outcome = "raise"
            dst.flush()
            pos = dst.tell()
    finally:
        _core.os = real_os
        _core._EXTERNAL_TENSOR_COPY_CHUNK_SIZE = saved_chunk
        t.release()
    with open(os.path.join(root, "dst.bin"), "rb") as f:
        out = f.read()
    user = pos - d0 - stat["kernel"]
    copied = stat["kernel"] + user
    return {"outcome": outcome, "kernel": stat["kernel"], "user": user,
            "content_ok": out[d0:d0 + copied] == data[off:off + copied] and out[:d0] == b"\xaa" * d0}


def cfr_oracle(case: dict, obs: dict) -> list[str]:
    bad = []
    if not obs["content_ok"]:
        bad.append("bytes written by tofile differ from the source bytes")
    if obs["outcome"] == "ok" and obs["kernel"] + obs["user"] != case["n"]:
        bad.append(f"tofile returned normally after copying {obs['kernel'] + obs['user']} of {case['n']} bytes "
                   "(a save would succeed with an incomplete data file)")
    if obs["outcome"] == "ok" and case["avail"] < case["n"]:
        bad.append("tofile returned normally although the backing file is shorter than offset+length")
    return bad


def gen_cfr_case(rng) -> dict:
    n = rng.choice([1, 2, 5, 9, 16, 40])
    avail = rng.choice([n, n, n + 3, n + 20, max(0, n - 1), max(0, n - 4), 0, n // 2])
    answers = []
    for _ in range(rng.choice([0, 1, 1, 2, 3, 5])):
        r = rng.random()
        answers.append(["copy", rng.choice([0, 1, 2, 3, 7, 100])] if r < 0.8 else (["fallback"] if r < 0.92 else ["fatal"]))
    return {"off": rng.choice([0, 3, 11]), "avail": avail, "n": n, "d0": rng.choice([0, 4]),
            "chunk": rng.choice([1, 3, 8, 64]), "answers": answers, "seed": rng.randrange(1 << 20)}


def exercise_cfr(ck) -> None:
    """Correspondence of ExternalTensor.tofile's copy_file_range loop with C08/Cfr.v (tofile_fast), evaluated inside
    Coq, plus the oracle (returned normally => every byte copied)."""
    root = os.path.join(ck.scratch, "cfr")
    cases = [gen_cfr_case(ck.rng) for _ in range(120 if not ck.thorough else 3000)]
    terms, obs_all = [], []
    for case in cases:
        obs = run_cfr_case(case, root)
        obs_all.append(obs)
        ck.count()
        ck.hist("copy_file_range", obs["outcome"] + (":short" if case["avail"] < case["n"] else ""))
        bad = cfr_oracle(case, obs)
        if bad:
            ck.violation({"kind": "oracle", "mode": "cfr", "case": case, "observed": obs, "failures": bad})
            break
        ans = clist("(KCopy %s)" % cnat(a[1]) if a[0] == "copy" else ("KErrFallback" if a[0] == "fallback" else "KErrFatal")
                    for a in case["answers"])
        o = ("COk" if obs["outcome"] == "ok" else "CRaise") + f" {cnat(obs['kernel'])} {cnat(max(obs['user'], 0))}"
        terms.append(f"outcome_eqb (tofile_fast {ans} {cnat(case['avail'])} {cnat(case['n'])} {cnat(case['chunk'])}) ({o})")
        if case["answers"] and 0 < case["avail"]:
            ck.nontriv(("cfr", case))
    shutil.rmtree(root, ignore_errors=True)
    text = ("From Coq Require Import List Bool Arith.\nFrom IRV Require Import Base.Exn C08.Cfr.\nImport ListNotations.\n"
            "Definition checks : list bool := [\n  " + ";\n  ".join(terms) + "].\n"
            "Eval vm_compute in (failing (fun b : bool => b) checks).\n")
    try:
        mism = ck.coq_failing(text, "cases_cfr") if terms else []
    except RuntimeError as e:
        mism = []
        ck.broken("correspondence:case-file-cfr", str(e))
    for i in mism[:4]:
        ck.broken("correspondence:tofile_fast", json.dumps({"case": cases[i], "observed": obs_all[i]}))
    ck.coverage["cfr_cases"] = len(terms)


# --------------------------------------------------------------------------- parallel writer: oracle only

def exercise_parallel(ck, scn: dict, root: str) -> list[dict]:
    fails = []
    b = S.build(scn, root)
    before = snapshot(root)
    tens_before = S.tensor_obs(b)
    S.cleanup(b)
    b, ctl, outcome = S.run_save(scn, root)
    after = snapshot(root)
    n = ctl.n
    new_bytes = {p: e[1] for p, e in after.items() if e[0] == "file"} if outcome[0] == "ok" else None
    bad = oracle(scn, root, b.before, after, "ok" if outcome[0] == "ok" else "raise", None, new_bytes, tens_before, b)
    if bad:
        fails.append({"scenario": scn, "mode": "none", "index": None, "failures": bad})
    ck.count()
    idxs = list(range(n + 2))
    for k in idxs:
        code, before3 = S.run_killed(scn, root, k)
        a3 = snapshot(root)
        ck.count()
        ck.hist("parallel", "kill" if code == 77 else "complete")
        bad = oracle(scn, root, before3, a3, "killed", None, new_bytes, None, None)
        if bad:
            fails.append({"scenario": scn, "mode": "kill", "index": k, "failures": bad})
    for k in range(n):
        b2, c2, out2 = S.run_save(scn, root, "fault", k, lossy=True)
        a2 = snapshot(root)
        ck.count()
        failed_kind = next((e[1] for e in c2.log if e[0] == "fail"), None)
        ck.hist("parallel", "fault:" + ("raise" if out2[0] != "ok" else "ok"))
        bad = oracle(scn, root, b2.before, a2, "ok" if out2[0] == "ok" else "raise", failed_kind, new_bytes,
                     tens_before, b2)
        if bad:
            fails.append({"scenario": scn, "mode": "fault", "index": k, "failures": bad})
        S.cleanup(b2)
    return fails


# --------------------------------------------------------------------------- main

def load_corpus() -> list[dict]:
    d = os.path.join(common.CORPUS, "C08")
    out = []
    if os.path.isdir(d):
        for fn in sorted(os.listdir(d)):
            if fn.endswith(".json"):
                with open(os.path.join(d, fn)) as f:
                    out.append(json.load(f))
    return out


def run(ck) -> None:
    import logging
    logging.disable(logging.WARNING)
    ck.trust("Coq 8.16.1 kernel (coqc; vm_compute in case files)",
             "harness/props/c08.py + _c08_shim.py (generators, FS proxies, canonical paths, Coq literal printer)",
             "modelled not verified: atomicity of os.replace; POSIX semantics of mkdtemp/open/write/rename/unlink/rmdir; "
             "tempfile.mkdtemp returns a fresh unpredictable name; process death = os._exit between two effects "
             "(no power-loss / page-cache model); mmap keeps the old inode",
             "layout offsets and shard names are taken from the implementation (C07's subject)")
    ck.assumptions += ["POSIX file system, single writer process (no concurrent modification of the directory)",
                       "single-fault assumption: at most one injected failure per save"]
    ck.coverage["rule"] = ("non-trivial = the interruption hits an effect strictly between mkdtemp and the end of "
                           "the cleanup of a save whose destination already exists")
    generate(ck)
    ck.prove()
    n_single = 24 if not ck.thorough else 400
    n_shard = 10 if not ck.thorough else 120
    n_par = 4 if not ck.thorough else 60
    runs, oracle_failures = [], []
    scns = [(s, "corpus") for s in load_corpus()]
    for i in range(n_single):
        scns.append((gen_scenario(ck.rng), "gen"))
    for i in range(n_shard):
        scns.append((gen_scenario(ck.rng, sharded=True), "shard"))
    root = os.path.join(ck.scratch, "d")
    par_corpus = [s for s, _ in scns if (s.get("max_workers") or 1) > 1 and not s.get("pardet")]
    scns = [(s, src) for s, src in scns if (s.get("max_workers") or 1) <= 1 or s.get("pardet")]
    for scn in par_corpus:
        oracle_failures += exercise_parallel(ck, scn, root)
        ck.hist("scenario_source", "corpus-parallel")
    for i, (scn, src) in enumerate(scns):
        sr = exercise(ck, scn, str(i), root)
        runs.append(sr)
        oracle_failures += sr.oracle_failures
        if scn.get("max_shard") is None:
            oracle_failures += exercise_realfile(ck, scn, root, sr.ref_outcome, sr.new_bytes, sr.tens_before)
        oracle_failures += exercise_modelsave(ck, scn, root, sr.ref_outcome, sr.new_bytes, sr.tens_before)
        ck.hist("scenario_source", src)
        for t in scn["tensors"]:
            ck.hist("tensor_kinds", t["kind"])
        for f in scn["files"].values():
            ck.hist("file_kinds", f["kind"])
        if any(f["kind"] == "file" for p, f in scn["files"].items() if p.endswith(".data")) and sr.n_effects > 6:
            ck.nontriv(scn)
        if i < 3:
            ck.sample({"scenario": scn, "effects": sr.n_effects, "checks": len(sr.checks)})
    ck.coverage["traces_validated_against_impl"] = sum(len(r.checks) for r in runs)
    ck.coverage["effects_per_scenario"] = [r.n_effects for r in runs][:60]
    try:
        mism = coq_compare(ck, runs, "cases")
    except RuntimeError as e:
        mism = []
        ck.broken("correspondence:case-file", str(e))
    for m in mism[:6]:
        ck.broken(f"correspondence:{m['mode']}@{m['index']}", json.dumps(m, default=str)[:3500])
    # parallel writer: oracle only
    for i in range(n_par):
        scn = gen_scenario(ck.rng)
        scn["max_workers"] = ck.rng.choice([2, 3])
        scn["tensors"] = [t for t in scn["tensors"] if t["kind"] != "small"] or scn["tensors"]
        oracle_failures += exercise_parallel(ck, scn, root)
    shutil.rmtree(root, ignore_errors=True)
    exercise_cfr(ck)
    replay_known(ck)
    report(ck, oracle_failures)
    if ck.broken_items and not ck.violations:
        search(ck)


def report(ck, oracle_failures: list[dict]) -> None:
    import re
    seen = set()
    for f in oracle_failures:
        norm = [re.sub(r"\.[A-Za-z0-9_]{8}(?=/|$)", ".TMP", re.sub(r"\d+", "N", x)) for x in f["failures"]]
        sig = (f["mode"], tuple(sorted(set(norm)))[:2])
        if sig in seen or len(seen) >= 4:
            continue
        seen.add(sig)
        key = is_known(ck, f["scenario"], f["failures"])
        if key:
            ck.known_finding(key, next(k["what"] for k in ck._known if k["key"] == key))
            continue
        small = shrink(ck, f)
        ck.violation({"kind": "oracle", "scenario": small["scenario"], "mode": small["mode"],
                      "index": small["index"], "fault_index": small.get("fault_index"),
                      "errno": small.get("errno"), "persistent": small.get("persistent", False),
                      "lossy": small.get("lossy", False),
                      "failures": small["failures"], "broken": ck.broken_items})


def is_known(ck, scn: dict, failures: list[str]) -> str | None:
    """Map an oracle failure to a known finding by its site (shape of the input + kind of failure)."""
    keys = {k["key"] for k in ck._known if k.get("status") == "known"}
    nul = any("\0" in t.get("file", "") for t in scn["tensors"] if t["kind"] == "ext")
    if nul and "samefile-valueerror-leaks-tempdir" in keys and \
            all(x.startswith("left over after a failed save") for x in failures):
        return "samefile-valueerror-leaks-tempdir"
    alias = any(t.get("abs") for t in scn["tensors"])
    if alias and "hardlink-alias-invalidated" in keys and \
            all("invalidated although its backing file" in x for x in failures):
        return "hardlink-alias-invalidated"
    return None


def replay_known(ck) -> None:
    """Known findings are replayed on the implementation on every run (still failing -> KNOWN-FINDING, no longer
    failing -> stale); repaired ones are regression cases (failing again -> broken) and are reported as fixed."""
    for k in ck._known:
        root = os.path.join(ck.scratch, "known")
        try:
            bad = replay_case(k["witness"], "none", None, root)
        finally:
            shutil.rmtree(root, ignore_errors=True)
        if k.get("status") == "fixed":
            if bad:
                ck.violation({"kind": "oracle", "scenario": k["witness"], "mode": "none", "index": None,
                              "failures": bad, "note": f"fixed finding {k['key']} regressed"})
            else:
                print((k.get("what") or k["key"])[:260], flush=True)
            continue
        if bad and is_known(ck, k["witness"], bad) == k["key"]:
            ck.known_finding(k["key"], k["what"])
        elif bad:
            ck.violation({"kind": "oracle", "scenario": k["witness"], "mode": "none", "index": None, "failures": bad})
        else:
            ck.broken(f"known-finding-stale:{k['key']}",
                      "the recorded witness no longer fails on the implementation (defect repaired?)")


def _oracle_once(ck, scn: dict, mode: str, index) -> list[str]:
    root = os.path.join(ck.scratch, "rp")
    try:
        return replay_case(scn, mode, index, root)
    finally:
        shutil.rmtree(root, ignore_errors=True)


def replay_case(scn: dict, mode: str, index, root: str, errno=None, persistent=False, fault_index=None,
                lossy=False) -> list[str]:
    b = S.build(scn, root)
    before = snapshot(root)
    tens_before = S.tensor_obs(b)
    S.cleanup(b)
    b, ctl, outcome = S.run_save(scn, root)
    after = snapshot(root)
    new_bytes = {p: e[1] for p, e in after.items() if e[0] == "file"} if outcome[0] == "ok" else None
    if mode == "modelsave":
        S.cleanup(b)
        plain = {k: v for k, v in scn.items() if k not in ("model_fault", "model_dir", "format")}
        bs, cs, outs = S.run_save(plain, root)
        nb = {p: e[1] for p, e in snapshot(root).items() if e[0] == "file"} if outs[0] == "ok" else None
        S.cleanup(bs)
        if outs[0] != "ok":
            return []
        b2, c2, out2 = S.run_save(scn, root)
        bad = oracle(scn, root, b2.before, snapshot(root), "ok" if out2[0] == "ok" else "raise", None, nb,
                     tens_before, b2, after_commit=True)
        if out2[0] == "ok":
            bad.append("save returned normally although the model file could not be written")
        S.cleanup(b2)
        return bad
    if mode == "realfile":
        S.cleanup(b)
        serial = dict(scn, max_workers=None, pardet=False)
        bs, cs, outs = S.run_save(serial, root)
        nb = {p: e[1] for p, e in snapshot(root).items() if e[0] == "file"} if outs[0] == "ok" else None
        S.cleanup(bs)

        class _Ck:
            def count(self, n=1): pass
            def hist(self, *a): pass
        fl = exercise_realfile(_Ck(), scn, root, outs, nb, tens_before)
        return [x for f in fl if f["scenario"].get("max_workers") == scn.get("max_workers") for x in f["failures"]]
    if mode == "none":
        return oracle(scn, root, b.before, after, "ok" if outcome[0] == "ok" else "raise", None, new_bytes,
                      tens_before, b)
    if mode == "fault":
        if index >= ctl.n:
            return []
        b2, c2, out2 = S.run_save(scn, root, "fault", index, errno, persistent,
                                  lossy=lossy or (scn.get("max_workers") or 1) > 1)
        kind = next((e[1] for e in c2.log if e[0] == "fail"), None)
        return oracle(scn, root, b2.before, snapshot(root), "ok" if out2[0] == "ok" else "raise", kind, new_bytes,
                      tens_before, b2)
    _, before3 = S.run_killed(scn, root, index, fault_at=fault_index if mode == "fault+kill" else None, err=errno)
    return oracle(scn, root, before3, snapshot(root), "killed", None, new_bytes, None, None)


def shrink(ck, f: dict) -> dict:
    """Drop tensors / options while some interruption of the same mode still violates the oracle."""
    cur = json.loads(json.dumps(f))

    def failing(scn):
        """(index, failures, fault_index) of some interruption of the same mode/errno that still fails."""
        root = os.path.join(ck.scratch, "sh")
        en, pers = cur.get("errno"), cur.get("persistent", False)
        try:
            b, ctl, _ = S.run_save(scn, root)
            n = ctl.n
            if cur["mode"] == "fault+kill":
                for k in range(n):
                    _, c2, _ = S.run_save(scn, root, "fault", k, en)
                    if not any(e[0] == "fail" for e in c2.log):
                        continue
                    for j in range(k + 1, c2.n):
                        bad = replay_case(scn, "fault+kill", j, root, en, False, k)
                        if bad:
                            return j, bad, k
                return None
            for k in ([None] if cur["mode"] in ("none", "realfile", "modelsave") else range(n + 1)):
                bad = replay_case(scn, cur["mode"], k, root, en, pers, None, cur.get("lossy", False))
                if bad:
                    return k, bad, None
        except Exception:  # noqa: BLE001
            return None
        finally:
            shutil.rmtree(root, ignore_errors=True)
        return None
    changed = True
    while changed:
        changed = False
        scn = cur["scenario"]
        for i in range(len(scn["tensors"])):
            if len(scn["tensors"]) == 1:
                break
            s2 = json.loads(json.dumps(scn))
            del s2["tensors"][i]
            if isinstance(s2.get("cb"), (int, dict)) and not isinstance(s2.get("cb"), bool):
                at = s2["cb"]["at"] if isinstance(s2["cb"], dict) else s2["cb"]
                nb = sum(1 for t in s2["tensors"] if tensor_nbytes(t) > s2["threshold"])
                if at >= nb:
                    s2["cb"] = "ok"
            r = failing(s2)
            if r:
                cur.update(scenario=s2, index=r[0], failures=r[1], fault_index=r[2])
                changed = True
                break
        for key, val in (("cb", None), ("max_workers", None), ("chunk", 64)):
            if cur["scenario"].get(key) != val:
                s2 = dict(cur["scenario"], **{key: val})
                r = failing(s2)
                if r:
                    cur.update(scenario=s2, index=r[0], failures=r[1], fault_index=r[2])
                    changed = True
    return cur


def search(ck) -> None:
    """A proof obligation or the correspondence broke and the oracle has not failed yet: more scenarios,
    all interruption points, oracle only."""
    budget = 60 if not ck.thorough else 600
    root = os.path.join(ck.scratch, "search")
    for i in range(budget):
        scn = gen_scenario(ck.rng, sharded=(i % 4 == 3))
        sr = exercise(ck, scn, "s", root)
        if sr.oracle_failures:
            report(ck, sr.oracle_failures)
            break
    shutil.rmtree(root, ignore_errors=True)


def replay(rp: dict) -> int:
    import logging
    logging.disable(logging.WARNING)
    if rp.get("mode") == "cfr":
        root = os.path.join(common.SCRATCH_ROOT, f"replay-C08-cfr-{os.getpid()}")
        try:
            obs = run_cfr_case(rp["case"], root)
        finally:
            shutil.rmtree(root, ignore_errors=True)
        bad = cfr_oracle(rp["case"], obs)
        print(json.dumps({"case": rp["case"], "observed": obs, "failures": bad}, indent=1))
        return 1 if bad else 0
    scn = rp.get("scenario")
    if scn is None:
        print("replay names a broken obligation/correspondence, no concrete input:",
              json.dumps(rp.get("broken"), indent=1)[:3000])
        return 1
    root = os.path.join(common.SCRATCH_ROOT, f"replay-C08-{os.getpid()}")
    try:
        bad = replay_case(scn, rp.get("mode", "none"), rp.get("index"), root, rp.get("errno"),
                          rp.get("persistent", False), rp.get("fault_index"), rp.get("lossy", False))
        if not bad and (scn.get("max_workers") or 1) > 1 and rp.get("mode") in ("fault", "kill"):
            # the parallel writer's effect order depends on the schedule: the recorded index names a position in
            # one schedule; try every position of this run's schedule
            _, ctl, _ = S.run_save(scn, root)
            for k in range(ctl.n + 1):
                bad = replay_case(scn, rp["mode"], k, root, rp.get("errno"), rp.get("persistent", False), None,
                                  rp.get("lossy", False))
                if bad:
                    break
    finally:
        shutil.rmtree(root, ignore_errors=True)
    print(json.dumps({"scenario": scn, "mode": rp.get("mode"), "index": rp.get("index"), "failures": bad}, indent=1))
    return 1 if bad else 0

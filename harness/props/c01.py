"""C01 — use-def and ownership links stay consistent under every edit history.  (see DECISIONS at the bottom)"""

from __future__ import annotations

from harness.props import _core_ops as C


def run(ck) -> None:
    C.run_check(ck, "c01")
    ck.level = "proof"


def replay(rp: dict) -> int:
    return C.replay_file(rp, "c01")

r"""C01 — use-def and ownership links stay consistent under every edit history.

Decided by: Coq theorems (coq/theories/C01/Property.v) about the executable heap model coq/theories/C01/Model.v
(shared with C06), tied to /repo on every run by a correspondence check: seeded op histories are executed on the
real onnx_ir objects (harness/props/_core_ops.py) and, inside Coq, on the model; outcome (Ok / exception type) and a
hash of the canonical observation of EVERY allocated object are compared after EVERY op (C01/Tie.v).  oracle_c01
recomputes I1..I7 from public accessors after every prefix.

MODEL.  Heap split by relationship: io_st (inputs<->uses), po_st (outputs<->producer/index), ng_st (node.graph<->node
sequence), ow_st (name/owner/flags <-> graph inputs/outputs/initializers + ref counters), nm_st (node names, name
authority, counters).  step : cfg -> heap -> op -> heap * res unit (32 ops); the heap returned with Raise is the partially
mutated state the Python code leaves behind.  cfg : site -> bool says for each of the 12 defect sites whether its
repair is applied; `current_cfg` (bottom of Model.v) is THE definition to edit when a fix lands; beside every site the
repaired behaviour is the `c S... = true` branch.  STATE: /repo c5c2382 + dff454e repaired 10 sites (current_cfg = true
there), 680d931 repaired SGraphNew; open: SNodeOutputsOwned (graph input / initializer accepted as node output).  `original_cfg`
(all false) is the code before the repairs.

DEEPENING ROUND (after /repo 680d931 repaired Graph(...)):
  * `in_scope` is gone.  The repaired constructor is modelled as `graph_new_reject` (validation, same order and exception
    types as the code) followed by `graph_init`, the constructor body written with the validated mutators
    (inputs.extend, outputs.extend, initializers[k] = v per entry, name registration, Graph.extend); same final state,
    intermediate states unobservable since nothing can raise (tie: 356 constructor calls, 38 rejected, 0 mismatches in
    the development run; every quick run has hundreds).  Hence C01_inv_reachable_fixed / C01_inv_reachable and
    C06_raise_frame_fixed / C06_raise_frame are the FULL statements over the whole alphabet; the only hypothesis left on
    the current code is `clean current_cfg`, i.e. the history never executes Node(outputs=[graph input / initializer])
    (SNodeOutputsOwned, finding node-output-owned, cannot be repaired upstream) nor a rejected initializers.update()
    with an acceptable entry first (SInitUpdate, finding init-update-partial, C06 only; REPAIRED by /repo 4f0fb1e and flipped in current_cfg).
  * moved from oracle-only into the Coq alphabet (36 ops now), each with invariant + frame proof and inside the tie:
    InitPopItem, InitUpdate (sequential self[k] = v, site SInitUpdate), InitSetDefault, InitIOr (unsupported since
    4b0e698), GSort.  For GSort the ORDER and whether a cycle is found come from the implementation (that is C12's
    subject); the model fixes how the result is installed (cycle: nothing touched; otherwise Graph.extend of the
    given order on every graph of the nest, re-registering names) and the tie checks that nothing else changes;
    gen_nested_sort (2-8 permuted If-like bodies, one cyclic scope) now runs through Coq.
  * still oracle-only: slices with step / negative bounds, list.sort, register_initializer (needs const_value in the
    model), `initializers |= m` written on the attribute, X_VSetNameRaw (refused names), merge_shapes, and the
    convenience functions (multi-pair replace_all_uses_with with its pre-validation, rename_values,
    replace_nodes_and_values) - not moved for lack of time; the frame proof of the multi-pair call needs the soundness of
    its ownership simulation, which is the substantial part.
  * upstream drift caught by the tie during this round: /repo f54d66f changed the naming order inside Graph() (explicit
    input / initializer names are registered before unnamed inputs are named); the next quick run reported
    correspondence:core-heap-model on the random stream within 30 s; `graph_init` was updated to the new order.
  * quick tier: all single ops and a seeded half of the op x op pairs of the 74-op container alphabet (thorough: all
    pairs + 12 % of the triples) to stay well under 90 s on a loaded machine (20-50 s at load 30).
  * the generator never nests a graph inside itself (a node holding graph S as attribute is not added to S or to a graph
    reachable from S): Graph.sort / traversal do not terminate on such input (RecursionError), which is outside C01/C06.

THEOREMS (all closed under the global context):
  C01_inv_init
  C01_uses_reachable               forall c ops, I1 (run c ops empty)      -- FULL: every cfg, whole alphabet, rejected calls
  C01_step_preserves_inv           per-op preservation of Inv = I1 /\ I3 /\ (I4 I5 I6 I7), repaired model
  C01_inv_reachable_fixed          forall ops, InvP (run all_fixed ops empty)
  C01_inv_reachable                forall ops, clean current_cfg ops -> InvP (run current_cfg ops empty)
                                   (`clean` = the history never takes a branch on which the current code differs from the
                                   repaired code, i.e. avoids exactly the known sites; Example demo_clean shows non-vacuity
                                   with a value that is input + output twice + initializer, 3 graphs, 3 rejected calls)
  C01_nodeoutputs_refuted, C01_graphnew_refuted      the two OPEN sites, about current_cfg, replayed on the implementation
  C01_<site>_refuted_before_fix x9 the repaired sites (SIODelItem SIOIMul SIOExtend SIOInsert SIOSetItem SInitSetItem
                                   SGExtend SGInsert SNodeOutputsDup), about original_cfg; Example repaired_witnesses_clean:
                                   the same witnesses are now clean histories of current_cfg (they are corpus cases)
  C01_outputs_reachable_fixed      forall ops, I2 (run all_fixed ops empty)  -- I2 = outputs <-> producer/index, whole alphabet
  C01_outputs_reachable            forall ops, clean current_cfg ops -> I2 (run current_cfg ops empty)
  C01_nodeoutputs_dup_refuted_before_fix   Node(outputs=[x, x]) broke I2 (repaired by dff454e)
NOT PARTIAL any more w.r.t. Graph(...) with arguments (see DEEPENING ROUND).  Remaining gaps: (1) `clean current_cfg`
(two open sites, above); (2) no general boolean inv_b: the refutations use clause-specific boolean consequences (need_listed, need_flag, ...);
(3) I2 is stated as its own theorem, not as a conjunct of InvP.
Not in the model at all (oracle-only stream): slices (setitem/delitem), list.sort, initializers.popitem/update/
setdefault/|=, Graph.sort, register_initializer, convenience.replace_all_uses_with / rename_values /
replace_nodes_and_values.  Function forwards are exercised by routing modelled calls through ir.Function objects.

TIE, measured (quick, seed 0): ~330 random histories (length 5-60, 1-3 graphs, nested subgraph attributes, <= 9 nodes,
<= 22 values, 30 % malformed calls, 4-15 % aimed at defect sites with the offending element at every position) +
3540 exhaustive container histories (all sequences of <= 2 ops over a 59-op alphabet on a 2-graph/5-value universe;
thorough: length 3, 12 % sample) + corpus; ~41 k compared steps, every op kind and every rejection reason occurs
(evidence: ops / rejections histograms).  After the first op that hits an unrepaired defect site (computed inside
Coq: `hit`) comparison of that history stops (the state is then outside the domain on which the model is claimed
faithful; e.g. the `assert value._graph is self._graph` of _maybe_unset_graph is not modelled).

ROUND 2 (seeded changes C01-r2m1, C01-r2m3 escaped; both now caught with concrete replays, seeds 0-3 clean):
  * plain slices are now IN THE MODEL: ops IOSetSlice k g a b vs / IODelSlice k g a b (non-negative bounds, Python clamping;
    io_setslice / io_delslice in Model.v, InvD_io_setslice / InvD_io_delslice via InvD_disown_sub + InvD_own_all + a
    permutation step, frame lemma in C06/Proofs.v); the generator, the rejection shapes and the exhaustive container
    alphabet (now 69 ops) use them with repeated values on either side ([a] -> [a, a], [a, a] -> [a]) and removals after;
    gen_slices (oracle stream) adds extended slices, empty slices and del lst[a:b:2]  -> C01-r2m1 (slice assignment
    releases/takes by membership instead of multiplicity: ref counter drifts) is caught by the correspondence and by I4
    at the following pop/remove/del/clear.
  * gen_refused_names: initializers whose const_value is a TensorProtoTensor (serde.deserialize_tensor) renamed to a
    name the tensor refuses (lone surrogate -> UnicodeEncodeError, non-string -> TypeError), op X_VSetNameRaw
    -> C01-r2m3 (value renamed before its tensor) is caught by I5 (initializer stored under its old key).
  * FINDING (key io-setslice-extended-size-mismatch, both properties; REPAIRED by /repo a9e4f9d =
    proposed_fixes/C01-setslice-extended-size.diff, entries now status=fixed, witness kept as an oracle-only corpus case): lst[a:b:step] = items with a wrong number of items moves the
    ownership of old and new items before list.__setitem__ rejects the size.

ROUND 5 (seeded C01-r5m2, C01-r5m3, C06-r5m2 escaped; now caught with concrete replays):
  * constructor shapes with a REPEATED initializer name (random generator and rejection shape ctor-dup-init): the dict
    built from `initializers` keeps the last value of a name, so the invalid twin (produced / owned elsewhere) is put
    last (rejected) or first (accepted); inputs, outputs and a node ride along so a partial adoption is visible
    -> r5m2 (validation looks at the FIRST of a repeated name) caught at GraphNew by oracle and correspondence;
  * the executor passes iterable arguments as one-shot generators in ~35 % of the calls (Node inputs and attributes,
    Graph nodes, Graph.extend / insert_* / remove, inputs.extend; op flag "gen", so replays are deterministic)
    -> r5m3 (uses registered by re-enumerating the consumed `inputs` argument) caught by I1 at NewNode;
  * gen_multi_rau: a real replacement of a consumed non-output value at position 0, then a graph OUTPUT mapped to ITSELF
    with replace_graph_outputs=False at position k > 0 -> C06-r5m2 (identity shortcut ahead of the output checks).

READINGS.  "a node names a graph exactly when that graph's node sequence contains it, once" is checked on iteration,
len() and reversed().  I7 is read on the public `Value.graph` property (falls back to the producer's graph): a value
in no collection and without producer reports None; a value with a flag reports a graph.  Exception types are
compared through common.exn_name.  Initializer keys: "" is never a key (added to I5).

FINDINGS (genuine defects, reproduced on the implementation; proposed_fixes/C01-*.diff repair 10 of them — LANDED as
/repo c5c2382 and dff454e (minus the "graph input / initializer as node output" hunk), entries now status=fixed,
witnesses moved to corpus/; still known: graph-ctor-partial, node-output-owned (init-ior-untracked repaired by /repo 4b0e698: `initializers |= m` is
now rejected with RuntimeError before it mutates; witness kept as an oracle-only corpus case) — validated:
578 tests of _core/_graph_containers/_convenience pass, and the tie run against the patched tree with the model
switched to the repaired branches (VERIF_C01_FIXED=...) shows zero mismatches): see known_findings.d/C01.json.
New relative to DESIGN §1: latent ref-count corruption by a rejected extend() that changes nothing visible
(corpus/C06/latent_extend.json), `graph.inputs *= n` additionally raises AttributeError (no setter) after mutating,
`initializers |= {...}` untracked, insert_after/insert_before adopt the new nodes before rejecting a reference node
that is not in the graph.

MUTANTS tried on a scratch worktree (all reported as VIOLATION with a concrete shrunk replay, found by the oracle on
the generated histories; the correspondence also diverged):
  M1 replace_input_with without _remove_usage           -> I1 at NReplaceInput/NResizeInputs
  M2 Graph.remove not clearing node.graph               -> I3
  M3 GraphInputs._maybe_unset_graph not decrementing    -> I4
  M4 resize_outputs not clearing _producer              -> I2
  M5 Value.name setter not re-keying initializers       -> I5
  M6 _GraphIO.append appending before _set_graph        -> C06 (rejected append keeps the value)
  M7 resize_inputs shrink loop starting at new_size+1   -> I1
Unchanged tree: exit 0 for VERIF_SEED 0,1,2,3 (KNOWN-FINDING lines only); quick 15-50 s wall.  After the repairs
landed: zero mismatches between the repaired tree and the model under the flipped current_cfg, seeds 0..3.
"""

from __future__ import annotations

from harness.props import _core_ops as C


def run(ck) -> None:
    C.run_check(ck, "c01")
    C.print_broken(ck)
    ck.level = "proof"
    ck.notes.append("C01_inv_reachable_fixed (repaired model, every history, whole 36-op alphabet) and C01_inv_reachable "
                    "(current code, histories that never take the two unrepaired branches SNodeOutputsOwned / SInitUpdate) are "
                    "full statements; I1 holds for every configuration; convenience functions and stepped slices are oracle-only")


def replay(rp: dict) -> int:
    return C.replay_file(rp, "c01")

"""C06 — a rejected edit leaves every IR object exactly as it was.

Shares the heap model (coq/theories/C01/Model.v), the tie and the generator with C01 (see harness/props/c01.py for
the model, the tie and its measured coverage, the mutants and the findings).  oracle_c06 takes the canonical
observation of every registered object (public accessors only) before each op and, when the op raises, compares it
with the observation after.

THEOREMS (coq/theories/C06/Property.v, closed under the global context):
  C06_raise_frame_fixed          forall ops op h' e, step all_fixed (run all_fixed ops empty) op = (h', Raise e)
                                 -> h' = run all_fixed ops empty          (the heap itself, hence obs_all)
  C06_raise_frame                the same for current_cfg along every `clean` history (rejected op included), stated on
                                 obs_all = public observation + ref counters + name-authority state
  proof shape: every op of the repaired model is `validate; mutate`; multi-element ops validate the whole argument list
  first (forallb), so a failure at ANY position k returns the input heap; replace_all_uses_with(replace_graph_outputs)
  is shown to be rejectable only at its first assignment (rau_ok); Value.name / initializers[k]=v need the invariant
  of C01 (an initializer has a name, no producer, and is stored under that name) to exclude their internal raise points.
  C06_graphnew_refuted           the OPEN site (Graph(...) rejected midway), about current_cfg
  C06_<site>_refuted_before_fix x8   raise + changed observation under original_cfg (the code before /repo c5c2382, dff454e) at
                                 SIOExtend SIOInsert SIOSetItem SInitSetItem SNameEmpty SGExtend SGInsert, replace_all_uses_with(rgo)
FULL since the deepening round (see c01.py): no `in_scope`; Graph(...) with arguments, popitem/update/setdefault/|= and
Graph.sort (cycle -> nothing touched) are inside the frame theorem.  Repaired since: C06_initupdate_refuted_before_fix
(initializers.update({ok, rejected}) kept `ok`; finding init-update-partial, /repo 4f0fb1e = proposed_fixes/
C06-initializers-update-validate-first.diff: 772 tests pass, tie clean with VERIF_C01_FIXED=SInitUpdate).  rename_values
and the other convenience functions stay oracle-only.

MULTI-GRAPH STREAM (oracle-only, added after two seeded changes escaped): gen_nested_sort builds a top graph with 2-8
If-like nodes whose bodies (one possibly holding a further nested body) are acyclic but randomly permuted, exactly one
scope containing a use-def cycle, and calls Graph.sort() on the top graph or a nested graph; gen_multi_rename calls
convenience.rename_values over the initializers of 2-4 graphs with the invalid pair (collision with an untouched
initializer / "" / duplicate target) at every position of a LATER graph; gen_multi_rau calls replace_all_uses_with over
outputs of two graphs with a foreign replacement in the later pair (known finding).  Caught with concrete replays:
seeded/C06-m1 (per-graph cycle check inside the re-linking loop of Graph.sort) and seeded/C06-m2 (rename_values popping
each graph's initializers right after validating that graph).  Not modelled in Coq: sort atomicity is C12_cycle_atomic,
rename_values all-or-nothing is C15_rename_all_or_nothing (other engineers' models).

ROUND 2 (three more seeded changes escaped, all now caught with concrete replays; seeds 0-3 clean):
  * snapshot: every value now also reports what is reachable through const_value (tensor identity, name, doc string,
    metadata, dtype, shape, bytes); ~40 % of generated values are backed by a tensor  -> seeded/C06-r2m1 (Value.name
    renames the tensor before validating) is caught at a rejected VSetName;
  * why r2m2/r2m3 escaped although both ops are in the Coq model and the sites are repaired in current_cfg: the generator
    produced "reference node not in this graph" only under the 4 % site-aimed branch and only when no foreign node
    existed, and "graph output WITH consumers + foreign replacement" only by chance; nothing was wrong with the model,
    the tie simply never executed such a call.  Now: the malformed stream picks an outside reference node with graph-less
    unnamed new nodes for insert_before/insert_after/append/prepend, prefers graph outputs that have consumers for
    rejected replace_all_uses_with, and gen_rejections (80 histories per quick run, model ops, compared inside Coq)
    builds a two-graph scene and ONE call designed to be rejected with the offending element at every position
    (insert-ref, insert-foreign, extend-foreign, io-extend/insert/setitem, rau, rename, init-set, remove-safe,
    resize-outputs), chosen so that a partial mutation is visible  -> seeded/C06-r2m2 (GInsertBefore) and C06-r2m3
    (VReplaceAllUses) are caught by the oracle and by the correspondence (the repaired model returns the input heap).
  * harness artifact removed: the executor used to attach a tensor to the value before register_initializer.

ROUND 3: seeded/C06-r3m3 (extended-slice size pre-check skipped for NEGATIVE steps) escaped because gen_slices only used
step 2; it now draws steps from {2, 3, -1, -2, 100, -100, 0}, reversed full slices (lst[::-1], lst[n-1:0:-1]) with the
right size, one item too many and one too few, and del lst[::step] -> caught with concrete replays (X_IOSetSlice ... -1).
The snapshot also covers Value.shape / Value.type, and gen_merge_shapes exercises Value.merge_shapes (compatible merges,
rank mismatch, a conflicting dimension at every position after dimensions the merge refines).  FINDING, key
merge-shapes-partial (REPAIRED by /repo 8a605e8, entry now status=fixed, witness in corpus/C06): a rejected merge_shapes on a non-frozen shape
leaves the dimensions refined so far ([None, 3] + [5, 4] raises and leaves [5, 3]); proposed_fixes/
C06-merge-shapes-atomic.diff computes all merged dimensions before writing any (keeps the documented in-place update:
502 _core tests pass; a first attempt that merged into a copy broke test_merge_shapes_modifies_value_shape_in_place).

PROPOSED FIXES for the then-remaining known findings (the first two LANDED as /repo 680d931 and 96f5667: SGraphNew
flipped in current_cfg, entries status=fixed, witnesses in corpus; each was validated on a scratch worktree: 938 tests of _core,
_graph_containers, _convenience, serde, traversal and passes/common pass, and both checks run against the patched tree):
  * C06-graph-ctor-validate-first.diff (+ C06-graph-ctor-demo.py): Graph.__init__ validates inputs, outputs,
    initializers and nodes (same order, same exception types as the constructor would fail with) before adopting
    anything.  The repaired branch of the model (graph_new_reject / first_bad_init in Model.v, switch SGraphNew) mirrors it
    exactly: with VERIF_C01_FIXED=SGraphNew the tie shows zero mismatches on the patched tree.
  * C06-replace-all-uses-validate-first.diff (+ demo): convenience.replace_all_uses_with validates every pair first,
    tracking the ownership changes earlier pairs make; 917 rejected and 616 accepted calls of the oracle stream on the
    patched tree: no change after a rejection, none rejected midway.
  * conv-replace-nodes-and-values-not-atomic stays known without a patch: an up-front check would have to re-implement
    Graph.remove(safe=True)'s safety analysis on the state AFTER the replacement, insert_after's checks and the pair
    simulation above, plus the Value.name/type/shape propagation that can itself raise - not small.

ROUND 4 (seeded/C06-r4m1, C06-r4m3 escaped; both now caught with concrete replays):
  * gen_rejections shape io-returning: a value that belonged to the list (once or twice), left it (pop/remove) and was
    adopted by the other graph is re-offered at position >= 1 of extend / slice assignment after acceptable values; the
    random generator re-offers such values too (the list's ref counter still has a zero-count key for them)
    -> r4m1 (extend skips re-validation of values `in self._ref_counter`) caught at IOExtend by oracle and correspondence;
  * gen_multi_rau: unequal-length values / replacements (shorter, longer, a single value against several replacements,
    a single replacement) whose common prefix has consumers / is a graph output
    -> r4m3 (length check replaced by zip(strict=True) inside the replacing loop) caught at X_ConvReplaceAllUses.

REPORTED BY AN INDEPENDENT ENGINEER, reproduced on the unchanged tree:
  (1) Node(..., attributes=[<not an Attr>], outputs=[v]) raises AttributeError AFTER _create_outputs claimed v: v.producer()
      is the unreachable half-built node (even Value.graph / repr crash on it).  Genuine (the docstring lists rejected
      attributes as a raising case): finding node-ctor-rejected-claims-outputs (C01 I2 + C06; REPAIRED by /repo f654182), oracle stream gen_bad_node
      (op X_NewNodeBadAttr; attributes are not in the Coq model), proposed_fixes/C06-node-ctor-attributes-first.diff +
      C06-node-ctor-demo.py (build the attributes before claiming the outputs; 790 tests pass; check on the patched
      worktree reports only known-finding-stale).  The snapshot tolerates accessors that raise (handle 9998).
  (2) Graph.remove(n) after a hand-written `n.graph = g` clears n.graph and then raises because n is not in the node list:
      reproduced, NOT recorded - the precondition can only be produced with the raw `Node.graph` setter, which DESIGN 3.1
      excludes from the editing alphabet as an internal hand-off; in every state reachable through the public mutators
      `n.graph is g` implies membership (clause I3 of C01_inv_reachable_fixed), so the raise cannot happen there.

ROUND 6 (seeded C06-r6m2 escaped: register_initializer reserves the value's name in the name authority before add()
rejects it - no accessor differs right after the call, later generated names do):
  * twin-history oracle (run_history(..., twin=True)): "a rejected call can be ignored" - deleting a call that raised (it
    allocates nothing) from the history must leave the final observation of the whole history unchanged; this exposes
    hidden state left behind by a rejected call (name-authority reservations, ref counters) through later names/flags;
    tensors are observed through run-independent handles so that two runs of a history agree;
  * gen_register_rejected: register_initializer with values named val_<k> (accepted, and rejected because owned by
    another graph / produced / without tensor / name taken), followed by nodes with unnamed outputs added to that graph
    -> C06-r6m2 caught with a concrete replay (later name val_3 -> val_4); replays always run the twin comparison.

READING.  "every observable property of every reachable IR object" = the accessors of C01's observe_at list for every
object the history ever created (a superset of the reachable ones), plus object counts.  Hidden state (ref counters,
name-authority sets) is part of the model-side theorem only; a rejected call that corrupts only hidden state is still
detected by the tie (hash of obs after later ops) and classified by the Coq-side `hit`.

KNOWN FINDINGS: known_findings.d/C06.json (10 sites; 7 repaired by /repo c5c2382 + dff454e = proposed_fixes/C01-*.diff,
now status=fixed with their witnesses in corpus/C06; still known: the Graph(...) constructor and the two
non-transactional convenience functions).  Mutant M6 of c01.py is the C06
mutant (caught with a concrete replay).  Unchanged tree: exit 0 for VERIF_SEED 0..3.
"""

from __future__ import annotations

from harness.props import _core_ops as C


def run(ck) -> None:
    C.run_check(ck, "c06")
    C.print_broken(ck)
    ck.level = "proof"
    ck.notes.append("C06_raise_frame_fixed / C06_raise_frame are full statements over the 36-op alphabet; no open model site raises; "
                    "convenience functions and stepped slices are oracle-only")


def replay(rp: dict) -> int:
    return C.replay_file(rp, "c06")

"""C06 — a rejected edit leaves every IR object exactly as it was.  (see DECISIONS at the bottom)"""

from __future__ import annotations

from harness.props import _core_ops as C


def run(ck) -> None:
    C.run_check(ck, "c06")
    ck.level = "proof"


def replay(rp: dict) -> int:
    return C.replay_file(rp, "c06")

"""C17 — deserializing any proto terminates with an error or a consistent IR.

Decided by: Coq theorems in coq/theories/C17/Property.v about the executable model of serde.deserialize_* /
serialize_* in coq/theories/C03/Model.v (shared with C03), tied to /repo by a correspondence check: the
real onnx_ir.from_proto / to_proto are run on a mutation stream over valid protos (field-level and
byte-level) and on random protos; outcome class (raises / returns), the canonical structure of the
returned IR (Canon.canon: every public link with first-visit labels) and the re-serialized proto are
embedded in case files that Coq evaluates against `deser_model` / `ser_model`.  The property oracle
(use-def/ownership invariants I1-I7 through public accessors, re-serialization fixpoint, no file access)
runs on every case and searches a concrete failing proto when a proof or the correspondence breaks.

LOG (decisions)
* Theorems (coq/theories/C17/Property.v, all "Closed under the global context"):
  - C17_deser_total: deser_model is a total Gallina function (structural recursion on the mutually inductive
    proto, no fuel) = termination for every proto incl. cyclic/unsorted nodes, dangling/duplicated/empty names.
    Python's recursion limit on deep nesting is modelled-not-verified (it raises = an allowed outcome).
  - C17_consistent (FULL, no well-formedness hypothesis): deser_model p = Ok (h, m) -> Inv h, Inv = C01's I1-I7
    (C03/Inv.v).  Proof: C17/OpNode.v (Node.__init__), OpGraph.v (Graph.__init__), Steps.v/Phases.v (scope
    invariant st_ok: every table entry is name-consistent, unowned, allocated after the scope base; values
    named outside the scope's output names keep producer None), Deser.v (mutual induction over the proto),
    Top.v (functions, model).  The two facts the code does NOT check dynamically and the proof supplies:
    the outputs of one node are pairwise distinct values; initializer values never get a producer.
  - C17_deser_function_of_proto: the outcome depends on the proto only (the model has no file-system part).
  - C17_ser_fixpoint (FULL, PROVED, closed): for EVERY proto p: deser_model p = Ok (h,m) -> ser_model np h m =
    Ok (h1,q) -> exists h' m' h'', deser_model q = Ok (h',m') /\\ ser_model np h' m' = Ok (h'',q).  The only
    hypotheses are boolean contracts of the opaque leaf (de)serializers, evaluated by vm_compute on every case of
    this check (hypotheses of the theorem are thereby shown non-vacuous on the generated stream): np_ok (payload
    normalisation maps nothing to/from "no information"), np_idem (it is idempotent), leaf_fill_m (a non-input,
    non-output initializer's normalised payload is unchanged by completing it from its tensor).  Proof files:
    C17/Tree2.v (generalised unfolding: placeholders, duplicated/empty input names, unknown outputs), PUnfold.v
    (the unfolding computed symbolically from the proto), Fix2Ser.v, Fix2Deser*.v, Fix2Pay.v, Fix2Real*.v
    (deser p realises pu_m p), Fix2Wfs*.v (pu_m p is well formed), Fix2Glue.v, Fix2Nosbad.v, Fix2Final.v; built on
    C03/IsoDeser*.v.  Every component statement (w2_parts, fix2_statement_b) is ALSO evaluated per case.
    Intermediate theorems kept: C17_ser_fixpoint_wf2, C17_ser_fixpoint_partial.
  - Findings of the fixpoint clause: fixpoint-initializer-empty-value-info (fixed in /repo by 420823a; Model.fill_pay
    follows the fix) and reser-duplicate-initializer-bad-dtype (found by the proof attempt: a repeated initializer
    name attached the later tensor to the earlier value without reading its dtype, so to_proto(from_proto(p)) could
    fail to deserialize; fixed in /repo by 3a09e57 = proposed_fixes/C17-duplicate-initializer-last-wins.diff;
    Model.deser_inits / PUnfold.pu_inits follow the fix).
* Tie: correspondence on every run (quick 500 cases + corpus, thorough 12000): mutation stream over generated
  valid protos (35 field-level mutation kinds, 1-5 per case: rename to existing/empty/new names, drop, duplicate,
  shuffle/reverse/cyclic nodes, unknown enum values in elem_type/data_type/attribute type, inconsistent tensor
  fields, absurd external-data entries, invalid UTF-8 in bytes fields, cleared/map/sequence-without-elem types,
  repeated outputs, outputs named like inputs/initializers, nodes moved into subgraphs, scope shadowing,
  duplicated/unnamed initializers, duplicate attributes/functions, unknown function outputs, ref_attr_name on
  graph attributes, subgraph outputs produced only in an enclosing graph, `name` fields ABSENT rather than empty,
  names that look generated (val_0, node_Relu_0), external locations with backslashes and other odd characters),
  byte-level mutations parsed by protobuf first, and unconstrained random protos.
  Compared inside Coq per case: raise-vs-return, Canon.canon of the returned IR (every public link with
  first-visit labels incl. uses order, producer/index, flags, owner, const tensor, payload), the re-serialized
  proto, and the model's fixpoint verdict against the implementation's.
* Order independence: before anything else, 40 (thorough 600) SEQUENCES (A, B) are run in this process: A fails
  half-way through its main graph, B reads as a dangling name a name A declared; from_proto(B) must give the same
  canonical observation and the same oracle verdict before and after the failing from_proto(A) (replay kind
  "sequence" carries both protos).
* Reading of "consistent", extended: besides I1-I7, everything a value of the returned model is linked to must be
  part of the model (I1x: a consumer in no graph of the model; I2x: a producer in no graph of the model; a produced
  value is owned by its producer's graph).  I1x failed at one site on the tree as it was: finding
  ghost-consumers-of-dropped-duplicate-attribute (a GRAPH attribute dropped because a later attribute repeats its
  name had already been deserialized: its nodes stayed in uses() of outer values; I1-I7 held pairwise), fixed in
  /repo by 840d15c = proposed_fixes/C17-duplicate-attribute-last-only.diff; Model.deser_attrs / PUnfold.pu_as
  follow the fix (skip an attribute whose name occurs again later).
* Reading of "raises": any exception type (SerdeError wraps everything); only raise-vs-return is compared.
* Reading of "consistent": C01's I1-I7 restricted to what public accessors show (Value.graph falls back to
  the producer's graph, so I7 is checked for producer-less values; ref-counts of the IO lists are not
  observable).  Objects checked: everything reachable from the model plus consumer nodes found via uses().
* Reading of "serializes to itself": q = to_proto(from_proto(p)); from_proto(q) must not raise and
  to_proto(from_proto(q)) == q (protobuf message equality).
* Logging runs at its DEFAULT level during the whole check (warnings are emitted and their %-arguments rendered by a
  sink handler, not printed), and the process runs in a scratch cwd where the external-data files named by the
  generated protos (w.bin, sub/w.bin, and one absolute path) EXIST, so an accidental read succeeds and is seen.
* File access: sys.addaudithook (open, os.*, mmap, shutil, pathlib, glob events) + rebinding
  os.stat/os.lstat/os.open during from_proto and during name/dtype/shape/size inspection of every tensor;
  paths of the Python installation and of the source tree are ignored (lazy imports).  A tensor accessor that
  RAISES (unknown dtype) is not a file access and is only recorded.
* Modelled-not-verified: leaf payloads (tensor contents, type/shape protos, plain attributes, metadata) are
  tokens computed by the library's own leaf (de)serializers, incl. the norm table (payload after a leaf
  round trip), the fill table (value_info payload completed from a tensor) and the "re-serialization of this
  attribute raises" flag; quantization annotations, device configurations, metadata merge when value info is
  applied twice to one value and string fields holding
  invalid UTF-8 (protobuf returns bytes) are left out of the model (such cases skip the Coq comparison and are
  counted under coverage["unmodelled"]; the oracle still runs on them); NameAuthority never renames during
  deserialization because every name is a str; Python recursion limit.
* Mutants of /repo tried in a scratch worktree (VERIF_REPO), seed 0, all reported VIOLATION:
  M1 _declare_node_outputs without the redeclaration check -> oracle I2 (repeated output) + fixpoint, concrete replay;
  M2 input lookup through scoped_values without reversed() -> correspondence:deser (no property violation:
     the IR stays consistent), no-failing-input-found;
  M3 placeholder value not registered in the scope -> correspondence:deser, no-failing-input-found;
  M4 Node.__init__ skips the usage of the last input when there are >2 inputs -> oracle I1, concrete replay;
  M5 GraphInitializers._set_graph does not flag a value that is already a graph input -> oracle I5, concrete replay;
  M6 _remove_trailing_outputs off by one -> oracle fixpoint, concrete replay;
  M7 ExternalTensor.__init__ probes the file (os.path.exists/getsize) -> oracle file access, concrete replay.
  Independent seeded changes (tools/seed_eval.py), all detected with a concrete input: C17-m1/m2/m3, C17-r2m1 (graph
  input with ABSENT name gets None -> val_0 -> re-serialized proto redeclares val_0: fixpoint oracle), C17-r2m2
  (scoped_values as mutable default: sequence check), C17-r2m3 (ExternalTensor stats the file when the location has
  a backslash: file-access oracle), C17-r3m1 (IR<10 function value-info read-back gated on 0 < ir_version: mutation
  ir_version_low = ir_version 0/absent + function value_info -> fixpoint oracle), C17-r3m2 (warning formats the Node,
  whose __str__ reads a small EXTERNAL constant input: mutation dangling_with_external + logging at its default
  level + existing external files -> file-access oracle), C17-r3m3 (function attribute defaults deserialized in the
  function's value scope: mutation fn_attr_dup_graph -> oracle I1x), C17-r4m2 (dim_param constant expressions folded
  while loading: value infos / mutation dim_param_expr carry '2*4', '1+1', '2**3' ... and the leaf oracle
  oracle_leaf_dims compares every dimension the library reads with an independent reading of the proto).
* KNOWN finding experimental-function-value-info-name-collision (clean tree, ir_version < 10): a main-graph value
  named '<domain>::<function>/<value>' is read back also as that function value's type; the next serialization
  writes a second entry, so the fixpoint fails; the model reproduces it: C17_ser_fixpoint_old_refuted; attribution by
  repair = rename such values.
* KNOWN finding experimental-function-value-info-function-id (clean tree, ir_version < 10; reported by the C17 mutation
  engineer, confirmed): a function with an overload, or whose domain / name contains "::" or "/", has its value info
  written as "domain::name/value" and the reader cannot relate the entry to the function again -> the second round
  trip drops the types.  Mutation fn_id_odd produces it; the model AGREES (table X has no matching entry, so
  model_fixpoint_x is false too); attribution by repair = clear overload / sanitise domain and name.  Proposed fix +
  demo in proposed_fixes/C17-experimental-function-value-info-function-id*.  ModelOld.exp_lookup treats X as a
  relation (x_has) so that the fixed reader (prefix match against the existing functions) needs a table change only.
  FIXED upstream 348a4f1 (prefix match against the existing functions); exp_tables (c03.py) computes X as that relation.
  Under the new reader the open name-collision finding keeps its shape and widens: ONE composite name for TWO values =
  main-graph value named like "D::F/a" (now for any overload of D::F), the same value name in two overloads of one
  (domain, name) (fn_id_odd variant 5), or qualified prefixes made ambiguous by separators (D::F value "x/a" vs D::"F/x"
  value "a"); all confirmed on 348a4f1; one repair covers them.
* repair_known_sites applies ONLY the repair of the finding being tested (round 5: the shared repair also removed empty
  value_info entries = the site of the FIXED finding 420823a, which attributed seeded C17-r5m3 to the open finding).
* Round 5: mutation type_degenerate (`type {}`, `type { tensor_type {} }`, explicit elem_type 0 with/without shape,
  sparse/sequence with elem_type 0; aimed at value_info of non-input initializers and node outputs), elem_type 0 in
  bad_elem_type: seeded C17-r5m2 / C17-r5m3 now reported by the fixpoint oracle with a shrunk proto.
* Round 6: oracle_devices (D1: a node configuration whose name is registered on the model IS the registered object;
  D2: a sharding spec naming an input/output of its node holds THAT Value object), mutation device_cfg (model + node
  configurations at any depth incl. function bodies and their subgraphs, captured tensor name re-declared in the
  subgraph), mutation fn_vi_both (IR<10: function value typed by FunctionProto.value_info and by a main-graph entry with
  another type); directed cases dev-shadow / dev-fn-subgraph / fn-vi-both: seeded C17-r6m1, r6m3 (D2, D1) and r6m2
  (fixpoint + correspondence) are reported with a shrunk proto at every seed.
* IR < 10 experimental function value-info format: MODELLED since the deepening round (C03/ModelOld.v: deser_model_old =
  deser_model + post-pass applying main-graph value_info entries named "{domain}::{function}/{value}" to the function's
  inputs and node outputs; ser_model_old = functions without value_info + those entries appended to the main graph;
  the two string operations are per-case tables X (parse, via the library's parser) and Y (compose)).  Every case with
  ir_version < 10 and functions goes through deser_model_x / ser_model_x / model_fixpoint_x in Coq (no longer skipped).
  Theorems: C17_consistent_x (Inv in both formats), C17_ser_fixpoint_old_refuted, C03_ser_readonly_old.
"""

from __future__ import annotations

import copy
import json
import os
import re
import sys

from harness import common
from harness.common import REPO
from harness.props import c03 as S

# --------------------------------------------------------------------------- logging / external files

EXT_ABS = None        # absolute path of an existing external-data file (set by run())


class _FormatSink(__import__("logging").Handler):
    """Swallows the library's log records AFTER formatting them, so that logging runs at its default level
    (WARNING enabled: %-arguments are rendered, e.g. Node.__str__) without flooding the output."""

    def emit(self, record):
        try:
            record.getMessage()
        except Exception:  # noqa: BLE001
            pass


def default_level_logging() -> None:
    import logging
    import warnings
    logging.disable(logging.NOTSET)
    lg = logging.getLogger("onnx_ir")
    if not any(isinstance(h, _FormatSink) for h in lg.handlers):
        lg.addHandler(_FormatSink(level=logging.WARNING))
    lg.setLevel(logging.WARNING)
    lg.propagate = False
    warnings.simplefilter("ignore")


def make_external_files(root: str) -> str:
    """Existing external-data files: ./w.bin and ./sub/w.bin relative to `root` (the cwd of the run)."""
    os.makedirs(os.path.join(root, "sub"), exist_ok=True)
    for rel in ("w.bin", os.path.join("sub", "w.bin")):
        with open(os.path.join(root, rel), "wb") as f:
            f.write(bytes(range(256)) * 4)
    return os.path.join(root, "w.bin")


# --------------------------------------------------------------------------- generator of valid protos

ALPHA = ["a", "b", "c", "d", "e", "x", "y", "z", "w", "k"]


def _onnx():
    import onnx
    from onnx import TensorProto, helper
    return onnx, helper, TensorProto


def gen_tensor(rng, name):
    onnx, H, TP = _onnx()
    kind = rng.choice(["raw", "float", "int32", "string", "external", "raw"])
    n = rng.choice([0, 1, 2, 3])
    if kind == "raw":
        t = H.make_tensor(name, TP.FLOAT, [n], bytes(rng.randrange(256) for _ in range(4 * n)), raw=True)
    elif kind == "float":
        t = H.make_tensor(name, TP.FLOAT, [n], [float(rng.randrange(5)) for _ in range(n)])
    elif kind == "int32":
        t = H.make_tensor(name, TP.INT32, [n], [rng.randrange(100) for _ in range(n)])
    elif kind == "string":
        t = H.make_tensor(name, TP.STRING, [n], [bytes([97 + rng.randrange(5)]) for _ in range(n)])
    else:
        t = onnx.TensorProto(name=name, data_type=TP.FLOAT, dims=[n], data_location=TP.EXTERNAL)
        for k, v in (("location", rng.choice(["w.bin", "sub/w.bin"] + ([EXT_ABS] if EXT_ABS else []))),
                     ("offset", str(rng.randrange(64))),
                     ("length", str(4 * n))):
            e = t.external_data.add()
            e.key, e.value = k, v
    if rng.random() < 0.15:
        e = t.metadata_props.add()
        e.key, e.value = "mk", "mv"
    if rng.random() < 0.1:
        t.doc_string = "tdoc"
    return t


def gen_vinfo(rng, name):
    onnx, H, TP = _onnx()
    r = rng.random()
    if r < 0.15:
        return onnx.ValueInfoProto(name=name)           # no type at all
    if r < 0.25:
        vi = onnx.ValueInfoProto(name=name)
        vi.type.tensor_type.elem_type = TP.FLOAT        # no shape
        return vi
    if r < 0.32:
        vi = H.make_tensor_sequence_value_info(name, TP.INT64, [None, 2])
        return vi
    if r < 0.38:
        vi = H.make_tensor_value_info(name, TP.FLOAT, ["N", 3])
        vi.doc_string = "vdoc"
        return vi
    return H.make_tensor_value_info(name, rng.choice([TP.FLOAT, TP.INT64, TP.BOOL]),
                                    rng.choice([[1], [2, 3], [], ["N"], [None, 4], ["2*4", 3], ["N+1", "1+1"], ["2**3"]]))


class _Names:
    def __init__(self, rng):
        self.rng, self.n = rng, 0

    def fresh(self):
        # small alphabet first (collisions after mutation), then numbered
        self.n += 1
        return ALPHA[self.n - 1] if self.n <= len(ALPHA) and self.rng.random() < 0.8 else f"v{self.n}"


def gen_graph(rng, names, outer_visible, depth, gname):
    """A valid GraphProto: topologically ordered nodes, unique names, may capture outer values."""
    onnx, H, TP = _onnx()
    g = onnx.GraphProto(name=gname)
    defined = []
    for _ in range(rng.randrange(0, 3) if depth else rng.randrange(1, 4)):
        nm = names.fresh()
        g.input.append(gen_vinfo(rng, nm))
        defined.append(nm)
    for _ in range(rng.randrange(0, 3)):
        if defined and rng.random() < 0.25 and depth == 0:
            nm = rng.choice([i.name for i in g.input])     # initializer for an input
            if any(t.name == nm for t in g.initializer):
                continue
        else:
            nm = names.fresh()
            defined.append(nm)
            if rng.random() < 0.5:
                g.value_info.append(gen_vinfo(rng, nm))
        g.initializer.append(gen_tensor(rng, nm))
    for k in range(rng.randrange(0, 5)):
        visible = defined + outer_visible
        ins = []
        for _ in range(rng.randrange(0, 4)):
            r = rng.random()
            if r < 0.12:
                ins.append("")
            elif visible:
                ins.append(rng.choice(visible))
        outs = []
        for _ in range(rng.randrange(1, 4)):
            if rng.random() < 0.15:
                outs.append("")
            else:
                outs.append(names.fresh())
        n = H.make_node(rng.choice(["Add", "Relu", "If", "Loop", "Custom", "Identity"]), ins, outs,
                        name=rng.choice(["", f"n{k}", "dup"]),
                        domain=rng.choice(["", "", "ai.onnx", "custom.domain"]))
        for ai in range(rng.randrange(0, 3)):
            r = rng.random()
            an = rng.choice(["alpha", "body", "then_branch", "else_branch", "axis"])
            if any(a.name == an for a in n.attribute) and rng.random() < 0.8:
                continue
            if r < 0.35 and depth < 2:
                n.attribute.append(H.make_attribute(an, gen_graph(rng, names, visible + [o for o in outs if o], depth + 1,
                                                                  rng.choice(["", "sub"]))))
            elif r < 0.42 and depth < 2:
                n.attribute.append(H.make_attribute(an, [gen_graph(rng, names, visible, depth + 1, "g1"),
                                                         gen_graph(rng, names, visible, depth + 1, "g2")]))
            elif r < 0.55:
                n.attribute.append(H.make_attribute(an, gen_tensor(rng, rng.choice(["", "t"]))))
            elif r < 0.7:
                n.attribute.append(H.make_attribute(an, rng.choice(["s", "", "héllo"])))
            elif r < 0.8:
                n.attribute.append(H.make_attribute(an, [1, 2, 3]))
            elif r < 0.85:
                a = onnx.AttributeProto(name=an, type=onnx.AttributeProto.INT, ref_attr_name="outer_attr")
                n.attribute.append(a)
            else:
                n.attribute.append(H.make_attribute(an, rng.randrange(10)))
        if rng.random() < 0.1:
            n.doc_string = "ndoc"
        if rng.random() < 0.1:
            e = n.metadata_props.add()
            e.key, e.value = "nk", "nv"
        g.node.append(n)
        for o in outs:
            if o:
                defined.append(o)
                if rng.random() < 0.4:
                    g.value_info.append(gen_vinfo(rng, o))
    for _ in range(rng.randrange(0, 3) if depth else rng.randrange(1, 3)):
        if defined:
            g.output.append(gen_vinfo(rng, rng.choice(defined)))
    if rng.random() < 0.1:
        g.doc_string = "gdoc"
    return g


def gen_model(rng):
    onnx, H, TP = _onnx()
    names = _Names(rng)
    g = gen_graph(rng, names, [], 0, rng.choice(["main", "", "g"]))
    m = H.make_model(g, ir_version=rng.choice([10, 10, 11, 9, 8, 13]),
                     opset_imports=[H.make_opsetid("", rng.choice([17, 20]))] +
                     ([H.make_opsetid("custom.domain", 1)] if rng.random() < 0.3 else []))
    if rng.random() < 0.3:
        m.producer_name = "verif"
    nfun = rng.choice([0, 0, 1, 2])
    if nfun and m.ir_version < 10 and rng.random() < 0.5:
        m.ir_version = 10     # the rest exercises the IR<10 experimental function value-info format (C03/ModelOld.v)
    for fi in range(nfun):
        fn = _Names(rng)
        ins = [fn.fresh() for _ in range(rng.randrange(0, 3))]
        fg = gen_graph(rng, fn, list(ins), 1, "")
        outs = [o for n in fg.node for o in n.output if o]
        f = onnx.FunctionProto(name=f"f{fi}", domain="custom.domain")
        f.input.extend(ins + [i.name for i in fg.input])
        f.node.extend(fg.node)
        f.output.extend(rng.sample(outs, min(len(outs), rng.randrange(0, 3))))
        f.opset_import.append(H.make_opsetid("", 17))
        if rng.random() < 0.4:
            f.attribute.append("outer_attr")
        if rng.random() < 0.3 and hasattr(f, "value_info"):
            for o in outs[:2]:
                f.value_info.append(gen_vinfo(rng, o))
        m.functions.append(f)
    return m


# --------------------------------------------------------------------------- mutations


def all_graphs(m):
    """Every GraphProto of the model (main graph and graph attributes, recursively)."""
    out = []

    def rec_nodes(nodes):
        for n in nodes:
            for a in n.attribute:
                if a.HasField("g"):
                    rec(a.g)
                for sg in a.graphs:
                    rec(sg)

    def rec(g):
        out.append(g)
        rec_nodes(g.node)
    rec(m.graph)
    for f in m.functions:
        rec_nodes(f.node)
    return out


def all_node_lists(m):
    return [g.node for g in all_graphs(m)] + [f.node for f in m.functions]


def name_slots(m):
    """(getter, setter) pairs for every value-name occurrence of the model."""
    slots = []

    def rep(field, i):
        slots.append((lambda: field[i], lambda s: field.__setitem__(i, s)))

    def obj(o):
        slots.append((lambda: o.name, lambda s: setattr(o, "name", s)))
    for g in all_graphs(m):
        for c in (g.input, g.output, g.value_info, g.initializer):
            for o in c:
                obj(o)
    for nodes in all_node_lists(m):
        for n in nodes:
            for i in range(len(n.input)):
                rep(n.input, i)
            for i in range(len(n.output)):
                rep(n.output, i)
    for f in m.functions:
        for i in range(len(f.input)):
            rep(f.input, i)
        for i in range(len(f.output)):
            rep(f.output, i)
    return slots


def all_tensors(m):
    ts = []
    for g in all_graphs(m):
        ts += list(g.initializer)
    for nodes in all_node_lists(m):
        for n in nodes:
            for a in n.attribute:
                if a.HasField("t"):
                    ts.append(a.t)
                ts += list(a.tensors)
    return ts


def all_types(m):
    tys = []
    for g in all_graphs(m):
        for c in (g.input, g.output, g.value_info):
            for o in c:
                tys.append(o.type)
    return tys


MUTATIONS = ["rename_existing", "rename_empty", "rename_new", "drop", "duplicate", "shuffle_nodes", "reverse_nodes",
             "cycle", "bad_elem_type", "bad_data_type", "bad_attr_type", "tensor_fields", "external_absurd",
             "bad_utf8", "clear_type", "map_type", "seq_no_elem", "output_repeat", "output_like_input",
             "move_node_inner", "dup_function", "fn_output_unknown", "attr_dup_name", "init_unnamed",
             "vi_for_unknown", "graph_attr_ref", "swap_scopes", "dup_init", "subgraph_output_outer",
             "name_field_absent", "generated_names", "dangling_with_external", "ir_version_low", "fn_attr_dup_graph", "dim_param_expr",
             "type_degenerate", "fn_id_odd", "device_cfg", "fn_vi_both"]


EXT_VARIANTS = [
[("location", "/etc/passwd"), ("offset", "0"), ("length", "10")],
[("location", "../../../etc/shadow")],
[("offset", "5")],
[("location", "w.bin"), ("offset", "-7"), ("length", str(1 << 60))],
[("location", "w.bin"), ("offset", "abc")],
[("location", "w.bin"), ("length", "1e3")],
[("location", "/nonexistent/dir/x"), ("checksum", "zz"), ("bogus", "1")],
[("location", ""), ("offset", "0")],
[("location", "sub\\w.bin"), ("offset", "0"), ("length", "4")],
[("location", "..\\..\\w.bin")],
[("location", "C:\\models\\w.bin"), ("length", "4")],
[("location", "w?*.bin")], [("location", "~/w.bin")], [("location", "$HOME/%TEMP%/w.bin")],
[("location", "a b\tc.bin")], [("location", "w.bin\x00x")], [("location", "file:///etc/passwd")],
[("location", "//server/share/w.bin")], [("location", "w.bin/")], [("location", "./././w.bin")],
[]]


def degenerate_type(ty, v: int) -> None:
    """Present-but-uninformative TypeProto number v (0..5), in place."""
    had_shape = ty.HasField("tensor_type") and ty.tensor_type.HasField("shape")
    if v == 0:
        ty.Clear()
        ty.SetInParent()
    elif v == 1:
        ty.Clear()
        ty.tensor_type.SetInParent()
    elif v == 2:
        if not had_shape:
            ty.Clear()
            ty.tensor_type.shape.dim.add().dim_value = 2
            ty.tensor_type.shape.dim.add().dim_value = 3
        ty.tensor_type.elem_type = 0
    elif v == 3:
        ty.Clear()
        ty.tensor_type.elem_type = 0
    elif v == 4:
        ty.Clear()
        ty.sparse_tensor_type.elem_type = 0
        ty.sparse_tensor_type.shape.dim.add().dim_param = "N"
    else:
        ty.Clear()
        ty.sequence_type.elem_type.tensor_type.elem_type = 0


def directed_cases() -> list:
    """Seed-independent sweep: every external-data variant on an initializer and on a tensor attribute, every
    degenerate type on the value_info of a non-input initializer / of a node output / on a graph input."""
    onnx, H, TP = _onnx()

    def base():
        g = H.make_graph([H.make_node("Relu", ["x"], ["t"], name="n0"), H.make_node("Add", ["t", "w"], ["y"], name="n1")],
                         "g", [H.make_tensor_value_info("x", TP.FLOAT, [2, 3])], [H.make_tensor_value_info("y", TP.FLOAT, [2, 3])],
                         [H.make_tensor("w", TP.FLOAT, [2, 3], [1.0] * 6)])
        g.node[0].attribute.append(H.make_attribute("value", H.make_tensor("c", TP.FLOAT, [1], [2.0])))
        g.value_info.append(H.make_tensor_value_info("w", TP.FLOAT, [2, 3]))
        g.value_info.append(H.make_tensor_value_info("t", TP.FLOAT, [2, 3]))
        return H.make_model(g, ir_version=10, opset_imports=[H.make_opsetid("", 20)])
    out = []
    for i, variant in enumerate(EXT_VARIANTS):
        for where in ("init", "attr"):
            m = base()
            t = m.graph.initializer[0] if where == "init" else m.graph.node[0].attribute[0].t
            t.data_location = TP.EXTERNAL
            t.ClearField("float_data")
            for k, v in variant:
                e = t.external_data.add()
                e.key, e.value = k, v
            out.append((m, [f"directed:ext{i}:{where}"]))
    # multi-device: shadowed tensor name on a sharded subgraph node; configured node in a subgraph of a function
    def dev_cfg(node, cid, tname):
        dc = node.device_configurations.add()
        dc.configuration_id = cid
        sp = dc.sharding_spec.add()
        sp.tensor_name = tname
        sp.device.extend([0, 1])
        sd = sp.sharded_dim.add()
        sd.axis = 0
        sd.simple_sharding.add().num_shards = 2
    for irv in (11, 13):
        inner = H.make_graph([H.make_node("Add", ["x", "a"], ["y"], name="inner_add")], "body",
                             [H.make_tensor_value_info("x", TP.FLOAT, [4, 2])], [H.make_tensor_value_info("y", TP.FLOAT, [4, 2])])
        dev_cfg(inner.node[0], "pp", "x")
        g = H.make_graph([H.make_node("Relu", ["x"], ["a"], name="n0"), H.make_node("Loop", ["a"], ["z"], name="n1", body=inner)],
                         "g", [H.make_tensor_value_info("x", TP.FLOAT, [4, 2])], [H.make_tensor_value_info("z", TP.FLOAT, [4, 2])])
        m = H.make_model(g, ir_version=irv, opset_imports=[H.make_opsetid("", 20)])
        c = m.configuration.add()
        c.name, c.num_devices = "pp", 2
        out.append((m, [f"directed:dev-shadow:ir{irv}"]))
        fin = H.make_graph([H.make_node("Relu", ["a"], ["b"], name="fn_inner")], "then", [], [H.make_tensor_value_info("b", TP.FLOAT, [4])])
        dev_cfg(fin.node[0], "pp", "a")
        f = onnx.FunctionProto(name="F", domain="custom.domain")
        f.input.append("a")
        f.output.append("o")
        f.node.append(H.make_node("If", ["a"], ["o"], name="fn_if", then_branch=fin))
        dev_cfg(f.node[0], "pp", "a")
        f.opset_import.append(H.make_opsetid("", 20))
        g = H.make_graph([H.make_node("F", ["x"], ["z"], name="call", domain="custom.domain")], "g",
                         [H.make_tensor_value_info("x", TP.FLOAT, [4])], [H.make_tensor_value_info("z", TP.FLOAT, [4])])
        m = H.make_model(g, ir_version=irv, opset_imports=[H.make_opsetid("", 20), H.make_opsetid("custom.domain", 1)], functions=[f])
        c = m.configuration.add()
        c.name, c.num_devices = "pp", 2
        out.append((m, [f"directed:dev-fn-subgraph:ir{irv}"]))
    # IR < 10: function value typed by FunctionProto.value_info AND by a main-graph entry with another type
    for irv in (9, 8):
        f = onnx.FunctionProto(name="F", domain="custom.domain")
        f.input.append("a")
        f.output.append("b")
        f.node.append(H.make_node("Relu", ["a"], ["b"], name="fr"))
        f.opset_import.append(H.make_opsetid("", 17))
        f.value_info.append(H.make_tensor_value_info("b", TP.FLOAT, [2]))
        for main_value in (False, True):
            g = H.make_graph([H.make_node("Relu", [], ["custom.domain::F/b"], name="composite")] if main_value else [], "g", [], [])
            g.value_info.append(H.make_tensor_value_info("custom.domain::F/b", TP.INT64, [7]))
            m = H.make_model(g, ir_version=irv, opset_imports=[H.make_opsetid("", 17), H.make_opsetid("custom.domain", 1)],
                             functions=[copy.deepcopy(f)])
            out.append((m, [f"directed:fn-vi-both:ir{irv}:{'main-value' if main_value else 'entry-only'}"]))
    for v in range(6):
        for where, ty_of in (("init-vi", lambda m: m.graph.value_info[0].type), ("output-vi", lambda m: m.graph.value_info[1].type),
                             ("input", lambda m: m.graph.input[0].type)):
            m = base()
            degenerate_type(ty_of(m), v)
            out.append((m, [f"directed:type{v}:{where}"]))
    return out


def mutate(m, rng, kind=None):
    """Apply one field-level mutation in place; returns its name (or None if not applicable)."""
    onnx, H, TP = _onnx()
    kind = kind or rng.choice(MUTATIONS)
    slots = name_slots(m)
    graphs = all_graphs(m)
    nlists = [nl for nl in all_node_lists(m) if len(nl)]
    existing = sorted({g() for g, _ in slots if g()})
    try:
        if kind == "rename_existing" and slots and existing:
            rng.choice(slots)[1](rng.choice(existing))
        elif kind == "rename_empty" and slots:
            rng.choice(slots)[1]("")
        elif kind == "rename_new" and slots:
            rng.choice(slots)[1](rng.choice(["q", "nope", "a/b", "custom.domain::f0/a"]))
        elif kind == "drop":
            g = rng.choice(graphs)
            cs = [c for c in (g.input, g.output, g.initializer, g.value_info, g.node) if len(c)]
            if not cs:
                return None
            c = rng.choice(cs)
            del c[rng.randrange(len(c))]
        elif kind == "duplicate":
            g = rng.choice(graphs)
            cs = [c for c in (g.input, g.output, g.initializer, g.value_info, g.node) if len(c)]
            if not cs:
                return None
            c = rng.choice(cs)
            c.add().CopyFrom(c[rng.randrange(len(c))])
        elif kind == "shuffle_nodes" and nlists:
            nl = rng.choice(nlists)
            items = [copy.deepcopy(n) for n in nl]
            rng.shuffle(items)
            del nl[:]
            nl.extend(items)
        elif kind == "reverse_nodes" and nlists:
            nl = rng.choice(nlists)
            items = [copy.deepcopy(n) for n in reversed(nl)]
            del nl[:]
            nl.extend(items)
        elif kind == "cycle" and nlists:
            nl = rng.choice(nlists)
            a, b = rng.choice(nl), rng.choice(nl)
            outs_b = [o for o in b.output if o]
            outs_a = [o for o in a.output if o]
            if not outs_a or not outs_b:
                return None
            a.input.append(rng.choice(outs_b))
            b.input.append(rng.choice(outs_a))
        elif kind == "bad_elem_type":
            tys = [t for t in all_types(m) if t.HasField("tensor_type")]
            if not tys:
                return None
            rng.choice(tys).tensor_type.elem_type = rng.choice([9999, -1, 24, 100, 0])
        elif kind == "bad_data_type":
            ts = all_tensors(m)
            if not ts:
                return None
            rng.choice(ts).data_type = rng.choice([9999, 0, -3, 77])
        elif kind == "bad_attr_type":
            attrs = [a for nl in nlists for n in nl for a in n.attribute]
            if not attrs:
                return None
            rng.choice(attrs).type = rng.choice([99, 0, 11, 12, 5, 10, 1, 13, 14])
        elif kind == "tensor_fields":
            ts = all_tensors(m)
            if not ts:
                return None
            t = rng.choice(ts)
            r = rng.random()
            if r < 0.3:
                t.dims.append(rng.choice([-1, 0, 7, 1 << 40]))
            elif r < 0.6:
                t.raw_data = b"\x00" * rng.choice([1, 3, 5])
            elif r < 0.8:
                t.float_data.extend([1.0, 2.0])
                t.int32_data.extend([3])
            else:
                del t.dims[:]
        elif kind == "external_absurd":
            ts = all_tensors(m)
            if not ts:
                return None
            t = rng.choice(ts)
            t.data_location = TP.EXTERNAL
            del t.external_data[:]
            for k, v in rng.choice(EXT_VARIANTS):
                e = t.external_data.add()
                e.key, e.value = k, v
        elif kind == "bad_utf8":
            attrs = [a for nl in nlists for n in nl for a in n.attribute]
            r = rng.random()
            if attrs and r < 0.6:
                a = rng.choice(attrs)
                if rng.random() < 0.5:
                    a.type, a.s = onnx.AttributeProto.STRING, b"\xff\xfe\x80"
                else:
                    a.type = onnx.AttributeProto.STRINGS
                    a.strings.extend([b"ok", b"\xc3\x28"])
            else:
                ts = [t for t in all_tensors(m) if t.data_type == TP.STRING]
                if not ts:
                    return None
                rng.choice(ts).string_data.append(b"\xff\xff")
        elif kind == "clear_type":
            tys = all_types(m)
            if not tys:
                return None
            rng.choice(tys).Clear()
        elif kind == "type_degenerate":
            # present-but-uninformative types: `type {}`, `type { tensor_type {} }`, explicit elem_type 0 (UNDEFINED)
            # with / without a shape; aimed at value_info entries of non-input initializers and of node outputs
            cands = []
            for g in graphs:
                ins = {i.name for i in g.input}
                inits = [t.name for t in g.initializer if t.name and t.name not in ins]
                vis = [vi for vi in g.value_info if vi.name in inits]
                if not vis and inits and rng.random() < 0.7:
                    vi = g.value_info.add()
                    vi.name = rng.choice(inits)
                    vi.type.tensor_type.elem_type = TP.FLOAT
                    vi.type.tensor_type.shape.dim.add().dim_value = 2
                    vis = [vi]
                cands.append((vis, [vi for vi in g.value_info if vi.name not in inits]))
            r = rng.random()
            pool = [vi for a, _ in cands for vi in a] if r < 0.45 else [vi for _, b in cands for vi in b] if r < 0.9 else []
            if pool:
                ty = rng.choice(pool).type
            else:
                tys = all_types(m)
                if not tys:
                    return None
                ty = rng.choice(tys)
            degenerate_type(ty, rng.randrange(6))
        elif kind == "fn_id_odd":
            # function identifiers the IR<10 "domain::function/value" naming scheme cannot carry: an overload, a
            # domain / name containing the separators, two overloads of one (domain, name); the function gets typed
            # values so that the scheme is used
            if not len(m.functions):
                return None
            f = rng.choice(m.functions)
            typed = [x for x in list(f.input) + [o for n in f.node for o in n.output] if x]
            if typed and not len(f.value_info):
                f.value_info.append(H.make_tensor_value_info(rng.choice(typed), TP.FLOAT, [2]))
            v = rng.randrange(6)
            if v == 0:
                f.overload = "ov"
            elif v == 1:
                f.domain = "custom::dom"
            elif v == 2:
                f.domain = "cust/dom"
            elif v == 3:
                f.name = f.name + "/x"
            elif v == 4:
                f.name = f.name + "::x"
            else:           # a second overload of the same (domain, name) with untyped values
                f2 = m.functions.add()
                f2.CopyFrom(f)
                f2.overload = "ov2"
                del f2.value_info[:]
            if rng.random() < 0.6:
                m.ir_version = rng.choice([9, 8, 3])
        elif kind == "device_cfg":
            # multi-device metadata (IR >= 11): model configurations + node configurations on nodes of any depth
            # (subgraphs, function bodies, subgraphs of function bodies), tensor names shadowed in the subgraph
            if not nlists:
                return None
            if rng.random() < 0.85:
                m.ir_version = rng.choice([11, 11, 13])
            names = []
            for nm, nd in rng.sample([("pp", 2), ("tp", 3), ("pp", 4)], rng.randrange(1, 3)):
                c = m.configuration.add()
                c.name, c.num_devices = nm, nd
                if rng.random() < 0.5:
                    c.device.extend([f"GPU:{i}" for i in range(nd)])
                names.append(nm)
            deep = [g for g in graphs[1:] if len(g.node)]
            for _ in range(rng.randrange(1, 4)):
                g = None
                if deep and rng.random() < 0.6:
                    g = rng.choice(deep)
                    nd_ = rng.choice(g.node)
                else:
                    nd_ = rng.choice(rng.choice(nlists))
                dc = nd_.device_configurations.add()
                dc.configuration_id = rng.choice(names + names + ["ghost", ""])
                if rng.random() < 0.4:
                    dc.pipeline_stage = rng.randrange(3)
                io = [x for x in list(nd_.input) + list(nd_.output) if x]
                for _k in range(rng.randrange(0, 3)):
                    sp = dc.sharding_spec.add()
                    sp.tensor_name = rng.choice(io + io + ["nope"]) if io else "nope"
                    sp.device.extend([0, 1])
                    sd = sp.sharded_dim.add()
                    sd.axis = rng.choice([0, 0, 1, -1])
                    ss = sd.simple_sharding.add()
                    ss.num_shards = 2
                    if rng.random() < 0.5:
                        ss.dim_value = 4
                    else:
                        ss.dim_param = "N"
                    if g is not None and sp.tensor_name in nd_.input and rng.random() < 0.6:
                        declared = {i.name for i in g.input} | {t.name for t in g.initializer} | {o for x in g.node for o in x.output}
                        if sp.tensor_name not in declared:      # re-declare the captured name inside the subgraph
                            g.input.append(H.make_tensor_value_info(sp.tensor_name, TP.FLOAT, [4, "N"]))
        elif kind == "fn_vi_both":
            # IR < 10: a function value typed BOTH by FunctionProto.value_info and by a main-graph entry
            # "domain::function/value" with a different type
            if not len(m.functions):
                return None
            f = rng.choice(m.functions)
            typed = [x for x in list(f.input) + [o for n in f.node for o in n.output] if x]
            if not typed:
                return None
            v = rng.choice(typed)
            if not any(vi.name == v for vi in f.value_info):
                f.value_info.append(H.make_tensor_value_info(v, TP.FLOAT, [2]))
            cn = f"{f.domain}::{f.name}/{v}"
            m.graph.value_info.append(H.make_tensor_value_info(cn, TP.INT64, [7, "K"]))
            if rng.random() < 0.7:      # ... which also is the name of a main-graph value (node output / initializer)
                if rng.random() < 0.5:
                    m.graph.node.append(H.make_node("Relu", [], [cn], name="composite"))
                else:
                    m.graph.initializer.append(H.make_tensor(cn, TP.INT64, [1], [3]))
            if rng.random() < 0.85:
                m.ir_version = rng.choice([9, 8])
        elif kind == "map_type":
            tys = all_types(m)
            if not tys:
                return None
            t = rng.choice(tys)
            t.Clear()
            t.map_type.key_type = TP.INT64
        elif kind == "seq_no_elem":
            tys = all_types(m)
            if not tys:
                return None
            t = rng.choice(tys)
            t.Clear()
            if rng.random() < 0.5:
                t.sequence_type.SetInParent()
            else:
                t.optional_type.elem_type.SetInParent()
        elif kind == "output_repeat" and nlists:
            n = rng.choice(rng.choice(nlists))
            outs = [o for o in n.output if o]
            if not outs:
                return None
            n.output.append(rng.choice(outs))
        elif kind == "output_like_input":
            g = rng.choice(graphs)
            srcs = [i.name for i in g.input] + [t.name for t in g.initializer]
            if not srcs or not len(g.node):
                return None
            n = rng.choice(g.node)
            if len(n.output):
                n.output[rng.randrange(len(n.output))] = rng.choice(srcs)
            else:
                n.output.append(rng.choice(srcs))
        elif kind == "move_node_inner":
            cands = [(g, n, a) for g in graphs for n in g.node for a in n.attribute if a.HasField("g")]
            if not cands:
                return None
            g, n, a = rng.choice(cands)
            others = [x for x in g.node if x is not n]
            if not others:
                return None
            x = rng.choice(others)
            a.g.node.add().CopyFrom(x)
            if rng.random() < 0.5:
                idx = list(g.node).index(x)
                del g.node[idx]
        elif kind == "dup_function":
            if not len(m.functions):
                return None
            m.functions.add().CopyFrom(rng.choice(m.functions))
        elif kind == "fn_output_unknown":
            if not len(m.functions):
                return None
            rng.choice(m.functions).output.append(rng.choice(["nope", ""]))
        elif kind == "attr_dup_name":
            ns = [n for nl in nlists for n in nl if len(n.attribute) >= 1]
            if not ns:
                return None
            n = rng.choice(ns)
            a = n.attribute.add()
            a.CopyFrom(n.attribute[0])
            if rng.random() < 0.5:
                a.ClearField("g")
                a.type, a.i = onnx.AttributeProto.INT, 7
        elif kind == "init_unnamed":
            gs = [g for g in graphs if len(g.initializer)]
            if not gs:
                return None
            rng.choice(rng.choice(gs).initializer).ClearField("name")
        elif kind == "vi_for_unknown":
            g = rng.choice(graphs)
            g.value_info.append(gen_vinfo(rng, rng.choice(["nope", "", "a", "zz9"])))
        elif kind == "graph_attr_ref":
            attrs = [a for nl in nlists for n in nl for a in n.attribute if a.HasField("g") or len(a.graphs)]
            if not attrs:
                return None
            rng.choice(attrs).ref_attr_name = rng.choice(["r", ""])
        elif kind == "swap_scopes":
            cands = [(g, a.g) for g in graphs for n in g.node for a in n.attribute if a.HasField("g")]
            if not cands:
                return None
            g, sg = rng.choice(cands)
            if len(g.input) and rng.random() < 0.5:
                sg.input.add().CopyFrom(rng.choice(g.input))       # inner input shadowing an outer value
            elif len(sg.node) and len(g.node):
                o = [o for n in g.node for o in n.output if o]
                if not o:
                    return None
                rng.choice(sg.node).output.append(rng.choice(o))   # inner output shadowing an outer value
            else:
                return None
        elif kind == "subgraph_output_outer":
            # a subgraph body whose output name is produced only in an enclosing graph (or is an outer input)
            cands = [(g, a.g) for g in graphs for n in g.node for a in n.attribute if a.HasField("g")]
            cands += [(g, sg) for g in graphs for n in g.node for a in n.attribute for sg in a.graphs]
            if not cands:
                return None
            g, sg = rng.choice(cands)
            inner = {o for n in sg.node for o in n.output} | {i.name for i in sg.input} | {t.name for t in sg.initializer}
            outer = [o for n in g.node for o in n.output if o and o not in inner]
            if rng.random() < 0.3:
                outer += [i.name for i in g.input if i.name and i.name not in inner]
            if not outer:
                return None
            k = rng.choice(outer)
            if len(sg.output) and rng.random() < 0.6:
                sg.output[rng.randrange(len(sg.output))].name = k
            else:
                sg.output.append(gen_vinfo(rng, k))
        elif kind == "name_field_absent":
            # the `name` field ABSENT (not merely empty) on inputs / outputs / value_info / initializers / nodes
            objs = [o for g in graphs for c in (g.input, g.output, g.value_info, g.initializer, g.node) for o in c]
            if not objs:
                return None
            for o in rng.sample(objs, min(len(objs), rng.randrange(1, 3))):
                o.ClearField("name")
            # ... and, often, an unnamed graph input next to a node output that carries the name a name
            # generator would pick for the first unnamed value
            gs = [g for g in graphs if len(g.input) and any(len(n.output) for n in g.node)]
            if gs and rng.random() < 0.6:
                g = rng.choice(gs)
                rng.choice(g.input).ClearField("name")
                n = rng.choice([n for n in g.node if len(n.output)])
                n.output[rng.randrange(len(n.output))] = rng.choice(["val_0", "val_0", "val_1"])
        elif kind == "generated_names":
            # names that look like the ones the library's NameAuthority generates
            pool = ["val_0", "val_1", "val_2", "node_Relu_0", "node_Add_1", "anonymous:1"]
            done = 0
            for _ in range(rng.randrange(1, 4)):
                if slots and rng.random() < 0.75:
                    rng.choice(slots)[1](rng.choice(pool[:3]))
                    done += 1
                elif nlists:
                    rng.choice(rng.choice(nlists)).name = rng.choice(pool[3:])
                    done += 1
            if not done:
                return None
        elif kind == "dangling_with_external":
            # a node that reads a dangling name AND a small initializer stored as external data (file exists)
            gs = [g for g in graphs if len(g.node)]
            if not gs:
                return None
            g = rng.choice(gs)
            ext = [t.name for t in g.initializer if t.data_location == TP.EXTERNAL and t.name]
            if not ext:
                t = onnx.TensorProto(name="wext", data_type=TP.FLOAT, dims=[2], data_location=TP.EXTERNAL)
                for k, v in (("location", rng.choice(["w.bin", "sub/w.bin"] + ([EXT_ABS] if EXT_ABS else []))),
                             ("offset", str(4 * rng.randrange(8))), ("length", "8")):
                    e = t.external_data.add()
                    e.key, e.value = k, v
                g.initializer.append(t)
                ext = ["wext"]
            n = rng.choice(g.node)
            n.input.append(rng.choice(ext))
            n.input.append(rng.choice(["dng", "nope", "zz9"]))
        elif kind == "ir_version_low":
            # ir_version 0 / absent (below every gate), with a model-local function carrying value_info
            if rng.random() < 0.5:
                m.ir_version = 0
            else:
                m.ClearField("ir_version")
            for f in m.functions:
                names = [x for x in f.input] + [o for n in f.node for o in n.output if o]
                if names and hasattr(f, "value_info"):
                    f.value_info.append(gen_vinfo(rng, rng.choice(names)))
        elif kind == "fn_attr_dup_graph":
            # FunctionProto.attribute_proto with a repeated name whose EARLIER entry is graph-valued and reads
            # names of the function's own values
            if not len(m.functions):
                return None
            f = rng.choice(m.functions)
            names = [x for x in f.input if x] + [o for n in f.node for o in n.output if o]
            if not names:
                return None
            body = H.make_graph([H.make_node("Relu", [rng.choice(names)], ["fa_t"], name="fa_n")], "fa_body", [], [])
            f.attribute_proto.append(H.make_attribute("fa", body))
            if rng.random() < 0.8:
                f.attribute_proto.append(H.make_attribute("fa", 7))
            else:
                f.attribute.append("fa")
        elif kind == "dim_param_expr":
            # a dim_param whose text is a constant arithmetic expression must be kept as given
            tys = [t for t in all_types(m) if t.HasField("tensor_type")]
            if not tys:
                return None
            t = rng.choice(tys)
            d = t.tensor_type.shape.dim.add() if (not len(t.tensor_type.shape.dim) or rng.random() < 0.5) \
                else rng.choice(t.tensor_type.shape.dim)
            d.dim_param = rng.choice(["2*4", "3", "1+1", "2**3", "2**3**2", "(1+2)*4", "10//3", "7-7", "-1", "N*2", "0"])
        elif kind == "dup_init":
            gs = [g for g in graphs if len(g.initializer)]
            if not gs:
                return None
            g = rng.choice(gs)
            t = g.initializer.add()
            t.CopyFrom(rng.choice(g.initializer))
            t.raw_data = b"\x01\x02\x03\x04"
            if rng.random() < 0.3:
                t.data_type = rng.choice([9999, 77])      # the repeated tensor has an unreadable dtype
        else:
            return None
    except (ValueError, TypeError, IndexError):
        return None
    return kind


def byte_mutate(m, rng):
    """Byte-level mutation; returns a parsed ModelProto or None when protobuf rejects the bytes."""
    onnx, _, _ = _onnx()
    b = bytearray(m.SerializeToString())
    if not b:
        return None
    for _ in range(rng.randrange(1, 4)):
        r = rng.random()
        i = rng.randrange(len(b))
        if r < 0.4:
            b[i] = rng.randrange(256)
        elif r < 0.6:
            b[i] ^= 1 << rng.randrange(8)
        elif r < 0.8:
            del b[i]
            if not b:
                return None
        else:
            b.insert(i, rng.randrange(256))
    try:
        p = onnx.ModelProto()
        p.ParseFromString(bytes(b))
        return p
    except Exception:  # noqa: BLE001  (DecodeError and friends)
        return None


def gen_random_model(rng):
    """A proto built from unconstrained random choices (no validity at all)."""
    onnx, H, TP = _onnx()
    pool = ["", "a", "b", "c", "d"]

    def rgraph(depth):
        g = onnx.GraphProto()
        if rng.random() < 0.7:
            g.name = rng.choice(["g", ""])
        for _ in range(rng.randrange(0, 3)):
            g.input.append(gen_vinfo(rng, rng.choice(pool)))
        for _ in range(rng.randrange(0, 3)):
            g.initializer.append(gen_tensor(rng, rng.choice(pool)))
        for _ in range(rng.randrange(0, 3)):
            g.value_info.append(gen_vinfo(rng, rng.choice(pool)))
        for _ in range(rng.randrange(0, 4)):
            n = g.node.add()
            n.op_type = rng.choice(["A", "B"])
            n.input.extend(rng.choice(pool) for _ in range(rng.randrange(0, 3)))
            n.output.extend(rng.choice(pool + ["e", "f", "g", "h"]) for _ in range(rng.randrange(0, 3)))
            if depth < 2 and rng.random() < 0.35:
                n.attribute.append(H.make_attribute(rng.choice(["body", "b2"]), rgraph(depth + 1)))
        for _ in range(rng.randrange(0, 3)):
            g.output.append(gen_vinfo(rng, rng.choice(pool + ["e", "f"])))
        return g
    m = onnx.ModelProto(ir_version=rng.choice([10, 11, 3]))
    m.graph.CopyFrom(rgraph(0))
    return m


def gen_case(rng) -> tuple:
    """(ModelProto, description list)"""
    r = rng.random()
    if r < 0.08:
        return gen_random_model(rng), ["random"]
    m = gen_model(rng)
    if r < 0.2:
        return m, ["valid"]
    desc = []
    if r < 0.32:
        p = byte_mutate(m, rng)
        if p is not None:
            return p, ["bytes"]
        desc.append("bytes-rejected")
    for _ in range(rng.randrange(1, 6)):
        k = mutate(m, rng)
        if k:
            desc.append(k)
    return m, desc or ["valid"]


# --------------------------------------------------------------------------- file access tracing

_TRACE = {"on": False, "events": []}
_HOOKED = False
_IGNORED_PREFIXES: tuple = ()


def _path_ignored(p) -> bool:
    try:
        s = os.fspath(p) if not isinstance(p, int) else ""
    except TypeError:
        return False
    if isinstance(s, bytes):
        s = s.decode("utf-8", "replace")
    return bool(s) and s.startswith(_IGNORED_PREFIXES)


def _audit(event, args):
    if not _TRACE["on"]:
        return
    if event == "open" or event.startswith("os.") or event.startswith("mmap") or event.startswith("shutil") \
            or event.startswith("pathlib") or event.startswith("glob"):
        if args and _path_ignored(args[0]):
            return
        _TRACE["events"].append((event, repr(args[:1])[:120]))


def install_trace():
    global _HOOKED, _IGNORED_PREFIXES
    if _HOOKED:
        return
    _HOOKED = True
    pref = {sys.prefix, sys.base_prefix, os.path.join(REPO, "src"), "/venv", "/usr/lib/python", "/usr/local/lib/python"}
    pref |= {p for p in sys.path if p and os.path.isabs(p) and p != common.VERIF}
    _IGNORED_PREFIXES = tuple(sorted(pref))
    sys.addaudithook(_audit)


class traced:
    """Context manager: record file-system access (audit events + os.stat/os.lstat/os.open rebinding)."""

    def __enter__(self):
        install_trace()
        self.saved = {k: getattr(os, k) for k in ("stat", "lstat", "open")}
        for k, f in self.saved.items():
            def wrap(*a, _k=k, _f=f, **kw):
                if _TRACE["on"] and not (a and _path_ignored(a[0])):
                    _TRACE["events"].append(("os." + _k, repr(a[:1])[:120]))
                return _f(*a, **kw)
            setattr(os, k, wrap)
        _TRACE["events"] = []
        _TRACE["on"] = True
        return self

    def __exit__(self, *exc):
        _TRACE["on"] = False
        for k, f in self.saved.items():
            setattr(os, k, f)
        self.events = list(_TRACE["events"])
        return False


# --------------------------------------------------------------------------- oracle (the property itself)


def collect_objects(model):
    """Graphs/nodes/values reachable through public accessors, plus consumer nodes found via uses()."""
    w = S.IRWalk(model)
    nodes = list(w.nodes)
    seen = {id(n) for n in nodes}
    extra_values = []
    vseen = {id(v) for v in w.values}
    work = list(w.values)
    while work:
        v = work.pop()
        for u in v.uses():
            if id(u.node) not in seen:
                seen.add(id(u.node))
                nodes.append(u.node)
                for x in list(u.node.inputs) + list(u.node.outputs):
                    if x is not None and id(x) not in vseen:
                        vseen.add(id(x))
                        extra_values.append(x)
                        work.append(x)
        p = v.producer()
        if p is not None and id(p) not in seen:
            seen.add(id(p))
            nodes.append(p)
    return w, nodes, w.values + extra_values


def oracle_invariants(model) -> list[str]:
    """C01's I1-I7 on the returned IR, through public accessors only."""
    bad = []
    w, nodes, values = collect_objects(model)
    for v in values:
        uses = list(v.uses())
        if len({(id(u.node), u.idx) for u in uses}) != len(uses):
            bad.append(f"I1: duplicated use of value {v.name!r}")
        for u in uses:
            ins = u.node.inputs
            if not (0 <= u.idx < len(ins)) or ins[u.idx] is not v:
                bad.append(f"I1: value {v.name!r} lists a use ({u.node.name!r},{u.idx}) that is not an input slot holding it")
        p = v.producer()
        if p is not None:
            outs = p.outputs
            if v.index() is None or not (0 <= v.index() < len(outs)) or outs[v.index()] is not v:
                bad.append(f"I2: value {v.name!r} claims producer {p.name!r} index {v.index()} but is not that output")
        if p is not None and p.graph is not None and v.graph is not None and v.graph is not p.graph:
            bad.append(f"I2/I4: value {v.name!r} is owned by graph {v.graph.name!r} but its producer {p.name!r} "
                       f"lives in graph {p.graph.name!r}")
        if v.is_graph_input():
            if v.graph is None or not any(x is v for x in v.graph.inputs):
                bad.append(f"I4: value {v.name!r} is flagged graph input but is not in its graph's inputs")
        if v.is_graph_output():
            g = v._graph  # noqa: SLF001 -- only to locate the list to look in; public `graph` may be the producer's
            gg = g if g is not None else v.graph
            if gg is None or not any(x is v for x in gg.outputs):
                bad.append(f"I4: value {v.name!r} is flagged graph output but is not in its graph's outputs")
        if v.is_initializer():
            if v.graph is None or v.graph.initializers.get(v.name) is not v:
                bad.append(f"I5: value {v.name!r} is flagged initializer but is not registered under its name")
        if p is None:
            flagged = v.is_graph_input() or v.is_graph_output() or v.is_initializer()
            if (v.graph is None) != (not flagged):
                bad.append(f"I7: value {v.name!r} owner graph {'unset' if v.graph is None else 'set'} but flags={flagged}")
    # everything a value of the model is linked to must be part of the model
    for v in w.values:
        for u in v.uses():
            if id(u.node) not in w.ni:
                bad.append(f"I1x: value {v.name!r} is used by node {u.node.name!r} ({u.node.op_type}) that is in no graph of the model")
        p = v.producer()
        if p is not None and id(p) not in w.ni:
            bad.append(f"I2x: value {v.name!r} is produced by node {p.name!r} ({p.op_type}) that is in no graph of the model")
    for n in nodes:
        for i, v in enumerate(n.inputs):
            if v is not None and not any(u.node is n and u.idx == i for u in v.uses()):
                bad.append(f"I1: node {n.name!r} input {i} ({v.name!r}) is not recorded in the value's uses")
        outs = list(n.outputs)
        for i, v in enumerate(outs):
            if v.producer() is not n or v.index() != i:
                bad.append(f"I2: node {n.name!r} output {i} ({v.name!r}) has producer/index "
                           f"{getattr(v.producer(), 'name', None)!r}/{v.index()}")
    for g in w.graphs:
        members = list(g)
        if len({id(n) for n in members}) != len(members):
            bad.append(f"I3: graph {g.name!r} lists a node twice")
        for n in members:
            if n.graph is not g:
                bad.append(f"I3: node {n.name!r} is in graph {g.name!r} but node.graph is not that graph")
        for v in g.inputs:
            if not v.is_graph_input() or v.graph is not g:
                bad.append(f"I4: input {v.name!r} of graph {g.name!r} is not flagged/owned")
            if v.producer() is not None:
                bad.append(f"I6: graph input {v.name!r} has a producer")
        for v in g.outputs:
            own = v._graph if v._graph is not None else v.graph  # noqa: SLF001
            if not v.is_graph_output() or own is not g:
                bad.append(f"I4: output {v.name!r} of graph {g.name!r} is not flagged/owned")
        for k, v in g.initializers.items():
            if v.name != k or not v.is_initializer() or v.graph is not g:
                bad.append(f"I5: initializer {k!r} of graph {g.name!r} is not keyed by name/flagged/owned")
            if v.producer() is not None:
                bad.append(f"I6: initializer {k!r} has a producer")
    for n in nodes:
        if n.graph is not None and not any(x is n for x in n.graph):
            bad.append(f"I3: node {n.name!r} names a graph that does not contain it")
    return bad


def oracle_devices(model) -> list[str]:
    """Multi-device part of "consistent IR" (identity level, what onnx_ir._multi_device._check_device_configurations
    calls reachability): D1 a node configuration whose name is registered on the model IS the registered object;
    D2 a sharding spec whose tensor name is the name of an input/output of its node refers to THAT Value object."""
    bad = []
    known = {c.name: c for c in model.device_configurations}
    for n in S.IRWalk(model).nodes:
        cfgs = getattr(n, "device_configurations", None) or ()
        io = [v for v in list(n.inputs) + list(n.outputs) if v is not None]
        for c in cfgs:
            mc = c.configuration
            if mc is not None and mc.name in known and mc is not known[mc.name]:
                bad.append(f"D1: node {n.name!r} ({n.op_type}) holds a configuration object named {mc.name!r} "
                           f"(num_devices={mc.num_devices}) that is not the one registered on the model")
            for sp in c.sharding_specs:
                v = sp.value
                if v is None or not v.name:
                    continue
                same = [x for x in io if x.name == v.name]
                if same and not any(x is v for x in same):
                    bad.append(f"D2: node {n.name!r} ({n.op_type}) shards {v.name!r}: the spec's Value object is not "
                               f"the node's own input/output of that name")
    return bad[:4]


def _shape_of_type(tp):
    """The TensorShapeProto a TypeProto carries (through sequence/optional nesting), or None."""
    if tp.HasField("tensor_type"):
        return tp.tensor_type.shape if tp.tensor_type.HasField("shape") else None
    if tp.HasField("sparse_tensor_type"):
        return tp.sparse_tensor_type.shape if tp.sparse_tensor_type.HasField("shape") else None
    if tp.HasField("sequence_type") and tp.sequence_type.HasField("elem_type"):
        return _shape_of_type(tp.sequence_type.elem_type)
    if tp.HasField("optional_type") and tp.optional_type.HasField("elem_type"):
        return _shape_of_type(tp.optional_type.elem_type)
    return None


def oracle_leaf_dims(proto) -> list[str]:
    """Deserialization keeps every dimension as given: dim_value -> that int, dim_param -> a symbolic dimension
    with exactly that text, neither -> unknown (independent reading of the proto vs the library's leaf reader)."""
    from onnx_ir import serde
    bad = []
    types = list(all_types(proto))
    for f in proto.functions:
        types += [vi.type for vi in getattr(f, "value_info", [])]
    for tp in types:
        sp = _shape_of_type(tp)
        if sp is None:
            continue
        try:
            shape = serde.deserialize_tensor_shape(sp)
        except Exception:  # noqa: BLE001
            continue
        if len(shape) != len(sp.dim):
            bad.append(f"leaf: a shape with {len(sp.dim)} dims is read as rank {len(shape)}")
            continue
        for d, got in zip(sp.dim, shape):
            which = d.WhichOneof("value")
            want = d.dim_value if which == "dim_value" else ("sym", d.dim_param if which == "dim_param" else None)
            have = got if isinstance(got, int) else ("sym", got.value)
            if isinstance(have, tuple) and isinstance(have[1], bytes) or isinstance(want, tuple) and isinstance(want[1], bytes):
                continue
            if want != have:
                bad.append(f"leaf: dimension {want!r} of the proto is read as {have!r}")
    return bad


def model_tensors(model):
    import onnx_ir as ir
    w = S.IRWalk(model)
    ts = []
    for v in w.values:
        if v.const_value is not None:
            ts.append(v.const_value)
    for n in w.nodes:
        for a in n.attributes.values():
            if a.is_ref():
                continue
            if a.type == ir.AttributeType.TENSOR:
                ts.append(a.value)
            elif a.type == ir.AttributeType.TENSORS:
                ts += list(a.value)
    return ts


def run_impl(proto) -> dict:
    """Run from_proto / to_proto on (a copy of) the proto; returns outcome + oracle verdicts + objects."""
    import onnx_ir as ir
    p = copy.deepcopy(proto)
    res = {"outcome": "ok", "oracle": [], "model": None, "reser": None}
    with traced() as tr:
        try:
            model = ir.from_proto(p)
        except RecursionError:
            res["outcome"] = "raise"
            res["exn"] = "RecursionError"
            model = None
        except Exception as e:  # noqa: BLE001
            res["outcome"] = "raise"
            res["exn"] = type(e.__cause__ or e).__name__
            model = None
    if tr.events:
        res["oracle"].append(f"file access during from_proto: {tr.events[:3]}")
    if model is None:
        return res
    res["model"] = model
    with traced() as tr:
        try:
            for t in model_tensors(model):
                _ = (t.name, t.dtype, t.shape, t.size)
        except Exception as e:  # noqa: BLE001
            res["inspect_raised"] = type(e).__name__     # not a file access; recorded only
    if tr.events:
        res["oracle"].append(f"file access during tensor inspection: {tr.events[:3]}")
    res["oracle"] += oracle_invariants(model)
    try:
        res["oracle"] += oracle_devices(model)
    except Exception as e:  # noqa: BLE001
        res["oracle"].append(f"harness error in oracle_devices: {type(e).__name__}: {e}")
    res["oracle"] += oracle_leaf_dims(proto)[:3]
    try:
        q = ir.to_proto(model)
    except Exception as e:  # noqa: BLE001
        res["reser"] = ("raise", type(e.__cause__ or e).__name__)
        return res
    res["reser"] = ("ok", q)
    try:
        m2 = ir.from_proto(copy.deepcopy(q))
        q2 = ir.to_proto(m2)
        if q2 != q:
            res["oracle"].append("fixpoint: to_proto(from_proto(q)) differs from q = to_proto(from_proto(p))")
    except Exception as e:  # noqa: BLE001
        res["oracle"].append(f"fixpoint: the re-serialized proto does not deserialize/serialize again: "
                             f"{type(e.__cause__ or e).__name__}: {e.__cause__ or e}"[:300])
    return res


# --------------------------------------------------------------------------- correspondence


def case_term(proto, res) -> tuple:
    """(coq term for the case, unmodelled reasons)"""
    it = S.Interner()
    pc = S.ProtoConv(it)
    pterm = pc.model(proto)
    if res["outcome"] == "raise":
        obs = "None"
        reser = "(Some None)"
    else:
        obs = f"(Some {S.ir_obs(res['model'], it)})"
        if res["reser"][0] == "ok":
            reser = f"(Some (Some {pc.model(res['reser'][1])}))"
        else:
            reser = "(Some None)"
        if it.nonstr:
            reser = "None"      # names that are not valid str: the leaf serializer rejects them (not modelled)
    fix_ok = not any(m.startswith("fixpoint") for m in res["oracle"])
    unm = list(pc.unmodelled) + (["payload normalisation failed"] if it.norm_failed else [])
    if any(a.type in (10, 5) or a.HasField("g") or len(a.graphs) for f in proto.functions for a in f.attribute_proto):
        unm.append("graph-valued function attribute default")
    old = proto.ir_version < 10 and len(proto.functions) > 0      # IR<10 experimental function value-info (ModelOld.v)
    qproto = res["reser"][1] if (res["outcome"] != "raise" and res["reser"] and res["reser"][0] == "ok") else None
    xs, ys = S.exp_tables(it, protos=[proto, qproto], models=[res.get("model")]) if old else ("[]", "[]")
    return (f"({common.cbool(old)}, {xs}, {ys}, {it.norm_table()}, {pterm}, {obs}, {reser}, {common.cbool(fix_ok)})"), unm


def _parse_lists(out: str) -> list:
    lists = []
    for m in re.finditer(r"=\s*(\[[^\]]*\]|nil)\s*:\s*list nat", out):
        body = m.group(1)
        lists.append([] if body == "nil" else [int(x) for x in re.findall(r"\d+", body)])
    return lists


def correspondence(ck, terms: list, tag: str) -> tuple:
    """Indices (into terms) where the model disagrees on (deser outcome/structure, re-serialization, model fixpoint)."""
    files = []
    chunk = 150
    for i in range(0, len(terms), chunk):
        text = S.CASE_HEADER + "From IRV Require Import C03.Tree C03.TreeF C03.PayFixDefs C17.Tree2 C17.PUnfold C17.Fix2Defs.\n" + (
            "Definition cases : list (bool * xparse * xcomp * list (N * N) * mproto * option obs * option (option mproto) * bool) :=\n  "
            + "[" + ";\n  ".join(terms[i:i + chunk]) + "].\n"
            "Eval vm_compute in (failing (fun c => let '(old, X, Y, np, p, o, r, f) := c in agree_deser_x old X p o) cases).\n"
            "Eval vm_compute in (failing (fun c => let '(old, X, Y, np, p, o, r, f) := c in agree_reser_x old X Y np p r) cases).\n"
            "Eval vm_compute in (failing (fun c => let '(old, X, Y, np, p, o, r, f) := c in\n"
            "   match r with Some (Some _) => Bool.eqb (model_fixpoint_x old X Y np p) f | _ => true end) cases).\n"
            "Eval vm_compute in (failing (fun c => let '(old, X, Y, np, p, o, r, f) := c in\n"
            "   match deser_model_x old X p with Ok (h, _) => inv_b h | Raise _ => true end) cases).\n"
            # the component statements of the unconditional fixpoint theorem (IR >= 10 semantics), on this proto
            "Eval vm_compute in (failing (fun c => let '(old, X, Y, np, p, o, r, f) := c in old || fix2_statement_b np p) cases).\n"
            "Eval vm_compute in (failing (fun c => let '(old, X, Y, np, p, o, r, f) := c in\n"
            "   old || (np_ok np && np_idem np && forallb (fun b => b) (w2_parts np p))) cases).\n")
        files.append((f"{tag}_{i // chunk}", text))
    outs = ck.coq_eval_many(files)
    bad_d, bad_r, bad_f, bad_i, bad_s, bad_w = [], [], [], [], [], []
    for k, (rc, out) in enumerate(outs):
        if rc != 0:
            raise RuntimeError(f"case file {files[k][0]} did not compile:\n{out[-3000:]}")
        ls = _parse_lists(out)
        if len(ls) != 6:
            raise RuntimeError("unexpected coq output:\n" + out[-2000:])
        bad_d += [k * chunk + j for j in ls[0]]
        bad_r += [k * chunk + j for j in ls[1]]
        bad_f += [k * chunk + j for j in ls[2]]
        bad_i += [k * chunk + j for j in ls[3]]
        bad_s += [k * chunk + j for j in ls[4]]
        bad_w += [k * chunk + j for j in ls[5]]
    return bad_d, bad_r, bad_f, bad_i, bad_s, bad_w


# --------------------------------------------------------------------------- sequences of calls (order independence)


def gen_sequence(rng) -> tuple:
    """(A, B): A fails half-way through its main graph (an attribute the deserializer does not support on its
    last node), B reads, as a dangling name, a name that A declares."""
    onnx, H, TP = _onnx()
    a = gen_model(rng)
    declared = [o for n in a.graph.node for o in n.output if o] + [i.name for i in a.graph.input if i.name]
    if not declared:
        declared = ["zseq"]
        a.graph.node.append(H.make_node("Relu", [], ["zseq"], name="seq_decl"))
    bad = H.make_node("Custom", [rng.choice(declared)], ["seq_q"], name="seq_bad")
    at = bad.attribute.add()
    at.name, at.type = "weird", rng.choice([onnx.AttributeProto.SPARSE_TENSOR, onnx.AttributeProto.SPARSE_TENSORS])
    a.graph.node.append(bad)
    b = gen_model(rng)
    own = {o for g in all_graphs(b) for n in g.node for o in n.output} | {i.name for g in all_graphs(b) for i in g.input} \
        | {t.name for g in all_graphs(b) for t in g.initializer}
    cands = [k for k in declared if k not in own] or ["zseq2"]
    k = rng.choice(cands)
    if k == "zseq2":
        a.graph.node.insert(0, H.make_node("Relu", [], ["zseq2"], name="seq_decl2"))
    g = rng.choice(all_graphs(b))
    g.node.append(H.make_node("Add", [k, k], ["seq_out"], name="seq_use"))
    return a, b


def run_sequence(a, b) -> list[str]:
    """from_proto(B) must give the same IR before and after a from_proto(A) that raises."""
    import onnx_ir as ir

    def obs(p):
        try:
            m = ir.from_proto(copy.deepcopy(p))
        except Exception as e:  # noqa: BLE001
            return "raise:" + type(e.__cause__ or e).__name__, []
        return S.ir_obs(m, S.Interner()), oracle_invariants(m)
    o1, inv1 = obs(b)
    try:
        ir.from_proto(copy.deepcopy(a))
        first = "returned"
    except Exception:  # noqa: BLE001
        first = "raised"
    o2, inv2 = obs(b)
    bad = []
    if o1 != o2:
        bad.append(f"sequence: from_proto(B) differs after a from_proto(A) that {first} (order dependence)")
    bad += [f"sequence: after A {first}: " + m for m in inv2 if m not in inv1]
    return bad


def sequence_check(ck) -> None:
    n = 40 if not ck.thorough else 600
    reported = False
    for _ in range(n):
        a, b = gen_sequence(ck.rng)
        msgs = run_sequence(a, b)
        ck.count()
        ck.hist("sequences", "ok" if not msgs else "order-dependent")
        if msgs and not reported:
            reported = True
            ck.violation({"kind": "sequence", "first_b64": proto_b64(a), "second_b64": proto_b64(b),
                          "first": describe(a)[:1500], "second": describe(b)[:1500], "failures": msgs[:5]})


# --------------------------------------------------------------------------- shrinking / search


def proto_b64(p) -> str:
    import base64
    return base64.b64encode(p.SerializeToString()).decode()


def proto_from_b64(s):
    import base64
    onnx, _, _ = _onnx()
    p = onnx.ModelProto()
    p.ParseFromString(base64.b64decode(s))
    return p


def oracle_fails(p) -> list[str]:
    try:
        return run_impl(p)["oracle"]
    except Exception as e:  # noqa: BLE001
        return [f"harness error {type(e).__name__}: {e}"]


def shrink(p, fails) -> object:
    """Greedy structural shrinking: drop nodes / inputs / outputs / initializers / value_info / functions /
    attributes while `fails(p)` stays true."""
    cur = copy.deepcopy(p)
    changed = True
    rounds = 0
    while changed and rounds < 30:
        changed = False
        rounds += 1
        # functions
        for i in range(len(cur.functions)):
            c = copy.deepcopy(cur)
            del c.functions[i]
            if fails(c):
                cur, changed = c, True
                break
        if changed:
            continue
        gs = all_graphs(cur)
        for gi in range(len(gs)):
            for field in ("node", "input", "output", "initializer", "value_info"):
                n = len(getattr(all_graphs(cur)[gi], field))
                for i in range(n):
                    c = copy.deepcopy(cur)
                    del getattr(all_graphs(c)[gi], field)[i]
                    if fails(c):
                        cur, changed = c, True
                        break
                if changed:
                    break
            if changed:
                break
        if changed:
            continue
        nls = all_node_lists(cur)
        for li in range(len(nls)):
            for ni in range(len(nls[li])):
                for field in ("attribute", "input", "output"):
                    for i in range(len(getattr(nls[li][ni], field))):
                        c = copy.deepcopy(cur)
                        del getattr(all_node_lists(c)[li][ni], field)[i]
                        if fails(c):
                            cur, changed = c, True
                            break
                    if changed:
                        break
                if changed:
                    break
            if changed:
                break
    return cur


def describe(p) -> str:
    onnx, _, _ = _onnx()
    try:
        return onnx.printer.to_text(p)[:3000]
    except Exception:  # noqa: BLE001
        return str(p)[:3000]


def failure_site(msgs: list[str]) -> str:
    """Coarse site of an oracle failure (first token of the first message)."""
    return msgs[0].split(":")[0] if msgs else ""


# --------------------------------------------------------------------------- main


def load_corpus() -> list:
    out = []
    d = os.path.join(common.CORPUS, "C17")
    if os.path.isdir(d):
        for fn in sorted(os.listdir(d)):
            if fn.endswith(".json"):
                with open(os.path.join(d, fn)) as f:
                    out.append((fn, json.load(f)))
    return out


def run(ck) -> None:
    global EXT_ABS
    default_level_logging()
    ext_root = os.path.join(ck.scratch, "ext")
    EXT_ABS = make_external_files(ext_root)
    old_cwd = os.getcwd()
    os.chdir(ext_root)          # relative external-data locations (w.bin, sub/w.bin) EXIST: a read would succeed
    try:
        _run(ck)
    finally:
        os.chdir(old_cwd)


def _run(ck) -> None:
    ck.trust("Coq 8.16.1 kernel (coqc; vm_compute in case files)",
             "harness/props/c03.py part 1 + c17.py (generators, proto->term / IR->observation converters, oracle)",
             "leaf payloads are tokens computed by the library's own leaf (de)serializers (tensor, type/shape, "
             "plain attribute, metadata): modelled, not verified here (C02/C04)",
             "protobuf parsing/equality; sys.addaudithook coverage of file-system entry points",
             "modelled not verified: Python recursion limit (deser_model is structurally recursive, no depth bound); "
             "quantization annotations, content of device configurations (opaque part of tokens), metadata merge; "
             "IR<10 function value-info format: structure modelled (C03/ModelOld.v), its two name operations "
             "(parse / compose of \"domain::function/value\") are per-case tables computed by the library")
    ck.assumptions += ["onnx/protobuf as installed in /venv", "CPython audit events cover open/os.*/mmap"]
    ck.notes.append("C17_ser_fixpoint is not proved: evaluated per case in Coq (Canon.model_fixpoint) and compared "
                    "with the implementation; C17_consistent / C17_deser_total are proved for all protos")
    ck.coverage["rule"] = ("non-trivial = proto with a structural defect (mutated/random) that the deserializer "
                           "accepts, or a nested scope / placeholder / redeclaration path")
    ck.prove("C17")
    # order independence first, while this process has not seen a failing from_proto yet
    run_impl(gen_model(__import__("random").Random(1)))
    sequence_check(ck)
    n_cases = 500 if not ck.thorough else 12000
    cases = []          # (proto, desc, res)
    for fn, c in load_corpus():
        cases.append((proto_from_b64(c["proto_b64"]), ["corpus:" + fn], None))
    for p, desc in directed_cases():
        cases.append((p, desc, None))
    for _ in range(n_cases):
        p, desc = gen_case(ck.rng)
        cases.append((p, desc, None))
    # warm-up outside the trace (lazy imports)
    run_impl(gen_model(__import__("random").Random(1)))
    terms, term_idx = [], []
    oracle_failures = []
    for i, (p, desc, _) in enumerate(cases):
        res = run_impl(p)
        cases[i] = (p, desc, res)
        ck.count()
        ck.hist("outcomes", res["outcome"] + ("" if res["reser"] is None else "/reser-" + res["reser"][0]))
        if res["outcome"] == "raise":
            ck.hist("exceptions", res.get("exn", "?"))
        for d in desc:
            ck.hist("mutations", d.split(":")[0])
        if res["oracle"]:
            oracle_failures.append((p, desc, res["oracle"], i))
        try:
            term, unm = case_term(p, res)
        except Exception as e:  # noqa: BLE001
            term, unm = None, [f"converter: {type(e).__name__}: {e}"[:100]]
        if unm:
            for u in unm:
                ck.hist("unmodelled", u.split(":")[0])
            continue
        terms.append(term)
        term_idx.append(i)
        if desc not in (["valid"],) and res["outcome"] == "ok":
            ck.nontriv(("accepted-defective", proto_b64(p)))
        if i < 400 and len(ck.coverage["samples"]) < 4 and desc != ["valid"] and res["outcome"] == "ok" and len(p.graph.node) <= 3:
            ck.sample({"mutations": desc, "proto": describe(p)[:600], "outcome": res["outcome"],
                       "reser": res["reser"][0] if res["reser"] else None})
    ck.coverage["traces_validated_against_impl"] = len(terms)
    try:
        bad_d, bad_r, bad_f, bad_i, bad_s, bad_w = correspondence(ck, terms, "c17")
    except RuntimeError as e:
        bad_d, bad_r, bad_f, bad_i, bad_s, bad_w = [], [], [], [], [], []
        ck.broken("correspondence:case-files", str(e))
    diverging = []
    # inv_b on the model's own result: must hold by C17_consistent; a failure means Inv.inv_b and Inv drifted apart
    for kind, lst in (("deser", bad_d), ("reser", bad_r), ("model-fixpoint", bad_f), ("model-inv_b", bad_i),
                      ("fix2-statement", bad_s), ("punfold-statements", bad_w)):
        for j in lst[:3]:
            p, desc, res = cases[term_idx[j]]
            diverging.append(p)
            ck.broken(f"correspondence:{kind}", json.dumps({
                "mutations": desc, "impl_outcome": res["outcome"], "impl_exn": res.get("exn"),
                "proto_b64": proto_b64(p), "proto": describe(p)[:1500]}))
    # known findings
    replay_known(ck)
    reported = set()
    # A known finding is a defect of the UNCHANGED code, which the Coq model reproduces (model_fixpoint_x is false on
    # its witnesses as well).  A failing case on which the implementation and the model DISAGREE (deser / reser /
    # fixpoint) is therefore never attributed to a known finding, whatever the repair does.
    disagree = {term_idx[j] for lst in (bad_d, bad_r, bad_f) for j in lst}
    for p, desc, msgs, ci in oracle_failures:
        key = None if ci in disagree else known_key(ck, msgs, p)
        if key:
            ck.known_finding(key, next(k["what"] for k in ck._known if k["key"] == key))
            continue
        site = failure_site(msgs)
        if site in reported:
            continue
        reported.add(site)
        small = shrink(p, lambda c, s=site: any(failure_site([m]) == s for m in oracle_fails(c)))
        ck.violation({"kind": "oracle", "mutations": desc, "ext_abs": EXT_ABS, "proto_b64": proto_b64(small),
                      "proto": describe(small), "failures": oracle_fails(small)[:5], "broken": ck.broken_items[:3]})
    if ck.broken_items and not ck.violations:
        search(ck, diverging)


def vinfo_is_empty(vi) -> bool:
    from onnx_ir import serde
    try:
        return S.payload_key(serde.deserialize_type_proto_for_type(vi.type), serde.deserialize_type_proto_for_shape(vi.type),
                             serde.deserialize_metadata_props(vi.metadata_props),
                             vi.doc_string if vi.HasField("doc_string") else None) is None
    except Exception:  # noqa: BLE001
        return False


def _repair_name_collision(q) -> bool:
    # experimental-function-value-info-name-collision: value names of the form "<domain>::<function>/<value>"
    changed = False
    if q.ir_version < 10 and len(q.functions):
        for get, put in name_slots(q):
            k = get()
            if isinstance(k, str) and "::" in k and "/" in k:
                put(k.replace("::", "__"))
                changed = True
    if q.ir_version < 10:
        # since 348a4f1 the reader matches by prefix "{domain}::{name}/" for any overload: two functions sharing
        # (domain, name) with different overloads, or qualified prefixes made ambiguous by separators inside the
        # domain / name, give one composite name to two values as well
        seen = {}
        for f in q.functions:
            for fld in ("domain", "name"):
                k = getattr(f, fld)
                if "::" in k or "/" in k:
                    setattr(f, fld, k.replace("::", "__").replace("/", "_"))
                    changed = True
            key = (f.domain, f.name)
            if key in seen and seen[key] != f.overload:
                f.name = f"{f.name}__{len(seen)}"
                changed = True
            seen.setdefault((f.domain, f.name), f.overload)
    return changed


def _repair_fn_id(q) -> bool:
    # experimental-function-value-info-function-id: function identifiers the "<domain>::<function>/<value>" names
    # cannot carry (overload, separators inside domain / name)
    changed = False
    if q.ir_version < 10:
        for f in q.functions:
            if f.overload:
                f.ClearField("overload")
                changed = True
            for fld in ("domain", "name"):
                k = getattr(f, fld)
                if "::" in k or "/" in k:
                    setattr(f, fld, k.replace("::", "__").replace("/", "_"))
                    changed = True
    return changed


def _repair_dup_initializer(q) -> bool:
    # reser-duplicate-initializer-bad-dtype: keep only the LAST initializer of every repeated name
    changed = False
    for g in all_graphs(q):
        names = [t.name for t in g.initializer]
        if len(set(names)) != len(names):
            last = {n: i for i, n in enumerate(names)}
            keep = [copy.deepcopy(t) for i, t in enumerate(g.initializer) if last[t.name] == i]
            del g.initializer[:]
            g.initializer.extend(keep)
            changed = True
    return changed


def _repair_dup_attribute(q) -> bool:
    # ghost-consumers-of-dropped-duplicate-attribute: keep only the LAST attribute of a repeated name
    changed = False
    again = True
    while again:                      # node lists are re-collected after every edit (edits replace sub-messages)
        again = False
        for nl in all_node_lists(q):
            for n in nl:
                names = [a.name for a in n.attribute]
                if len(set(names)) != len(names):
                    last = {k: i for i, k in enumerate(names)}
                    keep = [copy.deepcopy(a) for i, a in enumerate(n.attribute) if last[a.name] == i]
                    del n.attribute[:]
                    n.attribute.extend(keep)
                    changed = again = True
                    break
            if again:
                break
    return changed


def _repair_empty_value_info(q) -> bool:
    # fixpoint-initializer-empty-value-info: a value_info entry without type/shape/doc/metadata naming an
    # initializer that is not a graph input (it erased the type the deserializer derived from the tensor)
    changed = False
    for g in all_graphs(q):
        ins = {i.name for i in g.input}
        inits = {t.name for t in g.initializer} - ins
        keep, ch = [], False
        for vi in g.value_info:
            if vi.name in inits and vinfo_is_empty(vi):
                ch = True
            else:
                keep.append(copy.deepcopy(vi))
        if ch:
            del g.value_info[:]
            g.value_info.extend(keep)
            changed = True
    return changed


REPAIRS = {"experimental-function-value-info-name-collision": _repair_name_collision,
           "experimental-function-value-info-function-id": _repair_fn_id,
           "reser-duplicate-initializer-bad-dtype": _repair_dup_initializer,
           "ghost-consumers-of-dropped-duplicate-attribute": _repair_dup_attribute,
           "fixpoint-initializer-empty-value-info": _repair_empty_value_info}


def repair_known_sites(p, key):
    """Remove the recorded defect site of ONE finding (known_findings.d/C17.json) from a copy of the proto; None
    when the proto has no such site.  Only the repair of the finding in question is applied: a failure that goes
    away by repairing the site of a FIXED finding is a regression of that fix, not the open finding."""
    q = copy.deepcopy(p)
    fn = REPAIRS.get(key)
    return q if fn is not None and fn(q) else None


def known_key(ck, msgs: list[str], p=None):
    """A failure is attributed to a known finding only if (a) every message is of the recorded kind and
    (b) removing the recorded site of THAT finding from the proto makes the oracle pass (or, when the proto has the
    sites of several open findings, removing all of those: attributed to the first)."""
    if p is None:
        return None
    cands = [k for k in ck._known if k.get("status") == "known"
             and all(k.get("site", {}).get("message_contains", "\0") in m for m in msgs)]
    for k in cands:
        q = repair_known_sites(p, k["key"])
        if q is not None and not oracle_fails(q):
            return k["key"]
    if len(cands) > 1:
        q, hit = copy.deepcopy(p), []
        for k in cands:
            fn = REPAIRS.get(k["key"])
            if fn is not None and fn(q):
                hit.append(k["key"])
        if len(hit) > 1 and not oracle_fails(q):
            return hit[0]
    return None


def replay_known(ck) -> None:
    """Known findings must still fail on the implementation; fixed findings must pass (and say so)."""
    for k in ck._known:
        p = proto_from_b64(k["witness"]["proto_b64"])
        msgs = oracle_fails(p)
        if k.get("status") == "known":
            if msgs:
                ck.known_finding(k["key"], k["what"])
            else:
                ck.broken(f"known-finding-stale:{k['key']}", "the recorded witness no longer fails on the implementation")
        elif k.get("status") == "fixed":
            if msgs:
                ck.broken(f"fixed-finding-regressed:{k['key']}", json.dumps({"failures": msgs[:3], "proto_b64": k["witness"]["proto_b64"]}))
            else:
                line = f"fixed: property=C17 {k.get('commit', '?')} {k['what']}"
                print(line, flush=True)
                ck.notes.append(line)


def search(ck, diverging: list) -> None:
    """Violation search after a broken obligation / correspondence: the diverging cases and shrunk versions,
    then fresh cases biased to every mutation kind."""
    for p in diverging:
        msgs = oracle_fails(p)
        if msgs:                # implementation and model disagree on p: not a known finding (see _run)
            site = failure_site(msgs)
            small = shrink(p, lambda c, s=site: any(failure_site([m]) == s for m in oracle_fails(c)))
            ck.violation({"kind": "oracle-after-broken-obligation", "proto_b64": proto_b64(small),
                          "proto": describe(small), "failures": oracle_fails(small)[:5], "broken": ck.broken_items[:3]})
            return
    budget = 3000 if not ck.thorough else 30000
    for i in range(budget):
        m = gen_model(ck.rng)
        for _ in range(ck.rng.randrange(1, 4)):
            mutate(m, ck.rng, MUTATIONS[i % len(MUTATIONS)] if ck.rng.random() < 0.7 else None)
        ck.count()
        msgs = oracle_fails(m)
        if msgs and not known_key(ck, msgs, m):
            site = failure_site(msgs)
            small = shrink(m, lambda c, s=site: any(failure_site([x]) == s for x in oracle_fails(c)))
            ck.violation({"kind": "oracle-after-broken-obligation", "proto_b64": proto_b64(small),
                          "proto": describe(small), "failures": oracle_fails(small)[:5], "broken": ck.broken_items[:3]})
            return


def replay(rp: dict) -> int:
    global EXT_ABS
    default_level_logging()
    ext_root = os.path.join(common.SCRATCH_ROOT, f"replay-C17-{os.getpid()}", "ext")
    EXT_ABS = rp.get("ext_abs") or make_external_files(ext_root)
    if not os.path.exists(EXT_ABS):
        os.makedirs(os.path.dirname(EXT_ABS), exist_ok=True)
        make_external_files(os.path.dirname(EXT_ABS))
    os.chdir(os.path.dirname(EXT_ABS))
    if rp.get("kind") == "sequence":
        a, b = proto_from_b64(rp["first_b64"]), proto_from_b64(rp["second_b64"])
        msgs = run_sequence(a, b)
        print(json.dumps({"failures": msgs}, indent=1))
        return 1 if msgs else 0
    if "proto_b64" not in rp:
        print("replay names a broken obligation/correspondence, no concrete input:",
              json.dumps(rp.get("broken"), indent=1)[:3000])
        return 1
    p = proto_from_b64(rp["proto_b64"])
    run_impl(gen_model(__import__("random").Random(1)))
    msgs = oracle_fails(p)
    print(describe(p))
    print(json.dumps({"failures": msgs}, indent=1))
    return 1 if msgs else 0

"""C18 — region extraction (convenience.extract) and capture analysis (analysis.analyze_implicit_usage) are exact.

Decided by: Coq theorems (coq/theories/C18/Property.v) about the hand-written executable model
coq/theories/C18/Model.v, tied to /repo on every run by a correspondence check (the real extract /
analyze_implicit_usage and the model are run on the same generated graphs x cuts; the implementation's
observations are embedded in case files and compared inside Coq with vm_compute), plus a property oracle
(brute-force region / scope computation on the generator's own dict representation, object independence,
onnx.reference evaluation of source vs extracted graph) that searches a concrete failing input.

MODEL (Model.v)
  node = Node id (inputs: list (option vid)) (outputs) (graphs held by GRAPH/GRAPHS attributes, in order);
  graph = Graph id inputs initializers nodes outputs (nested inductive; Struct.v has the induction principle).
  value.graph / producer() / is_initializer() / name are functions owner/prod/isinit/name. Since the deepening
  round the table the model runs on is DERIVED inside Coq from the graph structure (Model.d_owner/d_prod/d_init/
  d_heap; only the name codes are generator data); the accessors observed on the implementation are compared with
  it on every generated graph (stream "accessor_pin"), so a wrong accessor cannot mask an extractor error
  (checked with an is_initializer() mutant: pin broken + concrete extract violations).
  * collect_external, node_caps  = _collect_all_external_values per GRAPH/GRAPHS attribute (set order: a
    `shuffle` parameter; theorems hold for every order).
  * find_step/find_loop/find_bounded = _find_subgraph_bounded_by_values as written: value stack (last
    output on top), visited_values seeded with inputs, visited_nodes, initializers recorded when popped,
    inputs-then-captures pushed if not visited, frontier validation over direct inputs only, KeyError from
    node_index for a node outside the graph-like, result ordered by original index. Fuel = 1 + |outputs| +
    sum of |inputs|+|captures| over the universe; Proofs.find_fuel_suffices proves it is never exhausted.
  * extract = create_value_mapping (first name wins, built from function.graph for a Function), the
    validation loop over chain(inputs, outputs) (ownership for Graph/Function, name lookup), "no outputs",
    parent_graph = graph of the first output (AssertionError when None), find_bounded, then the
    definedness checks of Cloner.clone_graph/clone_node on the GraphView (clone_graph/clone_node in the
    model: value_map only grows; a missing node input / graph output -> RuntimeError via
    _capture_error_context).
  * analyze/process_node/process_graph/collect_ins/walk = analyze_implicit_usage with its graph stack and
    dict (KeyError when the walk reaches a graph that is not a key, i.e. the top graph).

TRANSLATION (second deepening round): generate(ck) regenerates coq/theories/Gen/C18Gen.v on every run from the source
  with the fail-closed statement translator above (class _Tr): the body of `while value_stack:` and the loop itself
  (gen_find_body / gen_find_loop), the frontier validation (gen_input_frontier / gen_unspecified),
  _collect_all_external_values (gen_collect_external) and _collect_implicit_usages (gen_collect_implicit_usages).
  C18/GenEquiv.v proves them equal to the hand model (C18_translated_walk_body, C18_translated_walk,
  C18_translated_frontier, C18_translated_captures, C18_translated_implicit_usages), Python set order as the
  quantified shuffle / any permutation for sorted(). A source edit changes the generated text: the translator rejects
  it ("translate:C18Gen") or an equivalence proof stops compiling ("proof:...GenEquiv.v..."), and the correspondence /
  oracle then look for the input. Hand-modelled and pinned by AST digest (PINS; fail closed as "pin:..."): the
  initialisation / raise / sort-by-node-index / return of _find_subgraph_bounded_by_values, extract, _process_node,
  analyze_implicit_usage. Seen on the seeded changes: r5m2, r4m3 -> translator rejects; r5m1 -> GenEquiv proof
  breaks; r4m1 -> pin; each still with a concrete input from the oracle.

THEOREMS (all closed under the global context, no axioms)
  C18_walk_terminates   fuel never runs out; outcomes are Ok | ValueError | KeyError.
  C18_exact             returned nodes = {producers of needed non-input values} (both inclusions), as a
                        filter of the original node list (original order); C18_least / C18_reach_closed:
                        Reach is the least closed set. C18_extract_exact: same for `extract` on a heap.
  C18_inits             initializers = needed non-input initializers (+ listed input initializers unless
                        the source is a Function — the code's isinstance(graph, ir.Function) branch).
  C18_unbounded_raises  needed node reads directly a producer-less non-initializer not in inputs => ValueError;
  C18_ok_bounded        converse for results.
  C18_unbounded_captured_raises  same for values read only inside nested bodies: extract Ok => listed in
                        inputs (the frontier check misses them, the cloner's check catches them).
  C18_caps_are_captures the values pushed for a node's bodies are exactly the `captured` values of
                        C18_captures_exact when the graph is well scoped.
  C18_captures_exact    for every well-scoped graph (scoped_n: no graph is its own ancestor, every value
                        read in a nested graph belongs to it or to an enclosing graph), all depths:
                        analyze = Ok u, keys u = nested graphs, u[S] = {v | read in S or deeper, v.graph not
                        S nor nested in S}.
  C18_semantics         (extract level, full) for every T / interp / source environment e0: if extract = Ok, the
                        source's own nodes are SSA and topologically sorted (captures included), values defined in
                        nested bodies do not belong to the parent graph and the outputs do, then running the
                        extracted node list from ANY e1 binding the inputs to the source's values and the
                        initializers to the source's tensors gives the source's values at the outputs. The former
                        environment-agreement hypothesis is discharged from extract = Ok (C18_inits, C18_ok_bounded,
                        Proofs5.extract_ok_captures_bound). C18_semantics_abstract = region-level core.
                        (Writing the non-vacuity Example exposed that the first SSA hypothesis "prod v = Some n <->
                        n in gnodes and ..." was unsatisfiable as soon as a nested body contains a node; it is now
                        restricted to the source's own nodes.)
  C18_semantics_nested  same with nested bodies evaluated recursively (Proofs7.den_n/den_g: a body denotes
                        "bind its inputs, run its nodes in the enclosing environment, return its outputs", any
                        depth; control operators uninterpreted, only required to respect pointwise equality of
                        body functions). Extra hypotheses: node outputs belong to the parent graph; what a body
                        reads from the parent graph is read by one of its nodes (a nested graph whose output
                        list names a parent value directly is NOT covered, nor seen by
                        _collect_all_external_values); both runs start from the same environment outside the
                        parent graph (nested initializers, outer scopes).
  C18_function_inits / C18_view_needed_node_outside_raises / C18_refs_checked: the source-kind differences
                        (Function: listed input initializers not recorded; GraphView: no ownership check, a needed
                        node outside the view raises ValueError/KeyError; Graph/Function: by-object refs must
                        belong to the graph; names must be known to create_value_mapping).
  C18_derived_accessors under the decidable structural well-formedness wf_b (distinct node/graph ids, every
                        definition site agrees with the derived accessors; evaluated in Coq on every case) d_owner /
                        d_prod / d_init are exactly "graph defining v" / "node outputting v" / "in an initializer list".
  C18_captures_exact_structural  C18_captures_exact on the structure alone: wf_b + every nested read defined in the
                        graph or an enclosing one (sscoped_n) => analyze on the derived value.graph maps S to
                        {v | read in S or deeper, not defined in S or deeper}, all depths.
  C18_structure_gives_ssa  NoDup / lookup / SSA hypotheses of C18_semantics follow from wf_b for the derived producer.
  C18_independent (DESIGN) is C13's theorem; here it is checked by the oracle only (no shared Graph/Node/
  Value object between result and source).

TIE / coverage: generated graphs (numeric: Relu/Neg/Identity/Add/Mul/Clip with omitted optional inputs/If
  with 1-2 outputs; structural: also multi-output nodes, bodies with their own inputs and initializers,
  GRAPHS attributes with 0-3 graphs, nesting depth up to 3) x cuts (all input subsets x 1-2 outputs for
  graphs with <= 6 top-level values on every third graph, random mostly-bounded cuts otherwise) x source
  kind Graph / Function / GraphView (sub-lists of the nodes, own inputs/initializers) x by-object /
  by-name / mixed references, + malformed stream (unsorted nodes, values owned by no graph, duplicate and
  empty names, sibling-scope leaks, unknown names, values of nested graphs, no outputs) + corpus/C18.
  Compared: Ok/Raise + exception class, node names in order, initializer names (set), input/output names;
  analyze result as ordered list of (graph, set of values) or the exception.

  Shadowing (round 2, seeded change C18-r2m1: name table built with include_subgraphs=True): on 40 % of the
  well-formed graphs a value inside a body of node i carries the NAME of a main-graph value produced by a later
  node, and half of those graphs' cuts put that value on the boundary by name; the oracle requires a boundary name
  that is not a value of the graph (e.g. only defined in a nested body) to be rejected, and the by-name result to
  equal the by-object result of the same cut. Corpus 04 is the hand-written instance. Caught with a concrete input
  by the generator alone (corpus case removed) and with it.

  Input-and-initializer values (round 3, seeded change C18-r3m3: frontier test `not is_initializer()` replaced by
  `is_graph_input()`): on 45 % of the graphs one initializer of the main graph is also a graph input (overridable
  default), read directly by region nodes and inside bodies like any other value; random cuts leave it unlisted
  70 % of the time. Corpus 05 is the hand-written instance. Caught with a concrete input by the generator alone.

  const_value vs initializer (round 4, seeded change C18-r4m2: `const_value is not None` used instead of
  is_initializer()): on half of the graphs 25 % of the non-initializer values (graph inputs, node outputs, any depth)
  carry a const_value, and on 20 % of the structural graphs half of the initializers carry none. The model and the
  oracle ignore const_value: an uncovered graph input with a constant must still raise, a node output with a
  constant must not show up among the result's initializers (result initializers are mapped back to value ids
  through all top-level names, so a spurious one is visible). Corpus 06.

  Histories (round 5, seeded change C18-r5m2: _collect_all_external_values memoised across calls): 36 (quick) / 700
  (thorough) histories "extract several regions -> replace an input of a node inside a nested body (any depth) by
  another main-graph value through Node.replace_input_with, on the SAME objects -> extract again"; the capture
  analysis and every extraction after the edit are compared with the model / oracle on the edited structure. A
  failure is replayed with its history (earlier extractions minimised to one when possible).
  Device configurations (question of an independent engineer: Cloner._remap_device_configurations keeps a
  ShardingSpec.value that is not in the value map): structural graphs annotate nodes through Node.shard (own inputs /
  outputs, any depth) and the independence check follows ShardingSpec.value. Result: with annotations made through the
  public API every spec of the extracted graph points into it — also for a boundary input whose producer is cut away
  (the spec's value is a node input, hence in the value map) and after replace_input_with (which drops the spec).
  Only a Node constructed directly with device_configurations naming a value that is NOT one of its inputs/outputs —
  which the ShardingSpec documentation forbids and Node.shard rejects — keeps a reference to the source Value. That
  state is outside the property's quantifier (an invalid annotation, not validated by the Node constructor: C01/C06
  territory); not recorded as a C18 finding. Possible hardening: drop or reject such a spec in
  _remap_device_configurations when the cloner does not allow outer-scope values.

ORACLE readings (weaker where ambiguous): domain = well-formed sources (topologically sorted, every value
  defined once in an enclosing scope, unique non-empty names, view nodes in source order, boundary
  references denoting top-level values known to the source); "raises" = any exception; initializers of
  the result must contain the needed ones and nothing but those and listed-input initializers; evaluation
  compares bit patterns of ReferenceEvaluator outputs for two seeded feeds (numeric graphs only).

FINDINGS on the unchanged tree: none (known_findings.d/C18.json is empty). Both DESIGN probes confirmed as
  harmless: (1) a captured graph input not listed in `inputs` passes the frontier check and is rejected by
  the cloner with RuntimeError (still raises; C18_unbounded_captured_raises, corpus 01); (2)
  analyze_implicit_usage on a nested read of a value whose graph is None raises KeyError — outside the
  quantifier (Example C18_captures_keyerror_outside_scope, corpus 03). Observed oddity, not a violation: when
  an output of a multi-output node is listed in `inputs` and a sibling output is needed, the result has
  both a graph input and a node output with that name (serialised graph is not SSA; ReferenceEvaluator
  still computes the source's values).

MODELLED NOT VERIFIED: list.sort(key=node_index) is modelled as "filter the original node list by
  membership" (contract of sorting a duplicate-free list by position); Python set iteration order; the
  copying part of the cloner (fresh objects, names, shapes) — only observed by the oracle; Graph
  constructors' own checks.

MUTANTS (scratch worktree /tmp/wt-C18, VERIF_REPO; every one breaks the correspondence; all but m4/m8 also
  give a concrete oracle replay; m4: the unbounded region is then rejected by the cloner, still "raises", so
  the property oracle has nothing to object to -> no-failing-input-found; m8: a listed input initializer
  missing from the result's initializers is allowed by the weaker reading of the oracle -> ditto):
  m1 GRAPHS attribute: captures of the first graph only      caught (after raising the share of GRAPHS nodes)
  m2 last input of a >2-input node not pushed                caught
  m3 sort by original index replaced by reverse()            caught (a first variant using len(all_nodes)
                                                             inside the key was a no-op: list is empty during sort)
  m4 frontier check looks at the first two inputs only       caught (first variant, dropping `producer not in
                                                             visited_nodes`, is an equivalent mutant — C18_ok_bounded)
  m5 _collect_all_external_values not recursive              caught
  m6 implicit usage walks only the two innermost graphs      caught (needs depth 3; generator deepened)
  m7 implicit usage skips initializers                       caught
  m8 listed input initializers not recorded                  caught
  m9 inputs that are outputs of multi-output nodes not used as stop set   caught
"""

from __future__ import annotations

import itertools
import json
import os
import random
import re

import numpy as np

import ast

import translate as T
from harness import common
from harness.common import REPO, clist, copt

SRC_FILES = [os.path.join(REPO, "src", "onnx_ir", p) for p in
             ("_convenience/_extractor.py", "analysis/_implicit_usage.py", "_cloner.py")]

UNKNOWN_GID = 999          # value.graph is a Graph that is not part of the generated tree
UNKNOWN_NAME = 4999        # name code of a by-name reference that names nothing


# =========================================================================== translation of the source (Gen/C18Gen.v)
# Fail-closed, statement-by-statement translation of the set/stack loops of _extractor.py and of
# _collect_implicit_usages into Gallina.  Python sets become duplicate-free lists (set_add), the value stack keeps its
# top at the head, `if c: continue`, `(x := e) is not None`, `x is None` and `x is not None` become matches.  Anything
# outside the recognised fragment raises translate.Unsupported, which is reported as a broken obligation.
# coq/theories/C18/GenEquiv.v proves the generated definitions equal to the hand model (Model.find_step / find_loop /
# collect_external / collect_implicit).  The statements that are not translated are pinned by AST digest (PINS).


GRAPH_KINDS = {"ir.AttributeType.GRAPH": "attr_is_graph", "ir.AttributeType.GRAPHS": "attr_is_graphs"}
COQ_T = {"nodeobj": "node", "val": "nat", "oval": "option nat", "node": "nat", "onode": "option nat", "attr": "attr", "graph": "graph",
         "gid": "nat"}


class _Tr:
    """state: ordered [(python name, kind)], kind in set|list|stack (all `list nat`); elem: element type of a set when
    iterated.  Every statement becomes a rebinding of the state variables; a block ends with the state tuple."""

    def __init__(self, state, env, elem=None):
        self.state = state
        self.kinds = dict(state)
        self.env = dict(env)                 # python name -> type tag (locals / parameters)
        self.elem = elem or {}

    def tup(self):
        return "(" + ", ".join(n + "_" for n, _ in self.state) + ")"

    # ---------------------------------------------------------------- expressions
    def expr(self, e, env):
        if isinstance(e, ast.Name):
            if e.id in self.kinds:
                return e.id + "_", self.kinds[e.id]
            if e.id in env:
                return e.id + "_", env[e.id]
            raise T.Unsupported(f"unknown name {e.id}")
        if isinstance(e, ast.Call) and isinstance(e.func, ast.Attribute) and not e.args and not e.keywords:
            f = e.func
            if f.attr == "values" and isinstance(f.value, ast.Attribute) and f.value.attr == "attributes":
                t, ty = self.expr(f.value.value, env)
                if ty != "node":
                    raise T.Unsupported(ast.unparse(e))
                return f"(nattrs {t})", "attrs"
            t, ty = self.expr(f.value, env)
            table = {("is_initializer", "val"): ("isinit", "bool"), ("producer", "val"): ("prod", "onode"),
                     ("as_graph", "attr"): ("attr_as_graph", "graph"), ("as_graphs", "attr"): ("attr_as_graphs", "graphs")}
            if (f.attr, ty) in table:
                fn, rty = table[(f.attr, ty)]
                return f"({fn} {t})", rty
            raise T.Unsupported(f"method call {ast.unparse(e)} on {ty}")
        if isinstance(e, ast.Call) and isinstance(e.func, ast.Name) and e.func.id == "_collect_all_external_values" \
                and len(e.args) == 2 and not e.keywords:
            p, tp = self.expr(e.args[0], env)
            g, tg = self.expr(e.args[1], env)
            if (tp, tg) != ("gid", "graph"):
                raise T.Unsupported(ast.unparse(e))
            return f"(collect {p} {g})", "vals"
        if isinstance(e, ast.Attribute) and e.attr == "inputs":
            t, ty = self.expr(e.value, env)
            if ty == "nodeobj":
                return f"(n_ins {t})", "ovals"
            if ty != "node":
                raise T.Unsupported(ast.unparse(e))
            return f"(nins {t})", "ovals"
        if isinstance(e, ast.Call) and isinstance(e.func, ast.Name) and e.func.id == "sorted" and len(e.args) == 1 \
                and [k.arg for k in e.keywords] == ["key"] and isinstance(e.keywords[0].value, ast.Lambda):
            # only the order depends on the key: `sorted_by_key` is an arbitrary permutation in the equivalence theorem
            t, ty = self.expr(e.args[0], env)
            if ty != "set" or not isinstance(e.args[0], ast.Name):
                raise T.Unsupported(ast.unparse(e))
            return f"(sorted_by_key {t})", "set:" + self.elem.get(e.args[0].id, "?")
        if isinstance(e, ast.Call) and ast.unparse(e.func) == "ir.traversal.RecursiveGraphIterator" \
                and len(e.args) == 1 and not e.keywords:
            t, ty = self.expr(e.args[0], env)
            if ty != "graph":
                raise T.Unsupported(ast.unparse(e))
            return f"(rec_nodes_g {t})", "nodeobjs"
        if isinstance(e, ast.Compare) and len(e.ops) == 1:
            op, r = e.ops[0], e.comparators[0]
            if isinstance(op, ast.Eq) and isinstance(e.left, ast.Attribute) and e.left.attr == "type" \
                    and ast.unparse(r) in GRAPH_KINDS:
                t, ty = self.expr(e.left.value, env)
                if ty != "attr":
                    raise T.Unsupported(ast.unparse(e))
                return f"({GRAPH_KINDS[ast.unparse(r)]} {t})", "bool"
            if isinstance(op, ast.Is) and isinstance(e.left, ast.Attribute) and e.left.attr == "graph":
                a, ta = self.expr(e.left.value, env)
                b, tb = self.expr(r, env)
                if (ta, tb) != ("val", "gid"):
                    raise T.Unsupported(ast.unparse(e))
                return f"(onat_eqb (owner {a}) (Some {b}))", "bool"
            if isinstance(op, (ast.In, ast.NotIn)):
                a, ta = self.expr(e.left, env)
                b, tb = self.expr(r, env)
                if ta not in ("val", "node") or tb not in ("set", "roset"):
                    raise T.Unsupported(f"membership {ast.unparse(e)} : {ta} in {tb}")
                return (f"(mem {a} {b})" if isinstance(op, ast.In) else f"(negb (mem {a} {b}))"), "bool"
            raise T.Unsupported(f"comparison {ast.unparse(e)}")
        if isinstance(e, ast.BoolOp):
            parts = []
            for v in e.values:
                t, ty = self.expr(v, env)
                if ty != "bool":
                    raise T.Unsupported(f"non-boolean operand {ast.unparse(v)}")
                parts.append(t)
            return "(" + (" && " if isinstance(e.op, ast.And) else " || ").join(parts) + ")", "bool"
        if isinstance(e, ast.UnaryOp) and isinstance(e.op, ast.Not):
            t, ty = self.expr(e.operand, env)
            if ty != "bool":
                raise T.Unsupported(ast.unparse(e))
            return f"(negb {t})", "bool"
        raise T.Unsupported(f"expression {ast.unparse(e)}")

    @staticmethod
    def is_none_test(e, positive):
        """`X is None` (positive) / `X is not None`: returns the tested expression or None"""
        if isinstance(e, ast.Compare) and len(e.ops) == 1 and isinstance(e.comparators[0], ast.Constant) \
                and e.comparators[0].value is None and isinstance(e.ops[0], ast.Is if positive else ast.IsNot):
            return e.left
        return None

    # ---------------------------------------------------------------- statements
    def block(self, stmts, env):
        if not stmts:
            return self.tup()
        s, rest = stmts[0], stmts[1:]
        TUP = self.tup()
        if isinstance(s, ast.Expr) and isinstance(s.value, ast.Constant) and isinstance(s.value.value, str):
            return self.block(rest, env)
        # x.add(e) / x.append(e)
        if isinstance(s, ast.Expr) and isinstance(s.value, ast.Call) and isinstance(s.value.func, ast.Attribute) \
                and isinstance(s.value.func.value, ast.Name) and s.value.func.value.id in self.kinds \
                and len(s.value.args) == 1 and not s.value.keywords:
            name, meth = s.value.func.value.id, s.value.func.attr
            kind = self.kinds[name]
            t, ty = self.expr(s.value.args[0], env)
            if ty not in ("val", "node"):
                raise T.Unsupported(f"{ast.unparse(s)}: element of type {ty}")
            if (meth, kind) == ("add", "set"):
                new = f"set_add {t} {name}_"
            elif (meth, kind) == ("append", "stack"):
                new = f"stack_push {t} {name}_"
            elif (meth, kind) == ("append", "list"):
                new = f"list_append {name}_ {t}"
            else:
                raise T.Unsupported(f"{ast.unparse(s)} on a {kind}")
            return f"let {name}_ := {new} in\n  " + self.block(rest, env)
        # local assignment
        if isinstance(s, ast.Assign) and len(s.targets) == 1 and isinstance(s.targets[0], ast.Name) \
                and s.targets[0].id not in self.kinds:
            t, ty = self.expr(s.value, env)
            n = s.targets[0].id
            return f"let {n}_ := {t} in\n  " + self.block(rest, dict(env, **{n: ty}))
        if isinstance(s, ast.If):
            # guard: `if c: continue`
            if len(s.body) == 1 and isinstance(s.body[0], ast.Continue) and not s.orelse:
                x = self.is_none_test(s.test, True)
                if x is not None and isinstance(x, ast.Name) and env.get(x.id) in ("oval", "onode"):
                    inner = "val" if env[x.id] == "oval" else "node"
                    return (f"match {x.id}_ with\n  | None => {TUP}\n  | Some {x.id}_ =>\n  "
                            + self.block(rest, dict(env, **{x.id: inner})) + "\n  end")
                c, ty = self.expr(s.test, env)
                if ty != "bool":
                    raise T.Unsupported(ast.unparse(s.test))
                return f"if {c} then {TUP} else\n  " + self.block(rest, env)
            after = self.block(rest, env)
            return f"let '{TUP} :=\n  " + self.if_value(s, env) + f" in\n  {after}"
        if isinstance(s, ast.For) and not s.orelse and isinstance(s.target, ast.Name):
            it, ity = self.expr(s.iter, env)
            if ity == "set":
                ity = "set:" + self.elem.get(s.iter.id if isinstance(s.iter, ast.Name) else "", "?")
            if ity == "roset":
                ity = "set:" + self.elem.get(s.iter.id if isinstance(s.iter, ast.Name) else "", "?")
            ety = {"nodeobjs": "nodeobj", "ovals": "oval", "attrs": "attr", "vals": "val", "graphs": "graph", "set:node": "node",
                   "set:val": "val"}.get(ity)
            if ety is None:
                raise T.Unsupported(f"iteration over {ast.unparse(s.iter)} : {ity}")
            x = s.target.id
            body = self.block(list(s.body), dict(env, **{x: ety}))
            return (f"let '{TUP} :=\n  fold_left (fun '{TUP} ({x}_ : {COQ_T[ety]}) =>\n  {body})\n  {it} {TUP} in\n  "
                    + self.block(rest, env))
        raise T.Unsupported(f"statement {ast.unparse(s)[:120]}")

    def if_value(self, s, env):
        """value (a state tuple) of an if statement"""
        TUP = self.tup()
        els = self.block(list(s.orelse), env) if s.orelse else TUP
        test = s.test
        # (x := e) is not None
        x = self.is_none_test(test, False)
        if x is not None and isinstance(x, ast.NamedExpr) and isinstance(x.target, ast.Name):
            t, ty = self.expr(x.value, env)
            if ty not in ("onode", "oval"):
                raise T.Unsupported(ast.unparse(test))
            n = x.target.id
            inner = "node" if ty == "onode" else "val"
            return (f"match {t} with\n  | Some {n}_ =>\n  " + self.block(list(s.body), dict(env, **{n: inner}))
                    + f"\n  | None => {els}\n  end")
        # conjunction containing `x is not None` for an optional x: refine x first
        conj = test.values if isinstance(test, ast.BoolOp) and isinstance(test.op, ast.And) else [test]
        for i, cpart in enumerate(conj):
            y = self.is_none_test(cpart, False)
            if y is not None and isinstance(y, ast.Name) and env.get(y.id) in ("oval", "onode"):
                inner = "val" if env[y.id] == "oval" else "node"
                others = conj[:i] + conj[i + 1:]
                env2 = dict(env, **{y.id: inner})
                body = self.block(list(s.body), env2)
                if others:
                    parts = []
                    for o in others:
                        t, ty = self.expr(o, env2)
                        if ty != "bool":
                            raise T.Unsupported(ast.unparse(o))
                        parts.append(t)
                    body = f"if {' && '.join(parts)} then\n  {body}\n  else {els}"
                return f"match {y.id}_ with\n  | Some {y.id}_ =>\n  {body}\n  | None => {els}\n  end"
        # `x is None or <rest>` for an optional x: the body runs when x is None, else x is refined for <rest>
        if isinstance(test, ast.BoolOp) and isinstance(test.op, ast.Or) and len(test.values) == 2:
            y = self.is_none_test(test.values[0], True)
            if y is not None and isinstance(y, ast.Name) and env.get(y.id) in ("oval", "onode"):
                inner = "val" if env[y.id] == "oval" else "node"
                body0 = self.block(list(s.body), env)
                env2 = dict(env, **{y.id: inner})
                t, ty = self.expr(test.values[1], env2)
                if ty != "bool":
                    raise T.Unsupported(ast.unparse(test))
                body1 = self.block(list(s.body), env2)
                return (f"match {y.id}_ with\n  | None =>\n  {body0}\n  | Some {y.id}_ =>\n  if {t} then\n  {body1}\n"
                        f"  else {els}\n  end")
        c, ty = self.expr(test, env)
        if ty != "bool":
            raise T.Unsupported(ast.unparse(test))
        return f"if {c} then\n  " + self.block(list(s.body), env) + f"\n  else {els}"


def find_function(mod, name):
    for n in ast.walk(mod):
        if isinstance(n, ast.FunctionDef) and n.name == name:
            return n
    raise T.Unsupported(f"function {name} not found")


FIND_STATE = [("initialized_values", "set"), ("all_nodes", "list"), ("value_stack", "stack"),
              ("visited_nodes", "set"), ("visited_values", "set")]


def translate_find_loop(src_text):
    mod = ast.parse(src_text)
    fn = find_function(mod, "_find_subgraph_bounded_by_values")
    whiles = [s for s in fn.body if isinstance(s, ast.While)]
    if len(whiles) != 1:
        raise T.Unsupported("expected exactly one while loop")
    w = whiles[0]
    if ast.unparse(w.test) != "value_stack" or w.orelse:
        raise T.Unsupported(f"while header: {ast.unparse(w.test)}")
    first = w.body[0]
    if ast.unparse(first) != "value = value_stack.pop()":
        raise T.Unsupported(f"first statement of the loop: {ast.unparse(first)}")
    tr = _Tr(FIND_STATE, {"value": "val", "parent_graph": "gid"})
    body = tr.block(list(w.body[1:]), tr.env)
    TUP = tr.tup()
    return ("(* the body of `while value_stack:` after `value = value_stack.pop()` *)\n"
            f"Definition gen_find_body (value_ : nat) (st : fstate5) : fstate5 :=\n  let '{TUP} := st in\n  {body}.\n\n"
            "(* `while value_stack: value = value_stack.pop(); <body>` with explicit fuel *)\n"
            "Fixpoint gen_find_loop (fuel : nat) (st : fstate5) : option fstate5 :=\n"
            "  match fuel with\n  | 0 => None\n  | S fuel' =>\n"
            f"      let '{TUP} := st in\n"
            "      match value_stack_ with\n      | [] => Some st\n"
            "      | value_ :: value_stack_ =>\n"
            f"          gen_find_loop fuel' (gen_find_body value_ {TUP})\n"
            "      end\n  end.\n")


GEN_HEADER = ("(* GENERATED on every run by harness/props/c18.py from /repo/src/onnx_ir/_convenience/_extractor.py and\n"
              "   analysis/_implicit_usage.py — do not edit.  Statement-by-statement translation; C18/GenEquiv.v proves it\n"
              "   equal to the hand model the theorems are about. *)\n"
              "From Coq Require Import List Bool Arith.\nFrom IRV Require Import Base.Exn C18.Model.\n"
              "Import ListNotations.\n\n")


def translate_frontier(src_text):
    """The two loops after the walk: input_frontier and unspecified_graph_inputs."""
    fn = find_function(ast.parse(src_text), "_find_subgraph_bounded_by_values")
    body = list(fn.body)
    wi = [i for i, s_ in enumerate(body) if isinstance(s_, ast.While)]
    if len(wi) != 1:
        raise T.Unsupported("expected exactly one while loop")
    after = [s_ for s_ in body[wi[0] + 1:]
             if not (isinstance(s_, ast.Expr) and isinstance(s_.value, ast.Constant))]
    want = ["input_frontier: set[ir.Value] = set()", None, "unspecified_graph_inputs: list[ir.Value] = []",
            "inputs_set = set(inputs)", None]
    if len(after) < 5 or any(w is not None and ast.unparse(a) != w for w, a in zip(want, after)) \
            or not isinstance(after[1], ast.For) or not isinstance(after[4], ast.For):
        raise T.Unsupported("frontier validation: unexpected statements after the while loop")
    t1 = _Tr([("input_frontier", "set")], {"visited_nodes": "roset"}, elem={"visited_nodes": "node"})
    loop1 = t1.block([after[1]], t1.env)
    t2 = _Tr([("unspecified_graph_inputs", "list")], {"input_frontier": "set", "inputs_set": "roset"},
             elem={"input_frontier": "val"})
    # input_frontier is read-only here but iterated through sorted(): keep it typed as a set
    t2.kinds = dict(t2.kinds)
    loop2 = t2.block([after[4]], dict(t2.env))
    return ("(* input_frontier: values read by a visited node that are not produced by a visited node *)\n"
            "Definition gen_input_frontier (visited_nodes_ : list nat) : list nat :=\n"
            f"  let input_frontier_ := [] in\n  let '(input_frontier_) :=\n  {loop1} in\n  input_frontier_.\n\n"
            "(* unspecified_graph_inputs (a non-empty list raises ValueError) *)\n"
            "Definition gen_unspecified (sorted_by_key : list nat -> list nat) (input_frontier_ inputs_set_ : list nat)"
            " : list nat :=\n"
            f"  let unspecified_graph_inputs_ := [] in\n  let '(unspecified_graph_inputs_) :=\n  {loop2} in\n"
            "  unspecified_graph_inputs_.\n")


def translate_collect_external(src_text):
    fn = find_function(ast.parse(src_text), "_collect_all_external_values")
    if fn.decorator_list:
        raise T.Unsupported("_collect_all_external_values is decorated: " + ", ".join(ast.unparse(d) for d in fn.decorator_list))
    if [a.arg for a in fn.args.args] != ["parent_graph", "graph"]:
        raise T.Unsupported("_collect_all_external_values: parameter list changed")
    body = [s for s in fn.body if not (isinstance(s, ast.Expr) and isinstance(s.value, ast.Constant))]
    if len(body) != 3 or not isinstance(body[0], ast.AnnAssign) or ast.unparse(body[0].target) != "values" \
            or ast.unparse(body[0].value) != "set()" or ast.unparse(body[2]) != "return values":
        raise T.Unsupported("_collect_all_external_values: expected `values = set()`, one loop, `return values`")
    tr = _Tr([("values", "set")], {"parent_graph": "gid", "graph": "graph"})
    loop = tr.block([body[1]], tr.env)
    return ("(* _collect_all_external_values(parent_graph, graph); RecursiveGraphIterator = Model.rec_nodes_g *)\n"
            "Definition gen_collect_external (owner : nat -> option nat) (parent_graph_ : nat) (graph_ : graph) : list nat :=\n"
            f"  let values_ := [] in\n  let '(values_) :=\n  {loop} in\n  values_.\n\n")


def translate_collect_implicit(src_text):
    """_collect_implicit_usages: for over node.inputs with a `continue` guard, inner for over reversed(graph_stack)
    with a `break`, and `implicit_usages[g].add(inp)` (KeyError when g is not a key)."""
    fn = find_function(ast.parse(src_text), "_collect_implicit_usages")
    if [a.arg for a in fn.args.args] != ["node", "subgraph", "graph_stack", "implicit_usages"]:
        raise T.Unsupported("_collect_implicit_usages: parameter list changed")
    body = [s for s in fn.body if not (isinstance(s, ast.Expr) and isinstance(s.value, ast.Constant))]
    if len(body) != 1 or not isinstance(body[0], ast.For) or body[0].orelse:
        raise T.Unsupported("_collect_implicit_usages: expected a single for loop")
    outer = body[0]
    if not isinstance(outer.target, ast.Name) or ast.unparse(outer.iter) != "node.inputs":
        raise T.Unsupported(f"outer loop header: {ast.unparse(outer.target)} in {ast.unparse(outer.iter)}")
    x = outer.target.id

    def graph_is(e, var_ty):
        """`A.graph is B` / `B is A.graph` with A the (refined) input -> onat_eqb (owner A) (Some B)"""
        if not (isinstance(e, ast.Compare) and len(e.ops) == 1 and isinstance(e.ops[0], ast.Is)):
            raise T.Unsupported(ast.unparse(e))
        l, r = e.left, e.comparators[0]
        if isinstance(r, ast.Attribute):
            l, r = r, l
        if not (isinstance(l, ast.Attribute) and l.attr == "graph" and isinstance(l.value, ast.Name)
                and l.value.id == x and isinstance(r, ast.Name) and r.id in var_ty):
            raise T.Unsupported(ast.unparse(e))
        return f"onat_eqb (owner {x}_) (Some {r.id}_)"
    stm = list(outer.body)
    if len(stm) != 2 or not isinstance(stm[0], ast.If) or not isinstance(stm[1], ast.For):
        raise T.Unsupported("outer loop body: expected `if ...: continue` and a for loop")
    g0 = stm[0]
    if not (len(g0.body) == 1 and isinstance(g0.body[0], ast.Continue) and not g0.orelse
            and isinstance(g0.test, ast.BoolOp) and isinstance(g0.test.op, ast.Or) and len(g0.test.values) == 2):
        raise T.Unsupported(f"guard: {ast.unparse(g0)}")
    none_t = _Tr.is_none_test(g0.test.values[0], True)
    if not (isinstance(none_t, ast.Name) and none_t.id == x):
        raise T.Unsupported(f"guard: {ast.unparse(g0.test)}")
    skip = graph_is(g0.test.values[1], {"subgraph": "gid"})
    inner = stm[1]
    if inner.orelse or not isinstance(inner.target, ast.Name) or ast.unparse(inner.iter) != "reversed(graph_stack)":
        raise T.Unsupported(f"inner loop header: {ast.unparse(inner.iter)}")
    g = inner.target.id
    ib = list(inner.body)
    if len(ib) != 2 or not isinstance(ib[0], ast.If) or ib[0].orelse or len(ib[0].body) != 1 \
            or not isinstance(ib[0].body[0], ast.Break):
        raise T.Unsupported("inner loop body: expected `if ...: break` first")
    brk = graph_is(ib[0].test, {g: "gid"})
    if ast.unparse(ib[1]) != f"implicit_usages[{g}].add({x})":
        raise T.Unsupported(f"inner loop body: {ast.unparse(ib[1])}")
    return ("Definition gen_collect_implicit_usages (owner : nat -> option nat) (node_inputs : list (option nat))\n"
            "    (subgraph_ : nat) (graph_stack_ : list nat) (implicit_usages_ : usages) : res usages :=\n"
            f"  py_for_res (fun implicit_usages_ ({x}_ : option nat) =>\n"
            f"    match {x}_ with\n    | None => Ok implicit_usages_\n    | Some {x}_ =>\n"
            f"      if {skip} then Ok implicit_usages_ else\n"
            f"      py_for_break (fun implicit_usages_ ({g}_ : nat) =>\n"
            f"        if {brk} then None else Some (add_usage {g}_ {x}_ implicit_usages_))\n"
            "        (rev graph_stack_) implicit_usages_\n    end) node_inputs implicit_usages_.\n")


def gen_text(extractor_src, implicit_src):
    out = [GEN_HEADER, "Section FindGen.\n"
           "  Variable prod : nat -> option nat.          (* value.producer() *)\n"
           "  Variable isinit : nat -> bool.              (* value.is_initializer() *)\n"
           "  Variable nins : nat -> list (option nat).   (* node.inputs *)\n"
           "  Variable nattrs : nat -> list attr.         (* node.attributes.values() *)\n"
           "  (* _collect_all_external_values(parent_graph, g) in its iteration order *)\n"
           "  Variable collect : nat -> graph -> list nat.\n"
           "  Variable parent_graph_ : nat.\n\n",
           translate_find_loop(extractor_src), "\n", translate_frontier(extractor_src), "End FindGen.\n\n",
           translate_collect_external(extractor_src),
           translate_collect_implicit(implicit_src)]
    return "".join(out)




EXTRACTOR_SRC = os.path.join(REPO, "src", "onnx_ir", "_convenience", "_extractor.py")
IMPLICIT_SRC = os.path.join(REPO, "src", "onnx_ir", "analysis", "_implicit_usage.py")

# AST digests (translate.ast_digest: no positions, no docstrings) of the code that is modelled by hand and NOT
# translated: _find_subgraph_bounded_by_values without its while loop (initialisation, frontier validation, sort),
# extract, and the two drivers of the capture analysis.  A different digest is a broken obligation ("pin:..."): the
# hand model has to be re-read against the new code (then re-pin).
PINS = {
    "_find_subgraph_bounded_by_values(initialisation, raise, sort, return)": "830b784365b2cddf",
    "extract": "e5a4e524f4533a51",
    "_process_node": "672c5d3bd9208649",
    "analyze_implicit_usage": "613e47a7870bcf03"
}


def _pin_digests() -> dict:
    ex = ast.parse(open(EXTRACTOR_SRC).read())
    im = ast.parse(open(IMPLICIT_SRC).read())
    fb = find_function(ex, "_find_subgraph_bounded_by_values")
    wi = [i for i, s in enumerate(fb.body) if isinstance(s, ast.While)][0]
    # not translated: the initialisation before the loop and, after it, everything but the two frontier loops
    # (set/list initialisations, the raise, the sort by node index, the return)
    rest = ast.FunctionDef(name=fb.name, args=fb.args,
                           body=list(fb.body[:wi]) + [s for s in fb.body[wi + 1:] if not isinstance(s, ast.For)],
                           decorator_list=fb.decorator_list, returns=fb.returns)
    return {"_find_subgraph_bounded_by_values(initialisation, raise, sort, return)": T.ast_digest(rest),
            "extract": T.ast_digest(find_function(ex, "extract")),
            "_process_node": T.ast_digest(find_function(im, "_process_node")),
            "analyze_implicit_usage": T.ast_digest(find_function(im, "analyze_implicit_usage"))}


def generate(ck) -> bool:
    ok = True
    try:
        text = gen_text(open(EXTRACTOR_SRC).read(), open(IMPLICIT_SRC).read())
        ck.gen("C18Gen", text)
    except Exception as e:  # noqa: BLE001  (fail closed on anything the translator cannot handle)
        ck.gen_failed("C18Gen", e)
        ok = False
    try:
        now = _pin_digests()
        for k, v in PINS.items():
            if now.get(k) != v:
                ck.broken(f"pin:{k}", f"AST digest {now.get(k)} != pinned {v}: hand-modelled code changed")
                ok = False
    except (T.Unsupported, SyntaxError, OSError) as e:
        ck.broken("pin:source", str(e))
        ok = False
    return ok


# =========================================================================== generator
# spec = {"mode": "numeric"|"structural", "values": {vid: {"name": str|None, "init": bool, "bool": bool}},
#         "root": G, "detached": [vid], "flags": [...]}          (JSON: keys of "values" are strings)
# G = {"gid", "inputs": [vid], "inits": [vid], "nodes": [N], "outputs": [vid]}
# N = {"nid", "op", "ins": [vid|None], "outs": [vid], "subs": [G], "graphs_attr": bool}

class _Gen:
    def __init__(self, rng: random.Random, mode: str, size: int, malform: bool):
        self.rng, self.mode, self.size, self.malform = rng, mode, size, malform
        self.values: dict[int, dict] = {}
        self.nv = self.nn = self.ng = 0
        self.flags: list[str] = []
        self.detached: list[int] = []
        self.cond: int | None = None
        self.all_graph_locals: dict[int, list[int]] = {}

    def value(self, init=False, is_bool=False) -> int:
        self.nv += 1
        self.values[self.nv] = {"name": f"v{self.nv}", "init": init, "bool": is_bool}
        return self.nv

    def graph(self, scope: list[int], depth: int, n_out: int | None, budget: int) -> dict:
        rng = self.rng
        self.ng += 1
        gid = self.ng
        root = depth == 0
        inputs, inits = [], []
        if root:
            inputs = [self.value() for _ in range(rng.randrange(1, 4))]
            self.cond = self.value(is_bool=True)
            inputs.append(self.cond)
            inits = [self.value(init=True) for _ in range(rng.randrange(0, 3))]
            if rng.random() < 0.45:
                # an overridable default: a value that is BOTH a graph input and an initializer
                if not inits or rng.random() < 0.5:
                    inits.append(self.value(init=True))
                inputs.insert(rng.randrange(len(inputs) + 1), rng.choice(inits))
        else:
            if self.mode == "structural" and rng.random() < 0.4:
                inputs = [self.value() for _ in range(rng.randrange(1, 3))]
            if rng.random() < 0.25:
                inits = [self.value(init=True)]
        local = list(dict.fromkeys([v for v in inputs if not self.values[v]["bool"]] + inits))
        nodes = []
        n_nodes = rng.randrange(1, budget + 1) if root else rng.randrange(0 if n_out is None else 1, 3)
        for _ in range(n_nodes):
            visible = scope + local
            if not visible:
                break
            nodes.append(self.node(visible, scope, local, depth))
            local += nodes[-1]["outs"]
        produced = [o for n in nodes for o in n["outs"]]
        if root:
            k = rng.randrange(1, 3)
            sinks = produced[-k:] if produced else local[:1]
            outputs = list(dict.fromkeys(sinks))
        elif n_out is None:           # structural body: any number of outputs
            cands = produced + [v for v in inputs]
            outputs = rng.sample(cands, min(len(cands), rng.randrange(0, 3)))
        else:
            while len(produced) < 1:
                # a branch must compute something: Identity of a visible value
                src = rng.choice(scope + local)
                self.nn += 1
                o = self.value()
                nodes.append({"nid": self.nn, "op": "Identity", "ins": [src], "outs": [o], "subs": [],
                              "graphs_attr": False})
                produced.append(o)
            outputs = [rng.choice(produced) for _ in range(n_out)]
        self.all_graph_locals[gid] = list(local)
        return {"gid": gid, "inputs": inputs, "inits": inits, "nodes": nodes, "outputs": outputs}

    def pick(self, visible: list[int], scope: list[int], local: list[int]) -> int:
        rng = self.rng
        # bias: captures of outer values inside bodies, recent values otherwise
        if scope and rng.random() < 0.55:
            return rng.choice(scope)
        if local and rng.random() < 0.6:
            return rng.choice(local[-3:])
        return rng.choice(visible)

    def node(self, visible, scope, local, depth) -> dict:
        rng = self.rng
        self.nn += 1
        nid = self.nn
        ops = ["Relu", "Neg", "Identity", "Add", "Add", "Mul", "Mul", "Clip"]
        maxdepth = {0: 1, 1: 2, 2: 3}[self.size]
        if depth < maxdepth:
            ops += ["If", "If"]
        if self.mode == "structural":
            ops += ["Multi", "Multi"]
            if depth < maxdepth:
                ops += ["Body", "Body", "Branches", "Branches"]
        op = rng.choice(ops)
        if self.mode == "structural" and depth < maxdepth and rng.random() < (0.3 if depth == 0 else 0.2):
            op = rng.choice(["Body", "Branches", "Branches", "If"])
        subs, graphs_attr = [], False
        if op in ("Relu", "Neg", "Identity"):
            ins, n_out = [self.pick(visible, scope, local)], 1
        elif op in ("Add", "Mul"):
            a = self.pick(visible, scope, local)
            b = a if rng.random() < 0.15 else self.pick(visible, scope, local)
            ins, n_out = [a, b], 1
        elif op == "Clip":
            ins = [self.pick(visible, scope, local),
                   self.pick(visible, scope, local) if rng.random() < 0.4 else None,
                   self.pick(visible, scope, local) if rng.random() < 0.5 else None]
            if ins[2] is None and rng.random() < 0.7:
                ins = ins[:2]                      # trailing omitted input dropped
            n_out = 1
        elif op == "Multi":
            ins = [self.pick(visible, scope, local) for _ in range(rng.randrange(0, 4))]
            n_out = rng.randrange(1, 4)
        elif op == "If":
            ins, n_out = [self.cond], rng.randrange(1, 3)
            subs = [self.graph(visible, depth + 1, n_out, 0) for _ in range(2)]
        elif op == "Body":
            ins = [self.pick(visible, scope, local) for _ in range(rng.randrange(0, 2))]
            n_out = rng.randrange(1, 3)
            subs = [self.graph(visible, depth + 1, None, 0) for _ in range(rng.randrange(1, 3))]
        else:  # Branches: one GRAPHS attribute
            ins, n_out, graphs_attr = [], 1, True
            subs = [self.graph(visible, depth + 1, None, 0) for _ in range(rng.choice([0, 1, 2, 2, 3]))]
        outs = [self.value() for _ in range(n_out)]
        return {"nid": nid, "op": op, "ins": ins, "outs": outs, "subs": subs, "graphs_attr": graphs_attr}


def _all_graphs(g: dict):
    yield g
    for n in g["nodes"]:
        for s in n["subs"]:
            yield from _all_graphs(s)


def _all_nodes(g: dict):
    """RecursiveGraphIterator order."""
    for n in g["nodes"]:
        yield n
        for s in n["subs"]:
            yield from _all_nodes(s)


def gen_spec(rng: random.Random, mode: str = "numeric", size: int = 1, malform: bool = False) -> dict:
    g = _Gen(rng, mode, size, malform)
    root = g.graph([], 0, None, {0: 3, 1: 6, 2: 10}[size])
    flags = []
    nested = [s for s in _all_graphs(root)][1:]
    if malform:
        kind = rng.choice(["unsorted", "detached_top", "detached_nested", "dupname", "noname", "sibling"])
        if kind == "unsorted" and len(root["nodes"]) >= 2:
            i = rng.randrange(len(root["nodes"]) - 1)
            root["nodes"][i], root["nodes"][i + 1] = root["nodes"][i + 1], root["nodes"][i]
            flags.append("unsorted")
        elif kind == "detached_top" and root["nodes"]:
            d = g.value()
            g.detached.append(d)
            rng.choice(root["nodes"])["ins"].append(d)
            flags.append("detached")
        elif kind == "detached_nested" and nested and any(s["nodes"] for s in nested):
            d = g.value()
            g.detached.append(d)
            rng.choice([s for s in nested if s["nodes"]])["nodes"][0]["ins"].append(d)
            flags.append("detached")
        elif kind == "dupname":
            cands = [v for v, i in g.values.items() if not i["init"]]
            if len(cands) >= 2:
                a, b = rng.sample(cands, 2)
                g.values[b]["name"] = g.values[a]["name"]
                flags.append("dupname")
        elif kind == "noname":
            cands = [o for n in _all_nodes(root) for o in n["outs"]]
            if cands:
                g.values[rng.choice(cands)]["name"] = rng.choice(["", None])
                flags.append("noname")
        elif kind == "sibling" and len(nested) >= 2:
            a, b = rng.sample(nested, 2)
            la = [o for n in a["nodes"] for o in n["outs"]]
            if la and b["nodes"]:
                b["nodes"][-1]["ins"].append(rng.choice(la))
                flags.append("scope-leak")
    # sharding annotations (structural graphs only; they are never serialised): a node shards some of its own
    # float inputs/outputs, at any depth — the extracted graph must not keep a reference to the source's Values
    if mode == "structural" and rng.random() < 0.5:
        for n in _all_nodes(root):
            if rng.random() < 0.35:
                cands = [v for v in list(dict.fromkeys([i for i in n["ins"] if i is not None] + n["outs"]))
                         if not g.values[v]["bool"]]
                if cands:
                    n["shard"] = rng.sample(cands, min(len(cands), rng.randrange(1, 3)))
    # const_value on values that are NOT initializers (graph inputs, node outputs at any depth) and — structural
    # graphs only, they cannot be serialised for evaluation — initializers WITHOUT const_value: irrelevant to the cut
    if rng.random() < 0.5:
        for k, info in g.values.items():
            if not info["init"] and not info["bool"] and k not in g.detached and rng.random() < 0.25:
                info["const"] = True
    if mode == "structural" and rng.random() < 0.2:
        for k, info in g.values.items():
            if info["init"] and rng.random() < 0.5:
                info["noconst"] = True
    # shadowing (well-formed for the IR, in the oracle's domain): a value defined inside a body of node i gets
    # the name of a value of the main graph produced by a LATER node, so that a recursive name table would
    # meet the inner value first; boundary names must still denote the values of the graph being extracted
    shadowed = []
    if not flags and rng.random() < 0.4:
        for i, n in enumerate(root["nodes"]):
            inner = [o for s_ in n["subs"] for m in _all_nodes(s_) for o in m["outs"]]
            later = [o for m in root["nodes"][i + 1:] for o in m["outs"]]
            if inner and later and rng.random() < 0.7:
                a, t = rng.choice(inner), rng.choice(later)
                if g.values[a]["name"] == f"v{a}" and t not in shadowed:
                    g.values[a]["name"] = g.values[t]["name"]
                    shadowed.append(t)
    return {"mode": mode, "values": {str(k): v for k, v in g.values.items()}, "root": root,
            "detached": g.detached, "flags": flags, "shadowed": shadowed}


# =========================================================================== implementation side

class Built:
    """The ir objects of a spec plus the id tables used to canonicalise observations."""

    def __init__(self, spec: dict):
        import onnx_ir as ir
        self.ir = ir
        self.spec = spec
        F, B = ir.TensorType(ir.DataType.FLOAT), ir.TensorType(ir.DataType.BOOL)
        self.vals: dict[int, object] = {}
        for k, info in spec["values"].items():
            vid = int(k)
            if info["bool"]:
                v = ir.Value(name=info["name"], type=B, shape=ir.Shape([]))
            else:
                v = ir.Value(name=info["name"], type=F, shape=ir.Shape([2]))
            if (info["init"] and not info.get("noconst")) or info.get("const"):
                # const_value is set on initializers (unless "noconst") and, independently, on some graph inputs
                # and node outputs ("const"): being an initializer is graph membership, not "has a constant"
                arr = np.array([(vid * 7) % 5 - 1.5, (vid * 3) % 4 + 0.25], dtype=np.float32)
                v.const_value = ir.tensor(arr, name=info["name"])
            self.vals[vid] = v
        self.nodes: dict[int, object] = {}
        self.graphs: dict[int, object] = {}
        self.root = self._graph(spec["root"], True)
        self.vid_of = {id(v): k for k, v in self.vals.items()}
        self.nid_of = {id(n): k for k, n in self.nodes.items()}
        self.gid_of = {id(g): k for k, g in self.graphs.items()}
        # name codes: 0 for None/"", 1.. for distinct names
        self.name_code: dict[str, int] = {}
        for k in sorted(self.vals):
            nm = self.vals[k].name
            if nm and nm not in self.name_code:
                self.name_code[nm] = len(self.name_code) + 1

    def _graph(self, G: dict, root: bool = False):
        ir = self.ir
        nodes = [self._node(N) for N in G["nodes"]]
        g = ir.Graph([self.vals[i] for i in G["inputs"]], [self.vals[o] for o in G["outputs"]], nodes=nodes,
                     initializers=[self.vals[i] for i in G["inits"]], name=f"g{G['gid']}",
                     opset_imports={"": 20} if root else None)
        self.graphs[G["gid"]] = g
        return g

    def _node(self, N: dict):
        ir = self.ir
        subs = [self._graph(S) for S in N["subs"]]
        if N["op"] == "If":
            attrs = [ir.AttrGraph("then_branch", subs[0]), ir.AttrGraph("else_branch", subs[1])]
        elif N["graphs_attr"]:
            attrs = [ir.AttrGraphs("branches", subs)]
        else:
            attrs = [ir.AttrGraph(f"body{i}", s) for i, s in enumerate(subs)]
        n = ir.Node("", N["op"], [None if i is None else self.vals[i] for i in N["ins"]], attrs,
                    outputs=[self.vals[o] for o in N["outs"]], name=f"n{N['nid']}")
        for vid in N.get("shard", []):
            # multi-device annotation through the public API (Node.shard only accepts the node's own
            # inputs/outputs): a ShardingSpec holds a reference to the Value object
            if getattr(self, "_mdcfg", None) is None:
                from onnx_ir import _multi_device as md
                self._mdcfg = md.ModelConfiguration(name="tp", num_devices=2)
            n.shard(self.vals[vid], configuration=self._mdcfg, axis=0, num_shards=2, device_indices=(0, 1))
        self.nodes[N["nid"]] = n
        return n

    def code(self, name) -> int:
        if not name:
            return 0
        return self.name_code.get(name, UNKNOWN_NAME)

    def heap(self) -> list[tuple[int, tuple]]:
        """What the extractor/analysis read through pointers: value.graph, value.producer(),
        value.is_initializer(), value.name — observed on the implementation."""
        rows = []
        for vid in sorted(self.vals):
            v = self.vals[vid]
            g = v.graph
            owner = None if g is None else self.gid_of.get(id(g), UNKNOWN_GID)
            p = v.producer()
            rows.append((vid, (owner, None if p is None else self.nid_of.get(id(p), 998),
                               bool(v.is_initializer()), self.code(v.name))))
        return rows

    def source(self, src: dict):
        """src = {"kind": "graph"|"function"|"view", "nodes": [nid], "inputs": [vid], "inits": [vid],
        "outputs": [vid]}  (lists only for views)."""
        ir = self.ir
        if src["kind"] == "graph":
            return self.root
        if src["kind"] == "function":
            return ir.Function("dom", "fn", graph=self.root, attributes=[])
        return ir.GraphView([self.vals[i] for i in src["inputs"]], [self.vals[o] for o in src["outputs"]],
                            nodes=[self.nodes[n] for n in src["nodes"]],
                            initializers=[self.vals[i] for i in src["inits"]], name="view",
                            opset_imports={"": 20})

    def ref(self, r):
        return self.vals[r[1]] if r[0] == "o" else r[1]


def snapshot(B: Built) -> tuple:
    return tuple((n.name, tuple(id(i) for i in n.inputs), tuple(id(o) for o in n.outputs), id(n.graph))
                 for n in B.ir.traversal.RecursiveGraphIterator(B.root)) + tuple(
        (id(v.graph), id(v.producer()), v.is_initializer(), v.name) for v in B.vals.values())


def _objects(graph) -> set[int]:
    """ids of every Graph/Node/Value object reachable from a graph."""
    seen: set[int] = set()

    def go(g):
        seen.add(id(g))
        for v in itertools.chain(g.inputs, g.outputs, g.initializers.values()):
            seen.add(id(v))
        for n in g:
            seen.add(id(n))
            for v in itertools.chain(n.inputs, n.outputs):
                if v is not None:
                    seen.add(id(v))
            for conf in getattr(n, "device_configurations", ()) or ():
                for sp in conf.sharding_specs:      # ShardingSpec.value is a reference to a Value object
                    if sp.value is not None:
                        seen.add(id(sp.value))
            for a in n.attributes.values():
                if a.type.name == "GRAPH":
                    go(a.as_graph())
                elif a.type.name == "GRAPHS":
                    for s in a.as_graphs():
                        go(s)
    go(graph)
    return seen


def run_extract(B: Built, src: dict, inputs: list, outputs: list, want_graph: bool = False) -> dict:
    """Run convenience.extract on the implementation; canonical observation."""
    ir = B.ir
    gl = B.source(src)
    try:
        res = ir.convenience.extract(gl, [B.ref(r) for r in inputs], [B.ref(r) for r in outputs])
    except Exception as e:  # noqa: BLE001
        return {"kind": "raise", "exn": common.exn_name(e), "msg": str(e)[:160]}
    nid_by_name = {n.name: k for k, n in B.nodes.items()}
    # names of the result's initializers -> value ids: the source's initializers first, then any top-level value
    # (an initializer of the result that is not one of the source is reported under its own id)
    vid_by_name = {}
    for k in top_values(B.spec):
        nm = B.vals[k].name
        if nm and nm not in vid_by_name:
            vid_by_name[nm] = k
    for k, v in B.vals.items():
        if v.is_initializer():
            vid_by_name[v.name] = k
    obs = {"kind": "ok",
           "nodes": [nid_by_name.get(n.name, 0) for n in res],
           "inits": sorted(vid_by_name.get(nm, 0) for nm in res.initializers),
           "in_names": [B.code(v.name) for v in res.inputs],
           "out_names": [B.code(v.name) for v in res.outputs],
           "in_strs": [v.name for v in res.inputs], "out_strs": [v.name for v in res.outputs]}
    obs["sharding_specs"] = sum(len(conf.sharding_specs) for n in B.ir.traversal.RecursiveGraphIterator(res)
                                for conf in (n.device_configurations or ()))
    src_objs = _objects(B.root) | {id(v) for v in B.vals.values()}
    obs["shared_objects"] = len(_objects(res) & src_objs)
    if want_graph:
        obs["graph"] = res
    return obs


def run_analyze(B: Built) -> dict:
    from onnx_ir.analysis import analyze_implicit_usage
    try:
        r = analyze_implicit_usage(B.root)
    except Exception as e:  # noqa: BLE001
        return {"kind": "raise", "exn": common.exn_name(e)}
    return {"kind": "ok", "usages": [[B.gid_of.get(id(g), UNKNOWN_GID), sorted(B.vid_of.get(id(v), 0) for v in s)]
                                     for g, s in r.items()]}


# =========================================================================== brute-force oracle (the property)

def _defs_rec(G: dict) -> set[int]:
    d = set(G["inputs"]) | set(G["inits"])
    for n in G["nodes"]:
        d |= set(n["outs"])
        for s in n["subs"]:
            d |= _defs_rec(s)
    return d


def _uses_rec(G: dict) -> set[int]:
    return {i for n in _all_nodes(G) for i in n["ins"] if i is not None}


def brute_captures(spec: dict) -> dict[int, list[int]]:
    """For every nested graph: values used in it or deeper that are defined outside it."""
    out = {}
    for S in list(_all_graphs(spec["root"]))[1:]:
        out[S["gid"]] = sorted(_uses_rec(S) - _defs_rec(S))
    return out


def brute_region(spec: dict, src_nids: list[int], inputs: list[int], outputs: list[int]) -> dict:
    """Least set of nodes closed under 'producer of a needed value' from the outputs, stopping at inputs."""
    root = spec["root"]
    prod = {o: n for n in root["nodes"] for o in n["outs"]}
    needs = {}
    for n in root["nodes"]:
        inner_defs = set().union(*[_defs_rec(s) for s in n["subs"]]) if n["subs"] else set()
        inner_uses = set().union(*[_uses_rec(s) for s in n["subs"]]) if n["subs"] else set()
        needs[n["nid"]] = ({i for i in n["ins"] if i is not None}, inner_uses - inner_defs)
    needed_vals, nodes, changed = set(outputs), set(), True
    while changed:
        changed = False
        for v in list(needed_vals):
            if v in inputs or v not in prod:
                continue
            n = prod[v]["nid"]
            if n not in nodes:
                nodes.add(n)
                changed = True
            new = (needs[n][0] | needs[n][1]) - needed_vals
            if new:
                needed_vals |= new
                changed = True
    isinit = lambda v: spec["values"][str(v)]["init"]  # noqa: E731
    leaves = {v for v in needed_vals if v not in prod and v not in inputs}
    return {"nodes": [n["nid"] for n in root["nodes"] if n["nid"] in nodes],
            "needed_inits": sorted(v for v in needed_vals if isinit(v) and v not in inputs),
            "input_inits": sorted(v for v in inputs if isinit(v)),
            "must_raise": any(not isinit(v) for v in leaves),
            "in_view": all(n in src_nids for n in nodes)}


def source_values(B: Built, feed_seed: int) -> dict | None:
    """All top-level values of the source graph under seeded feeds (onnx.reference)."""
    from onnx.reference import ReferenceEvaluator
    ir = B.ir
    rng = random.Random(feed_seed)
    feeds = {}
    for v in B.root.inputs:
        if B.spec["values"][str(B.vid_of[id(v)])]["init"]:
            continue        # input with a default (decided from the structure, not from the accessor): the source runs on the default, which is what extraction carries along
        if v.type.dtype == ir.DataType.BOOL:
            feeds[v.name] = np.array(rng.random() < 0.5)
        else:
            feeds[v.name] = np.array([rng.randrange(-8, 9) / 2, rng.randrange(-8, 9) / 2], dtype=np.float32)
    proto = ir.serde.serialize_model(ir.Model(B.root, ir_version=10))
    return ReferenceEvaluator(proto).run(None, feeds, intermediate=True)


def eval_extracted(B: Built, graph, srcvals: dict, in_names: list[str], out_names: list[str]) -> list[str]:
    from onnx.reference import ReferenceEvaluator
    ir = B.ir
    proto = ir.serde.serialize_model(ir.Model(graph, ir_version=10))
    feeds = {n: srcvals[n] for n in in_names}
    got = ReferenceEvaluator(proto).run(out_names, feeds)
    bad = []
    for n, g in zip(out_names, got):
        w = srcvals[n]
        if np.asarray(g).tobytes() != np.asarray(w).tobytes():
            bad.append(f"output {n}: extracted graph gives {np.asarray(g).tolist()}, source has {np.asarray(w).tolist()}")
    return bad


def oracle_extract(spec: dict, B: Built, src: dict, inputs: list, outputs: list, obs: dict,
                   evaluate: bool = True) -> list[str]:
    """The property, judged from public behaviour only.  Reading of the English (weaker where ambiguous):
    * domain = well-formed sources (flags empty: topologically sorted, every value defined once in an
      enclosing scope, unique non-empty names) and boundary references that denote top-level values of the
      source; anything else is only compared with the model, not judged;
    * "raises instead": any exception type;
    * a value that is both a graph input and an initializer (an overridable default) and is needed but not named
      in `inputs` is carried along as an initializer — the cut is bounded, extract must not raise; the source is
      evaluated on the default;
    * "every initializer they need": result initializers ⊇ needed ones and ⊆ needed ∪ listed-input initializers."""
    if spec["flags"] or not outputs:
        return []
    root = spec["root"]
    top = set(root["inputs"]) | set(root["inits"]) | {o for n in root["nodes"] for o in n["outs"]}
    by_name = {spec["values"][str(v)]["name"]: v for v in top}

    def res(r):
        return r[1] if r[0] == "o" else by_name.get(r[1])
    ins, outs = [res(r) for r in inputs], [res(r) for r in outputs]
    if src["kind"] != "view" and any(r[0] == "n" and r[1] not in by_name for r in inputs + outputs):
        # "ValueError: If any of the inputs or outputs are not found in the graph" — a name that only exists
        # inside a nested body (or nowhere) is not a value of the graph
        if obs["kind"] != "raise":
            return [f"a boundary name that is not a value of the graph was accepted: "
                    f"{[r[1] for r in inputs + outputs if r[0] == 'n' and r[1] not in by_name]}"]
        return []
    if any(v is None or v not in top for v in ins + outs):
        return []
    if src["kind"] == "view":
        order = [n["nid"] for n in root["nodes"] if n["nid"] in src["nodes"]]
        if order != src["nodes"]:
            return []          # a view listing its nodes out of topological order is an unsorted source
        # a view only knows the names of its own inputs/initializers/node inputs+outputs
        known = set(src["inputs"]) | set(src["inits"])
        for n in root["nodes"]:
            if n["nid"] in src["nodes"]:
                known |= {i for i in n["ins"] if i is not None} | set(n["outs"])
        if any(r[0] == "n" and by_name.get(r[1]) not in known for r in inputs + outputs):
            return []
    src_nids = src["nodes"] if src["kind"] == "view" else [n["nid"] for n in root["nodes"]]
    exp = brute_region(spec, src_nids, ins, outs)
    if not exp["in_view"]:
        return []
    bad = []
    if exp["must_raise"]:
        if obs["kind"] != "raise":
            bad.append("a needed non-initializer value is covered neither by a producer in the region nor by `inputs`, "
                       "but extract returned a graph")
        return bad
    if obs["kind"] == "raise":
        return [f"bounded region, but extract raised {obs['exn']}: {obs.get('msg', '')[:100]}"]
    if obs["nodes"] != exp["nodes"]:
        bad.append(f"nodes {obs['nodes']} != least closed set in original order {exp['nodes']}")
    if not (set(exp["needed_inits"]) <= set(obs["inits"]) <= set(exp["needed_inits"]) | set(exp["input_inits"])):
        bad.append(f"initializers {obs['inits']} vs needed {exp['needed_inits']} (+ listed {exp['input_inits']})")
    names = lambda l: [spec["values"][str(v)]["name"] for v in l]  # noqa: E731
    if obs["in_strs"] != names(ins) or obs["out_strs"] != names(outs):
        bad.append("inputs/outputs of the result are not the requested boundary")
    if obs["shared_objects"]:
        bad.append(f"result shares {obs['shared_objects']} Graph/Node/Value objects with the source")
    if any(r[0] == "n" for r in inputs + outputs):
        # the same cut given by object must give the same result
        o2 = run_extract(B, src, [["o", v] for v in ins], [["o", v] for v in outs])
        same = o2["kind"] == obs["kind"] and all(o2.get(k) == obs.get(k)
                                                 for k in ("nodes", "inits", "in_strs", "out_strs"))
        if not same:
            bad.append(f"by-name and by-object extraction of the same cut differ: by name {obs.get('nodes')}, "
                       f"by object {o2.get('nodes', o2.get('exn'))}")
    if evaluate and spec["mode"] == "numeric" and not bad and "graph" in obs:
        if getattr(B, "_srcvals", None) is None:
            B._srcvals = [source_values(B, s) for s in (1, 2)]
        for sv in B._srcvals:
            try:
                bad += eval_extracted(B, obs["graph"], sv, obs["in_strs"], obs["out_strs"])
            except Exception as e:  # noqa: BLE001
                bad.append(f"extracted graph cannot be evaluated: {type(e).__name__}: {str(e)[:120]}")
                break
    return bad


def oracle_analyze(spec: dict, obs: dict) -> list[str]:
    if spec["flags"]:
        return []
    if obs["kind"] != "ok":
        return [f"analyze_implicit_usage raised {obs['exn']} on a well-scoped graph"]
    want = brute_captures(spec)
    got = {g: vs for g, vs in obs["usages"]}
    if got != want:
        return [f"captures {got} != brute-force scope computation {want}"]
    return []


# =========================================================================== cuts

def top_values(spec: dict) -> list[int]:
    root = spec["root"]
    return list(dict.fromkeys(root["inputs"] + root["inits"] + [o for n in root["nodes"] for o in n["outs"]]))


def mk_ref(spec: dict, v: int, by_name: bool):
    nm = spec["values"][str(v)]["name"]
    return ["n", nm] if by_name and nm else ["o", v]


def all_cuts(spec: dict, max_cuts: int, rng):
    tv = top_values(spec)
    subsets = [list(c) for k in range(len(tv) + 1) for c in itertools.combinations(tv, k)]
    outs = [s for s in subsets if 1 <= len(s) <= 2]
    cuts = [(i, o) for i in subsets for o in outs]
    if len(cuts) > max_cuts:
        cuts = rng.sample(cuts, max_cuts)
    return cuts


def random_cut(spec: dict, rng) -> tuple[list[int], list[int]]:
    """Mostly bounded cuts: start from the true leaves of the outputs' cone, move the frontier inwards at
    random places, then sometimes drop one input (unbounded) or add unused ones."""
    root = spec["root"]
    tv = top_values(spec)
    produced = [o for n in root["nodes"] for o in n["outs"]]
    outs = rng.sample(produced or tv, min(len(produced or tv), rng.choice([1, 1, 2])))
    if rng.random() < 0.1:
        outs.append(rng.choice(tv))
    ins: list[int] = []
    for _ in range(rng.randrange(0, 3)):
        ins.append(rng.choice(tv))
    reg = brute_region(spec, [n["nid"] for n in root["nodes"]], ins, outs)
    # add the leaves that are still missing
    prod = {o: n for n in root["nodes"] for o in n["outs"]}
    needed = set(outs)
    for n in root["nodes"][::-1]:
        if n["nid"] in reg["nodes"]:
            needed |= {i for i in n["ins"] if i is not None}
            for s in n["subs"]:
                needed |= _uses_rec(s) - _defs_rec(s)
    isinit = lambda v: spec["values"][str(v)]["init"]  # noqa: E731
    for v in sorted(needed):
        if v not in prod and v not in ins and (not isinit(v) or rng.random() < 0.3):
            ins.append(v)
    r = rng.random()
    if r < 0.25 and ins:
        ins.pop(rng.randrange(len(ins)))
    elif r < 0.4:
        ins.append(rng.choice(tv))
    rng.shuffle(ins)
    return ins, outs


def gen_cuts(spec: dict, rng, n: int, exhaustive: bool) -> list[dict]:
    """Cut = {"src": {...}, "inputs": [ref], "outputs": [ref]}"""
    root = spec["root"]
    tv = top_values(spec)
    pairs = all_cuts(spec, n, rng) if exhaustive else [random_cut(spec, rng) for _ in range(n)]
    nested_vals = [o for g in list(_all_graphs(root))[1:] for nn in g["nodes"] for o in nn["outs"]]
    cuts = []
    for idx, (ins, outs) in enumerate(pairs):
        r = rng.random()
        if r < 0.72:
            src = {"kind": "graph"}
        elif r < 0.82:
            src = {"kind": "function"}
        else:
            nids = [nn["nid"] for nn in root["nodes"]]
            rr = rng.random()
            if rr < 0.5:
                sel = nids
            elif rr < 0.85:
                a = rng.randrange(len(nids) + 1)
                b = rng.randrange(a, len(nids) + 1)
                sel = nids[a:b]
            else:
                sel = [x for x in nids if rng.random() < 0.7]
            vin = [v for v in tv if rng.random() < 0.4 and not spec["values"][str(v)]["init"]]
            src = {"kind": "view", "nodes": sel, "inputs": vin,
                   "inits": [v for v in root["inits"] if rng.random() < 0.7], "outputs": list(outs)}
        mode = rng.choice(["obj", "obj", "name", "mixed"])
        sh = spec.get("shadowed") or []
        if sh and rng.random() < 0.5:
            # put the shadowed main-graph value on the boundary, by name
            t = rng.choice(sh)
            if rng.random() < 0.75:
                ins = [t] + [v for v in ins if v != t]
            else:
                outs = [t] + [v for v in outs if v != t][:1]
            mode = "name"
            if src["kind"] == "view":
                src["outputs"] = list(outs)
        bn = lambda: mode == "name" or (mode == "mixed" and rng.random() < 0.5)  # noqa: E731
        irefs = [mk_ref(spec, v, bn()) for v in ins]
        orefs = [mk_ref(spec, v, bn()) for v in outs]
        q = rng.random()
        if q < 0.02:
            irefs.append(["n", "no_such_value"])
        elif q < 0.04 and nested_vals:
            (irefs if rng.random() < 0.5 else orefs).append(["o", rng.choice(nested_vals)])
        elif q < 0.05 and spec["detached"]:
            irefs.append(["o", spec["detached"][0]])
        elif q < 0.06:
            orefs = []
        elif q < 0.08 and nested_vals:
            nm = spec["values"][str(rng.choice(nested_vals))]["name"]
            if nm:
                orefs.append(["n", nm])
        cuts.append({"src": src, "inputs": irefs, "outputs": orefs})
    return cuts


# =========================================================================== Coq case files

def _cnode(N: dict) -> str:
    return "(Node %d %s %s %s)" % (N["nid"], clist(copt(i, str) for i in N["ins"]), clist(map(str, N["outs"])),
                                   clist(_cgraph(S) for S in N["subs"]))


def _cgraph(G: dict) -> str:
    return "(Graph %d %s %s %s %s)" % (G["gid"], clist(map(str, G["inputs"])), clist(map(str, G["inits"])),
                                       clist(_cnode(N) for N in G["nodes"]), clist(map(str, G["outputs"])))


def _cheap(rows) -> str:
    return clist("(%d, VI %s %s %s %d)" % (v, copt(o, str), copt(p, str), "true" if i else "false", nm)
                 for v, (o, p, i, nm) in rows)


def _cref(B: Built, r) -> str:
    return f"ByObj {r[1]}" if r[0] == "o" else f"ByName {B.code(r[1])}"


def _csrc(k: int, src: dict) -> str:
    if src["kind"] == "view":
        return "(SRC KView 0 %s %s (sel u%d %s))" % (clist(map(str, src["inputs"])), clist(map(str, src["inits"])),
                                                      k, clist(map(str, src["nodes"])))
    kind = "KGraph" if src["kind"] == "graph" else "KFunction"
    return f"(SRC {kind} (g_id g{k}) (g_inputs g{k}) (g_inits g{k}) (g_body g{k}))"


def _cobs(obs: dict) -> str:
    if obs["kind"] == "raise":
        return f"(Raise {obs['exn']})"
    nl = lambda l: clist(map(str, l))  # noqa: E731
    return f"(Ok ({nl(obs['nodes'])}, {nl(obs['inits'])}, {nl(obs['in_names'])}, {nl(obs['out_names'])}))"


def _cusages(obs: dict) -> str:
    if obs["kind"] == "raise":
        return f"(Raise {obs['exn']})"
    return "(Ok %s)" % clist("(%d, %s)" % (g, clist(map(str, vs))) for g, vs in obs["usages"])


CASE_HEADER = """From Coq Require Import List Bool Arith.
From IRV Require Import Base.Exn C18.Model.
Import ListNotations.
Open Scope nat_scope.
Definition obs := (list nat * list nat * list nat * list nat)%type.
Definition sel (univ : list node) (ids : list nat) : list node :=
  flat_map (fun i => match lookup_node univ i with Some n => [n] | None => [] end) ids.
Definition agree_extract (h : heap) (univ : list node) (c : source * list ref * list ref * res obs) : bool :=
  let '(s, i, o, r) := c in
  let nm v := v_name (hget h v) in
  match extract h univ s i o, r with
  | Ok e, Ok (ns, inis, inames, onames) =>
      list_eqb Nat.eqb (e_nodes e) ns && set_eqb (e_inits e) inis
      && list_eqb Nat.eqb (map nm (e_inputs e)) inames && list_eqb Nat.eqb (map nm (e_outputs e)) onames
  | Raise a, Raise b => exn_eqb a b
  | _, _ => false
  end.
Definition agree_analyze (h : heap) (g : graph) (r : res usages) : bool :=
  res_eqb usages_eqb (analyze (fun v => v_owner (hget h v)) g) r.
"""


def case_file(groups: list[dict]) -> str:
    """groups: [{"spec", "B", "heap", "cuts": [(cut, obs)], "an": obs}]"""
    parts = [CASE_HEADER]
    for k, gr in enumerate(groups):
        parts.append(f"Definition g{k} : graph := {_cgraph(gr['spec']['root'])}.\n")
        parts.append(f"Definition u{k} : list node := rec_nodes_g g{k}.\n")
        parts.append(f"Definition h{k} : heap := {_cheap(gr['heap'])}.\n")
        # the table the model runs on is DERIVED from the structure (names are generator data); h{k} — the
        # accessors observed on the implementation — is only compared with it (accessor pin)
        parts.append(f"Definition d{k} : heap := d_heap g{k} "
                     + clist("(%d, %d)" % (v, nm) for v, (_, _, _, nm) in gr["heap"]) + " "
                     + clist(str(v) for v, _ in gr["heap"]) + ".\n")
        rows = ["(%s, %s, %s, %s)" % (_csrc(k, c["src"]), clist(_cref(gr["B"], r) for r in c["inputs"]),
                                      clist(_cref(gr["B"], r) for r in c["outputs"]), _cobs(o))
                for c, o in gr["cuts"]]
        parts.append(f"Definition c{k} : list (source * list ref * list ref * res obs) :=\n  "
                     + clist(rows).replace("; (SRC", ";\n  (SRC") + ".\n")
    parts.append("Eval vm_compute in " + clist(f"failing (agree_extract d{k} u{k}) c{k}" for k in range(len(groups))) + ".\n")
    parts.append("Eval vm_compute in (failing (fun b : bool => b) "
                 + clist(f"agree_analyze d{k} g{k} {_cusages(gr['an'])}" for k, gr in enumerate(groups)) + ").\n")
    parts.append("Eval vm_compute in (failing (fun b : bool => b) "
                 + clist(f"heap_eqb d{k} h{k}" for k in range(len(groups))) + ").\n")
    parts.append("Eval vm_compute in (failing (fun b : bool => b) "
                 + clist(f"wf_b g{k}" for k in range(len(groups))) + ").\n")
    return "".join(parts)


def parse_case_output(out: str, ngroups: int):
    chunks = re.split(r"^\s*=\s", out, flags=re.M)[1:]
    if len(chunks) != 4:
        raise RuntimeError("unexpected case file output:\n" + out[-3000:])

    def strip_type(s):
        return s[:s.rfind(":")] if ":" in s else s
    a = strip_type(chunks[0])
    inner = re.findall(r"\[([^\[\]]*)\]", a[a.find("[") + 1:]) if "[" in a else []
    # `[[]; [1; 2]]` -> inner lists; an outer empty list cannot happen (ngroups >= 1)
    ext = [[int(x) for x in re.findall(r"\d+", s)] for s in inner]
    if len(ext) != ngroups:
        raise RuntimeError(f"expected {ngroups} groups, parsed {len(ext)}:\n" + out[-2000:])
    b = strip_type(chunks[1])
    an = [int(x) for x in re.findall(r"\d+", b)]
    pins = [int(x) for x in re.findall(r"\d+", strip_type(chunks[2]))]
    notwf = [int(x) for x in re.findall(r"\d+", strip_type(chunks[3]))]
    return ext, an, pins, notwf


# =========================================================================== driving one graph

def gen_edit(spec: dict, rng) -> dict | None:
    """An edit of a nested body that changes what it reads from the main graph: input k of a node inside a body
    (any depth) of main-graph node i is replaced by a main-graph value defined before node i."""
    root = spec["root"]
    cands = []
    for i, n in enumerate(root["nodes"]):
        if not n["subs"]:
            continue
        avail = [v for v in root["inputs"] + root["inits"] + [o for m in root["nodes"][:i] for o in m["outs"]]
                 if not spec["values"][str(v)]["bool"]]
        for s_ in n["subs"]:
            for m in _all_nodes(s_):
                if m["op"] == "If":
                    continue
                for k, old in enumerate(m["ins"]):
                    new = [v for v in avail if v != old]
                    if old is not None and new:
                        cands.append({"top": n["nid"], "nid": m["nid"], "k": k, "new": rng.choice(new)})
    return rng.choice(cands) if cands else None


def apply_edit_spec(spec: dict, edit: dict) -> dict:
    s2 = json.loads(json.dumps(spec))
    for n in _all_nodes(s2["root"]):
        if n["nid"] == edit["nid"]:
            old = n["ins"][edit["k"]]
            n["ins"][edit["k"]] = edit["new"]
            if old in n.get("shard", []) and old not in n["ins"] + n["outs"]:
                n["shard"] = [v for v in n["shard"] if v != old]     # replace_input_with drops the spec
    return s2


def apply_edit_live(B: "Built", edit: dict, spec2: dict) -> None:
    """The same edit on the live objects, through the public mutator."""
    B.nodes[edit["nid"]].replace_input_with(edit["k"], B.vals[edit["new"]])
    B.spec = spec2
    B._srcvals = None


def history_cuts(spec: dict, rng, edit: dict, n_random: int) -> list[dict]:
    root = spec["root"]
    G = {"kind": "graph"}
    ins = [v for v in root["inputs"]]
    full = {"src": G, "inputs": [["o", v] for v in ins], "outputs": [["o", v] for v in root["outputs"]]}
    top = next(n for n in root["nodes"] if n["nid"] == edit["top"])
    tgt = {"src": G, "inputs": [mk_ref(spec, v, True) for v in ins], "outputs": [mk_ref(spec, top["outs"][0], True)]}
    return [full, tgt] + gen_cuts(spec, rng, n_random, exhaustive=False)


def explore_history(ck, spec: dict, rng) -> list[dict]:
    """extract ... -> edit a nested body's captures on the SAME objects -> extract again; every extraction (and
    the capture analysis) is compared with the model / oracle on the structure current at that moment."""
    edit = gen_edit(spec, rng)
    if edit is None:
        return [explore_graph(ck, spec, gen_cuts(spec, rng, 10, exhaustive=False))]
    B = Built(spec)
    pre = history_cuts(spec, rng, edit, 4)
    g1 = explore_graph(ck, spec, pre, B=B)
    spec2 = apply_edit_spec(spec, edit)
    apply_edit_live(B, edit, spec2)
    g2 = explore_graph(ck, spec2, history_cuts(spec2, rng, edit, 10), B=B)
    hist = {"spec0": spec, "pre_cuts": pre, "edit": edit}
    g2["history"] = hist
    for f in g2["oracle_failures"]:
        f["history"] = hist
    return [g1, g2]


def explore_graph(ck, spec: dict, cuts: list[dict], judge: bool = True, B: "Built | None" = None) -> dict:
    """Run the implementation on every cut of one generated graph, judge with the oracle."""
    B = B if B is not None else Built(spec)
    before = snapshot(B)
    heap = B.heap()
    an = run_analyze(B)
    group = {"spec": spec, "B": B, "heap": heap, "cuts": [], "an": an, "oracle_failures": []}
    bad = oracle_analyze(spec, an) if judge else []
    if bad:
        group["oracle_failures"].append({"what": "analyze", "failures": bad})
    if ck is not None:
        ck.count()
        ck.hist("analyze_outcomes", an["kind"] if an["kind"] == "ok" else an["exn"])
        if an["kind"] == "ok" and any(vs for _, vs in an["usages"]):
            ck.nontriv(("an", spec["root"]))
    for c in cuts:
        obs = run_extract(B, c["src"], c["inputs"], c["outputs"], want_graph=judge)
        if judge:
            bad = oracle_extract(spec, B, c["src"], c["inputs"], c["outputs"], obs)
            if bad:
                group["oracle_failures"].append({"what": "extract", "cut": c, "failures": bad})
        obs.pop("graph", None)
        group["cuts"].append((c, obs))
        if ck is not None:
            ck.count()
            ck.hist("extract_outcomes", "ok" if obs["kind"] == "ok" else obs["exn"])
            ck.hist("source_kinds", c["src"]["kind"])
            if obs["kind"] == "ok" and obs["nodes"]:
                ck.nontriv((spec["root"], c))
            if obs["kind"] == "ok" and obs.get("sharding_specs"):
                ck.hist("sharding", "extracted graphs carrying ShardingSpecs")
                ck.hist("sharding", "ShardingSpec references checked", obs["sharding_specs"])
    if snapshot(B) != before:
        group["oracle_failures"].append({"what": "extract", "cut": None,
                                         "failures": ["extract/analyze mutated the source graph"]})
    return group


def run_groups(ck, groups: list[dict], tag: str) -> list[dict]:
    """Model vs implementation inside Coq.  Returns the mismatching cases."""
    files, per = [], 6
    for i in range(0, len(groups), per):
        files.append((f"{tag}_{i // per}", case_file(groups[i:i + per])))
    outs = ck.coq_eval_many(files)
    mism = []
    for fi, (rc, out) in enumerate(outs):
        chunk = groups[fi * per:(fi + 1) * per]
        if rc != 0:
            raise RuntimeError(f"case file {files[fi][0]} did not compile:\n{out[-3000:]}")
        ext, an, pins, notwf = parse_case_output(out, len(chunk))
        ck.hist("accessor_pin", "graphs_compared", len(chunk))
        ck.hist("accessor_pin", "values_compared", sum(len(g["heap"]) for g in chunk))
        ck.hist("structural_wf_b", "true", len(chunk) - len(notwf))
        ck.hist("structural_wf_b", "false", len(notwf))
        for k in pins:
            mism.append({"what": "accessors", "spec": chunk[k]["spec"], "impl": chunk[k]["heap"]})
        for k, idxs in enumerate(ext):
            for j in idxs:
                c, o = chunk[k]["cuts"][j]
                mism.append({"what": "extract", "spec": chunk[k]["spec"], "cut": c, "impl": o,
                             "history": chunk[k].get("history")})
        for k in an:
            mism.append({"what": "analyze", "spec": chunk[k]["spec"], "impl": chunk[k]["an"],
                         "history": chunk[k].get("history")})
    return mism


# =========================================================================== shrinking / search / replay

def _prune_spec(spec: dict) -> list[dict]:
    """Smaller variants of a spec: drop a node (root or nested), drop a sub-graph list, drop an input."""
    out = []

    def variants(G, path):
        for i, n in enumerate(G["nodes"]):
            yield path + [("del", i)]
            if n["subs"] and n["op"] != "If":
                yield path + [("nosubs", i)]
            for k in range(len(n["ins"])):
                yield path + [("delin", i, k)]
            for j, S in enumerate(n["subs"]):
                yield from variants(S, path + [("sub", i, j)])
    for v in variants(spec["root"], []):
        c = json.loads(json.dumps(spec))
        G = c["root"]
        ok = True
        for step in v:
            if step[0] == "sub":
                G = G["nodes"][step[1]]["subs"][step[2]]
            elif step[0] == "del":
                dead = set(G["nodes"][step[1]]["outs"])
                del G["nodes"][step[1]]
                if any(i in dead for g in _all_graphs(c["root"]) for n in g["nodes"] for i in n["ins"]) or \
                        any(o in dead for g in _all_graphs(c["root"]) for o in g["outputs"]):
                    ok = False
            elif step[0] == "nosubs":
                G["nodes"][step[1]]["subs"] = []
            elif step[0] == "delin":
                n = G["nodes"][step[1]]
                if n["op"] in ("Multi", "Body", "Branches"):
                    del n["ins"][step[2]]
                else:
                    ok = False
        if ok:
            out.append(c)
    return out


def _cut_ok_for(spec: dict, cut: dict) -> bool:
    vals = {int(k) for k in spec["values"]}
    live = {v for g in _all_graphs(spec["root"]) for v in g["inputs"] + g["inits"]} | \
           {o for n in _all_nodes(spec["root"]) for o in n["outs"]} | set(spec["detached"])
    nids = {n["nid"] for n in spec["root"]["nodes"]}
    for r in cut["inputs"] + cut["outputs"]:
        if r[0] == "o" and (r[1] not in vals or r[1] not in live):
            return False
    if cut["src"]["kind"] == "view":
        if any(n not in nids for n in cut["src"]["nodes"]):
            return False
        if any(v not in live for v in cut["src"]["inputs"] + cut["src"]["inits"] + cut["src"]["outputs"]):
            return False
    return True


def build_with_history(spec: dict, history: dict | None) -> "Built":
    """The live objects for `spec`; with a history: built from the earlier structure, the earlier extractions
    run on them, then the edit applied (same process, same Graph/Node objects)."""
    if not history:
        return Built(spec)
    B = Built(history["spec0"])
    for c in history["pre_cuts"]:
        run_extract(B, c["src"], c["inputs"], c["outputs"])
    apply_edit_live(B, history["edit"], spec)
    return B


def judge_case(spec: dict, cut: dict | None, history: dict | None = None) -> list[str]:
    """Oracle verdict for one (graph, cut) — or the capture analysis when cut is None — on the implementation."""
    B = build_with_history(spec, history)
    if cut is None:
        return oracle_analyze(spec, run_analyze(B))
    obs = run_extract(B, cut["src"], cut["inputs"], cut["outputs"], want_graph=True)
    return oracle_extract(spec, B, cut["src"], cut["inputs"], cut["outputs"], obs)


def shrink(spec: dict, cut: dict | None) -> tuple[dict, dict | None]:
    def fails(s, c):
        try:
            return bool(judge_case(s, c))
        except Exception:  # noqa: BLE001
            return False
    changed = True
    rounds = 0
    while changed and rounds < 40:
        changed = False
        rounds += 1
        for s2 in _prune_spec(spec):
            if cut is not None and not _cut_ok_for(s2, cut):
                continue
            if fails(s2, cut):
                spec, changed = s2, True
                break
        if cut is not None:
            for key in ("inputs", "outputs"):
                for i in range(len(cut[key])):
                    c2 = json.loads(json.dumps(cut))
                    del c2[key][i]
                    if fails(spec, c2):
                        cut, changed = c2, True
                        break
            if cut["src"]["kind"] != "graph":
                c2 = dict(cut, src={"kind": "graph"})
                if fails(spec, c2):
                    cut, changed = c2, True
    return spec, cut


def report_oracle_failure(ck, spec: dict, f: dict, extra: dict | None = None) -> None:
    cut = f.get("cut")
    if f["what"] == "extract" and cut is None:
        ck.violation({"kind": "oracle", "what": "source mutated", "spec": spec, "failures": f["failures"]})
        return
    hist = f.get("history")
    if hist:
        # history-dependent failure: keep the structure, minimise the earlier extractions
        for c in hist["pre_cuts"]:
            h1 = dict(hist, pre_cuts=[c])
            if judge_case(spec, cut, h1):
                hist = h1
                break
        if not judge_case(spec, cut, hist) and judge_case(spec, cut):
            hist = None                      # fails without any history: report it as an ordinary case
    if hist:
        rp = {"kind": "oracle", "what": f["what"], "spec": spec, "cut": cut, "history": hist,
              "failures": judge_case(spec, cut, hist), "broken": ck.broken_items}
        if extra:
            rp.update(extra)
        ck.violation(rp)
        return
    s2, c2 = shrink(spec, cut)
    rp = {"kind": "oracle", "what": f["what"], "spec": s2, "cut": c2, "failures": judge_case(s2, c2),
          "broken": ck.broken_items}
    if extra:
        rp.update(extra)
    ck.violation(rp)


def search(ck, focus: list[dict]) -> bool:
    """After a broken obligation / correspondence: oracle on the diverging cases (done by the caller), then
    fresh graphs with exhaustive cuts on small ones and random cuts on larger ones."""
    budget = 150 if not ck.thorough else 1500
    for i in range(budget):
        mode = "numeric" if i % 2 == 0 else "structural"
        size = ck.rng.choice([0, 0, 1, 1, 2])
        spec = gen_spec(ck.rng, mode, size)
        small = len(top_values(spec)) <= 6
        cuts = gen_cuts(spec, ck.rng, 250 if small else 60, exhaustive=small)
        # the search only uses the by-object / by-name Graph source and views; judged by the oracle
        group = explore_graph(ck, spec, cuts)
        if group["oracle_failures"]:
            report_oracle_failure(ck, spec, group["oracle_failures"][0], {"found_by": "search"})
            return True
    return False


def load_corpus() -> list[dict]:
    d = os.path.join(common.CORPUS, "C18")
    out = []
    if os.path.isdir(d):
        for fn in sorted(os.listdir(d)):
            if fn.endswith(".json"):
                with open(os.path.join(d, fn)) as f:
                    out.append(json.load(f))
    return out


def run(ck) -> None:
    import logging
    logging.disable(logging.WARNING)
    ck.trust("Coq 8.16.1 kernel (coqc; vm_compute in case files; no native_compute)",
             "harness/props/c18.py (graph generator, builder, canonical observation of extract / "
             "analyze_implicit_usage, Coq literal printer, brute-force oracle)",
             "hand-written model coq/theories/C18/Model.v, tied by differential execution only (the model's value "
             "table is derived from the structure inside Coq; the implementation's accessors are pinned against it)",
             "statement translator in harness/props/c18.py (class _Tr; sets as duplicate-free lists, stack top at the "
             "head) — its output is proved equal to the hand model in C18/GenEquiv.v on every run",
             "modelled not verified: list.sort by node index modelled as a filter of the original node list; "
             "Python set iteration order (theorems hold for every order); the value-copying part of the cloner "
             "(only its definedness checks are modelled); onnx.reference.ReferenceEvaluator (oracle only)")
    ck.assumptions += ["onnx / numpy as installed in /venv",
                       "value names (name codes) are generator data passed to the model"]
    ck.coverage["rule"] = ("generated graphs (numeric: Add/Mul/Relu/Neg/Identity/Clip/If; structural: also multi-output, "
                           "bodies with inputs, GRAPHS attributes; malformed stream: unsorted, detached values, duplicate/"
                           "empty names, scope leaks) x cuts (all input-subsets x 1-2 outputs for graphs with <= 6 top-level "
                           "values, random mostly-bounded cuts otherwise) x source kind (Graph/Function/GraphView) x "
                           "by-object/by-name. Non-trivial: extract returned a graph with at least one node, or the "
                           "capture analysis returned a non-empty capture set; distinct by (graph, cut).")
    generate(ck)
    ck.prove()
    ck.notes.append("all theorems of Property.v are full strength; C18_semantics_nested does not cover a nested graph "
                    "whose output list names a parent-graph value directly (stated as a hypothesis)")

    groups: list[dict] = []
    # 1. corpus
    for entry in load_corpus():
        groups.append(explore_graph(ck, entry["spec"], entry["cuts"]))
        ck.hist("inputs", "corpus")
    # 2. generated graphs, 3. model vs implementation inside Coq — in batches (bounded memory)
    n_graphs = 100 if not ck.thorough else 2500
    mism: list[dict] = []
    failures: list[tuple[dict, dict]] = []
    validated = 0

    def flush(batch: list[dict], tag: str) -> None:
        nonlocal validated
        if not batch:
            return
        validated += sum(len(g["cuts"]) + 1 for g in batch)
        try:
            mism.extend(run_groups(ck, batch, tag))
        except RuntimeError as e:
            ck.broken("correspondence:case-file", str(e))
        for g in batch:
            failures.extend((g["spec"], f) for f in g["oracle_failures"])

    flush(groups, "corpus")
    groups = []
    for i in range(n_graphs):
        mode = "numeric" if i % 2 == 0 else "structural"
        size = ck.rng.choice([0, 1, 1, 2])
        malform = i % 6 == 5
        spec = gen_spec(ck.rng, mode, size, malform=malform)
        small = len(top_values(spec)) <= 6
        exhaustive = small and i % 3 == 0
        cuts = gen_cuts(spec, ck.rng, 300 if exhaustive else 40, exhaustive=exhaustive)
        groups.append(explore_graph(ck, spec, cuts))
        ck.hist("inputs", mode + ("/malformed:" + ",".join(spec["flags"]) if spec["flags"] else ""))
        ck.hist("cut_enumeration", "all" if exhaustive else "random")
        if i < 2:
            c, o = groups[-1]["cuts"][0]
            ck.sample({"graph": spec["root"], "cut": c, "observed": {k: v for k, v in o.items() if k != "msg"},
                       "captures": groups[-1]["an"]})
        if len(groups) >= 240:
            flush(groups, f"cases{i}")
            groups = []
    flush(groups, "cases_last")
    groups = []
    # histories: extract -> edit a nested body's captures on the same objects -> extract again
    n_hist = 30 if not ck.thorough else 700
    for i in range(n_hist):
        spec = gen_spec(ck.rng, "numeric" if i % 2 == 0 else "structural", ck.rng.choice([1, 1, 2]))
        gs = explore_history(ck, spec, ck.rng)
        ck.hist("inputs", "history" if len(gs) == 2 else "history:no-body-to-edit")
        groups.extend(gs)
        if len(groups) >= 240:
            flush(groups, f"hist{i}")
            groups = []
    flush(groups, "hist_last")
    groups = []
    ck.coverage["traces_validated_against_impl"] = validated
    for m in mism[:5]:
        ck.broken(f"correspondence:{m['what']}",
                  json.dumps({k: v for k, v in m.items()}, default=str)[:3500])
    # 4. oracle failures (no known findings for this property)
    for k in ck._known:
        if k.get("status") == "known":
            bad = judge_case(k["witness"]["spec"], k["witness"].get("cut"))
            if bad:
                ck.known_finding(k["key"], k["what"])
            else:
                ck.broken(f"known-finding-stale:{k['key']}", "the recorded witness no longer fails")
    reported = set()
    for fspec, f in failures:
        sig = (f["what"], tuple(x.split(":")[0][:60] for x in f["failures"]))
        if sig in reported:
            continue
        reported.add(sig)
        report_oracle_failure(ck, fspec, f)
    # 5. broken but no concrete input yet: oracle on the diverging cases first, then fresh search
    if ck.broken_items and not ck.violations:
        for m in mism[:20]:
            bad = judge_case(m["spec"], m.get("cut"), m.get("history"))
            if bad:
                report_oracle_failure(ck, m["spec"], {"what": m["what"] if m.get("cut") else "analyze",
                                                      "cut": m.get("cut"), "failures": bad,
                                                      "history": m.get("history")},
                                      {"found_by": "diverging case"})
                break
        else:
            search(ck, mism)


def replay(rp: dict) -> int:
    import logging
    logging.disable(logging.WARNING)
    spec = rp.get("spec")
    if spec is None:
        print("replay names a broken obligation/correspondence, no concrete input:",
              json.dumps(rp.get("broken"), indent=1)[:3000])
        return 1
    cut = rp.get("cut")
    bad = judge_case(spec, cut, rp.get("history"))
    B = build_with_history(spec, rp.get("history"))
    obs = run_analyze(B) if cut is None else run_extract(B, cut["src"], cut["inputs"], cut["outputs"])
    print(json.dumps({"graph": spec["root"], "history": rp.get("history") and
                      {"edit": rp["history"]["edit"], "earlier_extractions": rp["history"]["pre_cuts"]},
                      "cut": cut, "observed": obs, "failures": bad}, indent=1, default=str))
    return 1 if bad else 0

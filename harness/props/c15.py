"""C15 — generated names never collide; name fixing yields unique names only; bulk renaming is all-or-nothing.

Decided by: Coq theorems (coq/theories/C15/Property.v, 16 theorems, all "Closed under the global context")
about three hand-written executable models in C15/Model.v, each tied to /repo on every run by a
correspondence check evaluated inside Coq (case files, `Eval vm_compute in (failing agree cases)`), plus
property oracles that run the statement itself on the implementation and produce the replays.

Models (C15/Model.v)
  (A) NameAuthority (_name_authority.py) + Graph.__init__/append/extend/insert_* -> astep/arun, gstep/grun.
      Names are lists of code points; `val_<k>` / `node_<op>_<k>` use a decimal printer built on the standard
      library's N.to_uint (injectivity from DecimalN.Unsigned.of_to); the `while True` candidate loop has
      fuel |seen|+1 (pigeonhole proof gen_loop_spec: it never runs out).
  (B) NameFixPass (passes/common/naming.py, AFTER fix 25cf9b5) over RecursiveGraphIterator (traversal.py): the
      traversal is compiled to a flat event list exactly as the iterator calls the callbacks (every subgraph is
      entered twice and exited twice: traversal.py:68 and :85); the pass is a stack machine over those events
      with the two scope stacks, seen_values, the two Counters, the pre-scan _collect_existing_names (reserved
      names), _find_and_record_next_unique_name (fuel |used|+|reserved|+1) and the Value.name setter with
      initializer re-keying (pop + re-insert at the end; ValueError on a clash, state unchanged).
  (C) _convenience.rename_values: dedup of pairs, grouping by graph, validation, pops, renames, re-adds, each
      container operation with the exceptions it can raise (GraphInitializers.__setitem__/__delitem__).

Theorems (Property.v; 31, all closed)
  (A) full: C15_gen_fuel_suffices, C15_fresh, C15_fresh_node (for EVERY history of register calls with arbitrary
      explicit names: a generated name is outside the seen set before the call, outside the initial set, and
      differs from every name of its kind registered or generated earlier), C15_monotone, C15_explicit_kept,
      C15_graph_adding / C15_graph_history (lifting to Graph(...)/append/extend/insert_*, also when the call
      raises half way); C15_graph_fresh_log (the oracle's own statement as a theorem: for every history the name given to
      an unnamed object is not in the LOG of names the graph registered or assigned so far; ProofsA3);
      C15_ctor_generated_equals_present (stronger reading 'not present in the graph being built', true since fix
      f54d66f: explicit names are registered before unnamed inputs are named; was refuted before).
  (GEN) per-run translation: translate_c15 (below) turns NameAuthority._unique_value_name / _unique_node_name /
      register_or_name_value / register_or_name_node and naming._find_and_record_next_unique_name,
      SimpleNameGenerator.generate_*_name, NameFixPass._assign_*_name / _fix_duplicate_*_name statement by statement
      into Gallina (Gen/C15Gen.v; fail-closed: anything outside the subset is a broken obligation); C15/GenEquiv.v proves
      the hand models EQUAL to it: C15_gen_register_value / _node (= astep), C15_gen_find_and_record (= find_unique),
      C15_gen_value_decision / _node_decision, C15_gen_process_value / _process_node_name (the hand models are exactly
      that decision + the hand-modelled Value.name setter).  Not translated (hand model + tie only): the Value.name
      setter, _process_value's seen test, _fix_graph_names' traversal and scope stacks, _collect_existing_names,
      rename_values.
  (B) all full for the fixed code (25cf9b5, 5fabe37), under the hypotheses named in Property.v
      (WF0 = clause I5 of the C01 invariant; closed_run = every initializer the traversal meets belongs to a graph it
      enters; well_scoped2 = every value is first met in the scope of its graph, of an enclosing graph, or of a graph nested in its
      owner (capture from an enclosing graph in any order, handled by the code since 5fabe37; ProofsB16/B17); NoDup nodes):
      C15_fix_fuel_suffices;
      C15_fix_total (whole pass never raises, returns a well-formed state, same initializer sets; invariant
      ProofsB4.TInv: every key of an entered graph is the value's original name (pre-scanned) or <orig>_<j>,
      suffixing is injective in both arguments) + C15_fix_total_unclosed_refuted (closedness is needed: known
      finding) + C15_fix_total_witness_fixed;
      C15_fix_post (one _fix_graph_names run, any nesting: no raise, all names non-empty, for EVERY nested graph
      the own values + visible enclosing values pairwise distinct, node names pairwise distinct per graph,
      initializers keyed by current names; proof: a name-free ghost run records per scope whose names the used
      set holds (ProofsB6/B7), a naive run records what each scope owns, on well-scoped traversals naive <= ghost
      (ProofsB8), and the naive scopes are exactly the nested graphs (ProofsB12/B13, custom induction))
      + C15_fix_post_sibling_refuted (a scoping hypothesis is still needed: known finding) +
      C15_fix_post_unsorted_witness_fixed (fix 5fabe37; the model records captured names in the owner's and the
      intermediate scopes: Model.record_captured; the witness satisfies well_scoped2) + Example ex_sorted_hyps;
      C15_fix_never_worse (ANY scoping, no hypothesis but 'did not raise': a changed name is new to the graph_like;
      equal names afterwards = both kept or both renamed);
      C15_fix_keeps_unique / C15_fix_keeps_unique_node (+ C15_fix_keeps_unique_shared_refuted: disjointness is needed; whole pass: main graph and functions meeting disjoint
      values/nodes; the value may be met anywhere incl. only through an initializer dictionary; uniqueness only
      among what its graph's run meets) + C15_fix_keeps_unique_witness_fixed;
      C15_fix_only_names (the model state carries an opaque payload per value and per node fed from the
      implementation and compared afterwards; unchanged whatever the outcome; initializer sets unchanged).
  (C) full: C15_rename_all_or_nothing (RInv = initializers keyed by names + flags consistent; Raise => state
      literally unchanged; Ok => every pair applied, other names unchanged, RInv again, same initializer sets,
      same flags).  Example ex_state_RInv / ex_swap show the hypothesis is satisfiable and non-trivial.
  ck.level = "proof".

Readings of the English (weaker reading taken where ambiguous)
  * "never equal any name that graph has registered or assigned before": per kind (value names against value
    names, node names against node names) - the authority keeps two separate seen sets; a name set by the user
    after the node was added is not "registered" until the node is added again.
  * "visible from that graph": for a subgraph of node n of graph p: p's inputs, initializers and the outputs of
    the nodes of p that precede n, recursively upwards.
    A value defined by a LATER node of an enclosing graph is not visible from an earlier node's subgraph (ONNX lexical
    scoping as enforced by onnx.checker; onnxruntime runs such models): an unnamed value in an If branch and an unnamed
    output of a later outer node both get `v` - not a collision under this reading; under the stronger reading the
    statement is false (C15_fix_post_later_outer_refuted, corpus b-later-outer-unsuffixed.json, reported 2026-09-26).
  * "names that were already unique are kept": a non-empty name carried by exactly one value (resp. node) in
    the whole model (main graph, subgraphs and functions together) is still that object's name afterwards.
  * "nothing but names has changed": structure, types, shapes, tensor objects and the *set* of initializers of
    each graph; the dict order of initializers is not part of the claim (a rename re-inserts the entry).
  * values "within a graph": its inputs, initializers and the outputs of its own nodes.
  * Function bodies carry no initializers (FunctionProto cannot): not generated; NameFixPass skips them.

Tie (every run; part B includes a stream that REUSES one NameFixPass object: run, edit names of the live objects, run
  the same object again, and run it on a second model - expected = what a fresh pass object gives (seeded C15-r6m1);
  quick ~30 s; part B also compares the non-name payload token of every value and node): (A) 260 histories x <=30 ops on a real ir.Graph (ctor with inputs/initializers,
  new nodes with explicit/None/generated-looking names, append/extend/insert_before/insert_after incl. foreign
  nodes and re-adding, remove, renames) - outcome and changed/touched names after every op + all names at the
  end vs grun; (B) 420 generated models (nested subgraphs via GRAPH/GRAPHS attributes, functions, missing /
  empty / duplicated names from a colliding alphabet, values that are input and initializer, dangling and
  unsorted references) - raise/ok, modified flag, every value and node name, every initializer dictionary in
  order vs name_fix_pass; (C) 600 assignments (permutations, swaps, partial, fresh, colliding, duplicated
  values, mismatched lengths, 1-2 graphs) - outcome and full state (names, dictionaries, flags, owners), also
  after a Raise, vs rename_values.  thorough: 6000 / 12000 / 20000.

Modelled, not verified: CPython int->str (decimal, no sign/padding) = N.to_uint; set/dict semantics (sets as
  lists, dicts as insertion-ordered association lists); object identity = handle; the backing tensor's name
  follows Value.name (not observed); SimpleNameGenerator only; TypeError paths of rename_values (typed away).

Findings (known_findings.d/C15.json)
  fixed 25cf9b5  namefix-raises-initializer-collision   inputs [w], initializers [w, w_1] -> ValueError
  fixed 25cf9b5  namefix-renames-unique-name            inputs x, x, x_1 -> x, x_1, x_1_1
                 (my proposed_fixes/C15-namefix-reserve-existing-names.diff, committed unchanged; corpus/C15/b-*.json)
  fixed f54d66f  ctor-names-inputs-before-registering-explicit-names   Graph([unnamed input], initializers=[val_0]) named
                 the input val_0 (my proposed fix, committed; now theorem C15_ctor_generated_equals_present).
  known          namefix-unclosed-initializer-capture   a function body reads an initializer `a` of the main graph whose
                 initializers are a, a_1 (not valid ONNX): the run over the function renames it to a_1 without having
                 pre-scanned the main graph's keys -> ValueError (C15_fix_total_unclosed_refuted).
  known          namefix-shared-value-unique-lost       same cause, other symptom: main input x, initializer x (read by a
                 function node whose output is the only value named x_1): the main run renames the initializer to x_1,
                 the function run then renames the unique x_1 (C15_fix_keeps_unique_shared_refuted).
  fixed 5fabe37  namefix-unsorted-outer-capture         a subgraph reads an outer value produced by a later node: two values
                 of the outer graph kept the same name (my proposed fix, committed).
  known          namefix-sibling-capture                a subgraph reads a value owned by a SIBLING subgraph (not valid ONNX):
                 the owner's scope is not open at the first visit; two values of the sibling keep the same name
                 (C15_fix_post_sibling_refuted).

Mutants tried in a scratch worktree (VERIF_REPO), quick tier, seed 0, all re-run against /repo 6138197 (after fixes
25cf9b5 and dff454e) with the full-strength theorems in place; "oracle X" = concrete replay from part X
  M1  _unique_value_name returns the first candidate without the seen test     VIOLATION (oracle A)
  M2  register_or_name_node records only generated names                        VIOLATION (oracle A)
  M3  enter_graph starts the new scope empty instead of a copy of the parent    VIOLATION (oracle B: shadow/dup)
  M4  _find_and_record_next_unique_name forgets used_names.add                  VIOLATION (oracle B: dup_node/dup_value)
  M5  _fix_duplicate_value_name does not record a kept name                     VIOLATION (oracle B: dup_value)
  M6  rename_values renames before popping the initializers                     VIOLATION (oracle C: raised, state changed)
  M7  rename_values validation ignores outside collisions for >=2 pairs         VIOLATION (oracle C: initializer lost)
  M9  exit_graph does not pop the value scope (over-renames, property intact)   VIOLATION ... no-failing-input-found
  M10 rename_values forgets seen_targets[name] = value                          VIOLATION (oracle C: initializer lost)
  M11 _process_value re-processes seen values that are not graph inputs         VIOLATION (oracle B: unique_lost)
  M12 insert_before skips _set_node_graph_to_self_and_assign_names              VIOLATION (oracle A: left unnamed)
  (model A follows fix dff454e: extend/insert_* validate every node before naming any)
  M13 (after the fix) reserved names ignored again in the while condition       VIOLATION (oracle B: raises / unique_lost)
  M14 (after the fix) the pre-scan forgets the initializer keys                 VIOLATION (oracle B: raises)
  seeded C15-r4m3 (rename_values re-adds through register_initializer, which demands const_value) was missed until
  the part C generator included pending initializers (const_value None); now VIOLATION (oracle C: raised, state changed)
  an equivalent mutant (renaming only the non-initializers before the pops) is correctly not reported.
"""

from __future__ import annotations

import json
import os
import random

from harness import common
from harness.common import cN, cbool, clist, copt, cpair

# --------------------------------------------------------------------------- Coq printers


class Names:
    """Per-case-file table of names: every distinct name is defined once (from a Coq string literal) and
    referred to by identifier, which keeps the case files small and fast to parse."""

    def __init__(self):
        self.tab: dict = {}

    def raw(self, s: str) -> str:
        assert s.isascii() and '"' not in s
        if s not in self.tab:
            self.tab[s] = f"s{len(self.tab)}"
        return self.tab[s]

    def opt(self, s) -> str:
        return "None" if s is None else f"(Some {self.raw(s)})"

    def defs(self) -> str:
        return "".join(f'Definition {i} : name := nm "{s}".\n' for s, i in self.tab.items())


NT = Names()


def cname(s):
    return NT.opt(s)


def cstr(s):  # noqa: F811  (names as table references in the case files)
    return NT.raw(s)


def cNl(xs):
    return clist(cN(x) for x in xs)


CASE_HEADER = """From Coq Require Import NArith List Bool String Ascii.
From IRV Require Import Base.Exn C15.Model.
Import ListNotations.
Open Scope N_scope.
Definition nm (s : string) : name := List.map N_of_ascii (list_ascii_of_string s).
"""


def case_file(body: str) -> str:
    """Header + the name table used by `body` (call after the body has been printed)."""
    return CASE_HEADER + NT.defs() + body

# =========================================================================== translation of the naming primitives
# Statement-by-statement, fail-closed ast -> Gallina translation of the five functions every seeded change of C15 has
# edited so far; coq/theories/C15/GenEquiv.v proves the hand models equal to the generated definitions.
import ast  # noqa: E402


class Unsupported(Exception):
    """The source left the subset the C15 translator understands (fail closed)."""


GEN_HEADER = """(* GENERATED by harness/props/c15.py (translate_c15) from the Python sources on every run - do not edit.
   Statement-by-statement translation of
     onnx_ir/_name_authority.py : NameAuthority._unique_value_name, _unique_node_name, register_or_name_value,
                                  register_or_name_node
     onnx_ir/passes/common/naming.py : _find_and_record_next_unique_name, SimpleNameGenerator.generate_value_name /
                                  generate_node_name, NameFixPass._assign_value_name / _fix_duplicate_value_name /
                                  _assign_node_name / _fix_duplicate_node_name  (`value.name = e` is the REQUEST made to
                                  the Value.name setter; the setter itself is hand-modelled: Model.set_vname)
   Conventions: str -> name (code points), int -> N, set[str] -> list name (mem / sadd), Counter[str] -> list (name * N)
   (cnt_get / cnt_set), f"..{e}.." -> concatenation with dec for ints, `while` -> Fixpoint on explicit fuel whose
   exhaustion is None.  A function returns Some (result, (written variables...)).  C15/GenEquiv.v proves these equal
   to the hand-written model of C15/Model.v. *)
From Coq Require Import NArith List Bool.
From IRV Require Import Base.Exn C15.Model.
Import ListNotations.
Open Scope N_scope.
"""


def cstring(s: str) -> str:
    return "[" + "; ".join(str(ord(c)) for c in s) + "]"


class Fn:
    """One function.  vars: python lvalue text -> (coq identifier, coq type)."""

    def __init__(self, fdef: ast.FunctionDef, coq_name: str, vars_: dict, ret_type: str, calls: dict):
        self.f = fdef
        self.name = coq_name
        self.vars = dict(vars_)            # declared: parameters / attributes, in signature order
        self.sig = list(vars_)             # signature order (python texts)
        self.ret = ret_type
        self.calls = calls                 # python callee text -> Fn (already translated)
        self.aux: list[str] = []
        self.nloops = 0
        self.written = self._written(fdef.body)
        self.uses_fuel = any(isinstance(n, ast.While) for n in ast.walk(fdef)) or any(
            c.uses_fuel for c in calls.values() if any(self._is_call(n, c_txt) for n in ast.walk(fdef) for c_txt in [k for k, v in calls.items() if v is c]))

    @staticmethod
    def _is_call(n, txt):
        return isinstance(n, ast.Call) and ast.unparse(n.func) == txt

    # ---- which declared variables does a statement list write
    def _written(self, stmts) -> list[str]:
        out: list[str] = []

        def add(t):
            if t in self.vars and t not in out:
                out.append(t)
        for n in ast.walk(ast.Module(body=list(stmts), type_ignores=[])):
            if isinstance(n, ast.Assign):
                for t in n.targets:
                    add(ast.unparse(t))
            elif isinstance(n, ast.AugAssign):
                t = n.target
                add(ast.unparse(t.value) if isinstance(t, ast.Subscript) else ast.unparse(t))
            elif isinstance(n, ast.Call):
                if isinstance(n.func, ast.Attribute) and n.func.attr == "add":
                    add(ast.unparse(n.func.value))
                txt = ast.unparse(n.func)
                if txt in self.calls:
                    callee = self.calls[txt]
                    for w in callee.written:
                        add(self._callee_var(callee, w, n))
        return [v for v in self.sig if v in out]      # signature order

    def _callee_var(self, callee, var_txt, call: ast.Call) -> str:
        """caller-side python text for a callee variable (attribute of self, or a parameter bound to an argument)."""
        if var_txt.startswith("self."):
            return var_txt
        params = [a.arg for a in callee.f.args.args if a.arg != "self"]
        i = params.index(var_txt.split(".")[0])
        arg = ast.unparse(call.args[i])
        return arg + var_txt[len(var_txt.split(".")[0]):]

    # ---- expressions -> (coq, type)
    def expr(self, e, loc) -> tuple[str, str]:
        txt = ast.unparse(e)
        if txt in loc:
            return loc[txt]
        if txt in self.vars:
            return self.vars[txt]
        if isinstance(e, ast.Constant):
            if e.value is True:
                return "true", "bool"
            if e.value is False:
                return "false", "bool"
            if isinstance(e.value, str):
                return cstring(e.value), "name"
            if isinstance(e.value, int):
                return f"{e.value}", "N"
            raise Unsupported(f"constant {txt}")
        if isinstance(e, ast.JoinedStr):
            parts = []
            for v in e.values:
                if isinstance(v, ast.Constant):
                    parts.append(cstring(v.value))
                elif isinstance(v, ast.FormattedValue) and v.conversion == -1 and v.format_spec is None:
                    c, t = self.expr(v.value, loc)
                    if t == "N":
                        parts.append(f"dec {c}")
                    elif t == "name":
                        parts.append(c)
                    else:
                        raise Unsupported(f"f-string field of type {t}: {txt}")
                else:
                    raise Unsupported(f"f-string part {ast.dump(v)}")
            return "(" + " ++ ".join(parts) + ")", "name"
        if isinstance(e, ast.Subscript):
            c, t = self.expr(e.value, loc)
            k, kt = self.expr(e.slice, loc)
            if t == "list (name * N)" and kt == "name":
                return f"(cnt_get {k} {c})", "N"
            raise Unsupported(f"subscript {txt}")
        if isinstance(e, ast.Compare) and len(e.ops) == 1:
            a, at = self.expr(e.left, loc)
            op = e.ops[0]
            if isinstance(op, (ast.Is, ast.IsNot)) and isinstance(e.comparators[0], ast.Constant) and e.comparators[0].value is None:
                if at != "option name":
                    raise Unsupported(f"`is None` on {at}")
                c = f"(match {a} with None => true | Some _ => false end)"
                return (c if isinstance(op, ast.Is) else f"(negb {c})"), "bool"
            b, bt = self.expr(e.comparators[0], loc)
            if isinstance(op, (ast.In, ast.NotIn)) and at == "name" and bt == "list name":
                c = f"(mem {a} {b})"
                return (c if isinstance(op, ast.In) else f"(negb {c})"), "bool"
            if isinstance(op, (ast.In, ast.NotIn)) and at == "option name" and bt == "list name":
                c = f"(match {a} with Some y_ => mem y_ {b} | None => false end)"     # None is never in a set of str
                return (c if isinstance(op, ast.In) else f"(negb {c})"), "bool"
            raise Unsupported(f"comparison {txt}")
        if isinstance(e, ast.BoolOp) and isinstance(e.op, ast.Or) and len(e.values) == 2:
            a, at = self.expr(e.values[0], loc)
            b, bt = self.expr(e.values[1], loc)
            if at == "option name" and bt == "name":      # `x.name or "lit"`: None and "" are falsy
                return f"(match {a} with Some (c_ :: r_) => c_ :: r_ | _ => {b} end)", "name"
        if isinstance(e, ast.BoolOp):
            cs = [self.expr(v, loc) for v in e.values]
            if any(t != "bool" for _, t in cs):
                raise Unsupported(f"boolean operator on non-booleans {txt}")
            op = " || " if isinstance(e.op, ast.Or) else " && "
            return "(" + op.join(c for c, _ in cs) + ")", "bool"
        if isinstance(e, ast.UnaryOp) and isinstance(e.op, ast.Not):
            c, t = self.truth(e.operand, loc)
            return f"(negb {c})", "bool"
        raise Unsupported(f"expression {txt}")

    def truth(self, e, loc) -> tuple[str, str]:
        """Python truthiness of an expression in boolean position."""
        c, t = self.expr(e, loc)
        if t == "bool":
            return c, t
        if t == "option name":
            return f"(negb (is_empty {c}))", "bool"
        if t == "name":
            return f"(negb (is_empty (Some {c})))", "bool"
        raise Unsupported(f"truth value of {t}")

    # ---- state tuples
    def tup(self, vs, loc=None) -> str:
        if not vs:
            return "tt"
        names = [self.vars[v][0] for v in vs]
        return names[0] if len(names) == 1 else "(" + ", ".join(names) + ")"

    def tup_type(self, vs) -> str:
        if not vs:
            return "unit"
        ts = [self.vars[v][1] for v in vs]
        return ts[0] if len(ts) == 1 else "(" + " * ".join(ts) + ")"

    def pat(self, vs) -> str:
        if not vs:
            return "_"
        names = [self.vars[v][0] for v in vs]
        return names[0] if len(names) == 1 else "'(" + ", ".join(names) + ")"

    # ---- statements.  k(loc) = code after the block ; in_loop: (loop_written) when inside a while body
    def block(self, stmts, loc, k, in_loop=None) -> str:
        if not stmts:
            return k(loc)
        s, rest = stmts[0], stmts[1:]
        nxt = lambda l: self.block(rest, l, k, in_loop)   # noqa: E731
        if isinstance(s, ast.Expr) and isinstance(s.value, ast.Constant):
            return nxt(loc)                                            # docstring
        if isinstance(s, ast.Assert):
            c, _ = self.truth(s.test, loc)
            return f"if {c} then\n  {nxt(loc)}\nelse None   (* AssertionError *)"
        if isinstance(s, ast.Expr) and isinstance(s.value, ast.Call) and ast.unparse(s.value.func).startswith("logger."):
            return nxt(loc)                                            # logging only
        if isinstance(s, ast.Return):
            if s.value is None:
                c, t = "tt", "unit"
            else:
                c, t = self.call_or_expr(s.value, loc, None)
                if c is None:
                    raise Unsupported("return of a call")
            if t != self.ret:
                raise Unsupported(f"return type {t}, expected {self.ret}")
            r = f"({c}, {self.tup(self.written)})"
            return f"Some (inl {r})" if in_loop is not None else f"Some {r}"
        if isinstance(s, ast.Assign) and len(s.targets) == 1:
            tgt = ast.unparse(s.targets[0])
            if isinstance(s.value, ast.Call):
                return self.call(s.value, loc, tgt, nxt)
            c, t = self.expr(s.value, loc)
            return self.bind(tgt, c, t, loc, nxt)
        if isinstance(s, ast.AugAssign) and isinstance(s.op, ast.Add):
            inc, it = self.expr(s.value, loc)
            if it != "N":
                raise Unsupported("+= of a non-integer")
            if isinstance(s.target, ast.Subscript):
                d = ast.unparse(s.target.value)
                dc, dt = self.expr(s.target.value, loc)
                kc, kt = self.expr(s.target.slice, loc)
                if dt != "list (name * N)" or kt != "name":
                    raise Unsupported(f"+= on {ast.unparse(s.target)}")
                return self.bind(d, f"cnt_set {kc} (N.add (cnt_get {kc} {dc}) {inc}) {dc}", dt, loc, nxt)
            tgt = ast.unparse(s.target)
            c, t = self.expr(s.target, loc)
            if t != "N":
                raise Unsupported("+= on a non-integer")
            return self.bind(tgt, f"N.add {c} {inc}", "N", loc, nxt)
        if isinstance(s, ast.Expr) and isinstance(s.value, ast.Call):
            f = s.value.func
            if isinstance(f, ast.Attribute) and f.attr == "add" and len(s.value.args) == 1:
                st = ast.unparse(f.value)
                sc, stt = self.expr(f.value, loc)
                a, at = self.add_arg(s.value.args[0], loc)
                if stt != "list name":
                    raise Unsupported(f".add on {stt}")
                if at == "name":
                    return self.bind(st, f"sadd {a} {sc}", stt, loc, nxt)
                if at == "option name":       # set.add(value.name) where the name is known to be set at this point
                    v = self.vars[st][0]
                    return (f"match {a} with\n  | None => None   (* .add(None): cannot happen, the name was just set *)\n"
                            f"  | Some x_ => let {v} := sadd x_ {sc} in\n  {nxt(loc)}\n  end")
                raise Unsupported(f".add({at})")
            return self.call(s.value, loc, None, nxt)
        if isinstance(s, ast.If):
            c, t = self.truth(s.test, loc)
            ends_ret = s.body and isinstance(s.body[-1], ast.Return)
            if ends_ret and not s.orelse:
                a = self.block(s.body, loc, lambda l: "None", in_loop)
                return f"if {c} then\n  {a}\nelse\n  {nxt(loc)}"
            if not any(isinstance(n, ast.Return) for n in ast.walk(s)):
                w = self._written(s.body + s.orelse)
                fin = lambda l: f"Some {self.tup(w)}"     # noqa: E731
                a = self.block(s.body, loc, fin, None)
                b = self.block(s.orelse, loc, fin, None) if s.orelse else f"Some {self.tup(w)}"
                return (f"match (if {c} then\n  {a}\nelse\n  {b}) with\n| None => None\n| Some {self.pat(w).lstrip(chr(39))} =>\n  {nxt(loc)}\nend")
            raise Unsupported("if with a return that is not the last statement of an else-less branch")
        if isinstance(s, ast.While):
            if s.orelse:
                raise Unsupported("while/else")
            self.nloops += 1
            lname = f"{self.name}_while{self.nloops}"
            lw = self._written(s.body)
            params = [v for v in self.sig]                       # every declared variable is passed
            locs = [(k2, v2) for k2, v2 in loc.items()]           # and every local defined so far
            cond, ct = self.expr(s.test, loc)
            if ct != "bool":
                raise Unsupported("while on a non-boolean")
            rec_args = " ".join([self.vars[v][0] for v in params] + [c for _, (c, _) in locs])
            body = self.block(s.body, dict(loc), lambda l: f"{lname} fuel_ {rec_args}", in_loop=lw)
            exit_state = [v for v in params if v in self.written] + []
            exit_t = self.tup([v for v in self.sig if v in self.written])
            loc_t = ", ".join(c for _, (c, _) in locs)
            exit_val = f"({exit_t}, ({loc_t}))" if locs else f"({exit_t}, tt)"
            res_ty = (f"option (({self.ret} * {self.tup_type(self.written)}) + ({self.tup_type(self.written)} * "
                      + ("(" + " * ".join(t for _, (_, t) in locs) + ")" if locs else "unit") + "))")
            sig = " ".join([f"({self.vars[v][0]} : {self.vars[v][1]})" for v in params] + [f"({c} : {t})" for _, (c, t) in locs])
            self.aux.append(
                f"Fixpoint {lname} (fuel : nat) {sig} : {res_ty} :=\n  match fuel with\n  | O => None\n  | S fuel_ =>\n"
                f"  if {cond} then\n  {body}\n  else Some (inr {exit_val})\n  end.\n")
            lp = ("'(" + ", ".join(c for _, (c, _) in locs) + ")") if len(locs) > 1 else (locs[0][1][0] if locs else "_")
            args = " ".join([self.vars[v][0] for v in params] + [c for _, (c, _) in locs])
            wpat = self.pat([v for v in self.sig if v in self.written]).lstrip("'")
            return (f"match {lname} fuel {args} with\n| None => None\n| Some (inl r_) => Some r_\n"
                    f"| Some (inr ({wpat}, {lp.lstrip(chr(39))})) =>\n  {nxt(loc)}\nend")
        raise Unsupported(f"statement {ast.unparse(s)[:80]}")

    def add_arg(self, e, loc):
        return self.expr(e, loc)

    def bind(self, tgt: str, c: str, t: str, loc, nxt) -> str:
        if tgt in self.vars:
            v, vt = self.vars[tgt]
            if vt == "option name" and t == "name":
                c, t = f"Some {c}", "option name"
            if vt != t:
                raise Unsupported(f"assignment of {t} to {tgt} : {vt}")
            return f"let {v} := {c} in\n  {nxt(loc)}"
        if not tgt.isidentifier():
            raise Unsupported(f"assignment target {tgt}")
        l2 = dict(loc)
        l2[tgt] = (tgt + "_v", t)
        return f"let {tgt}_v := {c} in\n  {nxt(l2)}"

    def call_or_expr(self, e, loc, _):
        if isinstance(e, ast.Call):
            return None, None
        return self.expr(e, loc)

    def call(self, call: ast.Call, loc, tgt, nxt) -> str:
        txt = ast.unparse(call.func)
        if txt not in self.calls:
            raise Unsupported(f"call of {txt}")
        callee = self.calls[txt]
        params = [a.arg for a in callee.f.args.args if a.arg != "self"]
        if len(call.args) != len(params) or call.keywords:
            raise Unsupported(f"call shape {ast.unparse(call)}")
        args = []
        for v in callee.sig:
            caller_txt = self._callee_var(callee, v, call)
            c, t = self.expr(ast.parse(caller_txt, mode="eval").body, loc)
            if t != callee.vars[v][1]:
                raise Unsupported(f"argument {caller_txt} : {t} for {v} : {callee.vars[v][1]}")
            args.append(c)
        wnames = [self.vars[self._callee_var(callee, w, call)][0] for w in callee.written]
        wp = "_" if not wnames else (wnames[0] if len(wnames) == 1 else "(" + ", ".join(wnames) + ")")
        fuel = "fuel " if callee.uses_fuel else ""
        res = "res_"
        after = self.bind(tgt, res, callee.ret, loc, nxt) if tgt is not None else nxt(loc)
        return (f"match {callee.name} {fuel}{' '.join(args)} with\n| None => None\n| Some ({res}, {wp}) =>\n  {after}\nend")

    def emit(self) -> str:
        body = self.block(self.f.body, {}, lambda l: f"Some (tt, {self.tup(self.written)})" if self.ret == "unit" else "None")
        sig = " ".join(f"({self.vars[v][0]} : {self.vars[v][1]})" for v in self.sig)
        fuel = "(fuel : nat) " if self.uses_fuel else ""
        head = f"Definition {self.name} {fuel}{sig} : option ({self.ret} * {self.tup_type(self.written)}) :=\n  {body}.\n"
        return "".join(self.aux) + head


def find(mod: ast.Module, qual: str) -> ast.FunctionDef:
    parts = qual.split(".")
    body = mod.body
    for i, p in enumerate(parts):
        for n in body:
            if isinstance(n, (ast.ClassDef, ast.FunctionDef)) and n.name == p:
                if i == len(parts) - 1:
                    if not isinstance(n, ast.FunctionDef):
                        raise Unsupported(f"{qual} is not a function")
                    return n
                body = n.body
                break
        else:
            raise Unsupported(f"{qual} not found")
    raise Unsupported(qual)


def translate_c15(repo: str) -> str:
    import os
    na = ast.parse(open(os.path.join(repo, "src/onnx_ir/_name_authority.py")).read())
    nm = ast.parse(open(os.path.join(repo, "src/onnx_ir/passes/common/naming.py")).read())
    AUTH = {"self._value_counter": ("vc_", "N"), "self._node_counter": ("nc_", "N"),
            "self._value_names": ("vnames_", "list name"), "self._node_names": ("nnames_", "list name")}
    out = [GEN_HEADER]
    uv = Fn(find(na, "NameAuthority._unique_value_name"), "py_unique_value_name",
            {k: AUTH[k] for k in ("self._value_counter", "self._value_names")}, "name", {})
    out.append(uv.emit())
    un = Fn(find(na, "NameAuthority._unique_node_name"), "py_unique_node_name",
            {"self._node_counter": AUTH["self._node_counter"], "self._node_names": AUTH["self._node_names"],
             "op_type": ("op_type_", "name")}, "name", {})
    out.append(un.emit())
    rv = Fn(find(na, "NameAuthority.register_or_name_value"), "py_register_or_name_value",
            {"self._value_counter": AUTH["self._value_counter"], "self._value_names": AUTH["self._value_names"],
             "value.name": ("value_name_", "option name")}, "unit", {"self._unique_value_name": uv})
    out.append(rv.emit())
    rn = Fn(find(na, "NameAuthority.register_or_name_node"), "py_register_or_name_node",
            {"self._node_counter": AUTH["self._node_counter"], "self._node_names": AUTH["self._node_names"],
             "node.name": ("node_name_", "option name"), "node.op_type": ("node_op_type_", "name")}, "unit",
            {"self._unique_node_name": un})
    out.append(rn.emit())
    fr = Fn(find(nm, "_find_and_record_next_unique_name"), "py_find_and_record_next_unique_name",
            {"preferred_name": ("preferred_name_", "name"), "used_names": ("used_names_", "list name"),
             "counter": ("counter_", "list (name * N)"), "reserved_names": ("reserved_names_", "list name")}, "name", {})
    out.append(fr.emit())
    gv = Fn(find(nm, "SimpleNameGenerator.generate_value_name"), "py_generate_value_name",
            {"value.name": ("value_name_", "option name")}, "name", {})
    out.append(gv.emit())
    gn = Fn(find(nm, "SimpleNameGenerator.generate_node_name"), "py_generate_node_name",
            {"node.name": ("node_name_", "option name")}, "name", {})
    out.append(gn.emit())
    VAL = {"value.name": ("value_name_", "option name"), "used_names": ("used_names_", "list name"),
           "counter": ("counter_", "list (name * N)"), "self._reserved_value_names": ("reserved_value_names_", "list name")}
    NOD = {"node.name": ("node_name_", "option name"), "used_names": ("used_names_", "list name"),
           "counter": ("counter_", "list (name * N)"), "self._reserved_node_names": ("reserved_node_names_", "list name")}
    vcalls = {"self._name_generator.generate_value_name": gv, "_find_and_record_next_unique_name": fr}
    ncalls = {"self._name_generator.generate_node_name": gn, "_find_and_record_next_unique_name": fr}
    for q, cn, vs, cs in (("NameFixPass._assign_value_name", "py_assign_value_name", VAL, vcalls),
                          ("NameFixPass._fix_duplicate_value_name", "py_fix_duplicate_value_name", VAL, vcalls),
                          ("NameFixPass._assign_node_name", "py_assign_node_name", NOD, ncalls),
                          ("NameFixPass._fix_duplicate_node_name", "py_fix_duplicate_node_name", NOD, ncalls)):
        out.append(Fn(find(nm, q), cn, vs, "bool", cs).emit())
    return "\n".join(out)



def generate(ck) -> bool:
    try:
        text = translate_c15(common.REPO)
    except (Unsupported, SyntaxError, OSError, KeyError, ValueError) as e:
        ck.gen_failed("C15Gen", e)
        return False
    ck.gen("C15Gen", text)
    return True


# =========================================================================== (A) histories on a real ir.Graph

A_VAL_NAMES = [None, None, None, None, "val_0", "val_1", "val_2", "val_3", "val_5", "x", "", "val_10", "val_01"]
A_NODE_NAMES = [None, None, None, None, "node_Add_0", "node_Add_1", "node_Relu_0", "node_A_1_0", "node_A_1", "n", "",
                "node_Add_2", "node__0", "node_A_0"]
A_OPS = ["Add", "Add", "Relu", "A", "A_1", ""]
A_INIT_NAMES = ["val_0", "val_1", "val_3", "w", "val_2"]   # val_0/val_1 collide with names generated for unnamed inputs


def gen_history(rng, n_ops: int) -> list[dict]:
    """A history in the harness's op language (JSON).  Handles are small ints."""
    ops = []
    nv = rng.randrange(0, 4)
    vals = []
    for _ in range(nv):
        vals.append({"name": rng.choice(A_VAL_NAMES)})
    init_names = rng.sample(A_INIT_NAMES, rng.randrange(0, 3))
    ops.append({"op": "ctor", "inputs": vals, "inits": init_names})
    n_nodes = 0
    for _ in range(n_ops):
        k = rng.random()
        if k < 0.30 or n_nodes == 0:
            outs = [rng.choice(A_VAL_NAMES) for _ in range(rng.choice([0, 1, 1, 1, 2, 3]))]
            ops.append({"op": "newnode", "name": rng.choice(A_NODE_NAMES), "optype": rng.choice(A_OPS), "outs": outs,
                        "foreign": rng.random() < 0.12})
            n_nodes += 1
        elif k < 0.62:
            ops.append({"op": "add", "how": rng.choice(["append", "extend", "extend", "insert_before", "insert_after"]),
                        "pick": [rng.random() for _ in range(rng.choice([1, 1, 2, 3]))], "any": rng.random() < 0.25})
        elif k < 0.78:
            ops.append({"op": "remove", "pick": rng.random(), "invalid": rng.random() < 0.15})
        elif k < 0.89:
            ops.append({"op": "setnodename", "pick": rng.random(), "name": rng.choice(A_NODE_NAMES)})
        else:
            ops.append({"op": "setvaluename", "pick": rng.random(), "name": rng.choice(A_VAL_NAMES)})
    return ops


def run_history(ops: list[dict]) -> dict:
    """Run the history on a real ir.Graph.  Returns the model-level op list (Coq terms), the per-step
    observations and the verdicts of the property oracle."""
    import numpy as np
    import onnx_ir as ir

    nodes: list = []          # handle -> ir.Node
    values: list = []         # handle -> ir.Value
    limbo: set[int] = set()   # nodes left half-added by a failing extend (graph set, not in the list)
    coq_ops: list[str] = []
    steps: list[dict] = []    # {"ok":bool, "nn":[...], "vn":[...]}
    touched: list = []        # per step: (node handles, value handles) the op was applied to
    bad: list[str] = []
    known: list[str] = []     # failures of the stronger reading at the known site (constructor ordering)
    seen_v: set = set()
    seen_n: set = set()
    g = None
    other = ir.Graph([], [], nodes=[], name="other")
    kinds = []

    def snap():
        return [n.name for n in nodes], [v.name for v in values]

    for o in ops:
        kind = o["op"]
        ok = True
        if kind == "ctor":
            ins = []
            for spec in o["inputs"]:
                v = ir.Value(name=spec["name"])
                values.append(v)
                ins.append(v)
                coq_ops.append(f"GNewValue {cN(len(values) - 1)} {cname(spec['name'])}")
                steps.append({"ok": True, "nn": [], "vn": [x.name for x in values]})
                touched.append(((), ()))
            inits = []
            for nm in o["inits"]:
                v = ir.Value(name=nm, const_value=ir.Tensor(np.zeros((1,), dtype=np.float32), name=nm))
                values.append(v)
                inits.append(v)
                coq_ops.append(f"GNewValue {cN(len(values) - 1)} {cname(nm)}")
                steps.append({"ok": True, "nn": [], "vn": [x.name for x in values]})
                touched.append(((), ()))
            before = [v.name for v in values]
            g = ir.Graph(ins, [], nodes=[], initializers=inits, name="g")
            coq_ops.append(f"GCtor {cNl(range(len(ins)))} {cNl(range(len(ins), len(values)))}")
            explicit = [b for b in before if b is not None]
            for i, v in enumerate(values):
                if before[i] is None:
                    if v.name is None:
                        bad.append("constructor left a graph input unnamed")
                    elif v.name in seen_v:
                        bad.append(f"generated value name {v.name!r} was already seen by the graph")
                    elif v.name in explicit:
                        # stronger reading: the name is present in the graph being built, only registered later
                        known.append(f"constructor: generated input name {v.name!r} equals the explicit name of a value "
                                     "of the same graph that the constructor registers afterwards")
                elif v.name != before[i]:
                    bad.append(f"explicit value name {before[i]!r} changed to {v.name!r} by the constructor")
                seen_v.add(v.name)
        elif kind == "newnode":
            outs = [ir.Value(name=nm) for nm in o["outs"]]
            n = ir.Node("", o["optype"], [], outputs=outs, name=o["name"])
            if o["foreign"]:
                other.append(n)
            nodes.append(n)
            base = len(values)
            values.extend(outs)
            coq_ops.append("GNewNode %s %s %s %s %s" % (
                cN(len(nodes) - 1), cname(n.name), cstr(o["optype"]),
                clist(cpair(cN(base + i), cname(v.name)) for i, v in enumerate(outs)), cbool(o["foreign"])))
        elif kind == "add":
            detached = [i for i, n in enumerate(nodes) if n.graph is None]
            pool = list(range(len(nodes))) if o["any"] else (detached or list(range(len(nodes))))
            pool = [i for i in pool if i not in limbo] or list(range(len(nodes)))
            chosen = []
            for p in o["pick"]:
                c = pool[int(p * len(pool))]
                if c not in chosen:
                    chosen.append(c)
            how = o["how"]
            in_graph = [i for i, n in enumerate(nodes) if n.graph is g and i not in limbo and i not in chosen]
            if how in ("insert_before", "insert_after") and not in_graph:
                how = "extend"
            if how == "append":
                chosen = chosen[:1]
            bn, bv = snap()
            foreign_at = [k for k, i in enumerate(chosen) if nodes[i].graph is not None and nodes[i].graph is not g]
            try:
                if how == "append":
                    g.append(nodes[chosen[0]])
                elif how == "extend":
                    g.extend([nodes[i] for i in chosen])
                else:
                    ref = nodes[in_graph[int(o["pick"][0] * len(in_graph))]]
                    getattr(g, how)(ref, [nodes[i] for i in chosen] if len(chosen) > 1 or o["any"] else nodes[chosen[0]])
            except ValueError:
                ok = False
                for i in chosen:
                    if nodes[i].graph is g and nodes[i] not in list(g):
                        limbo.add(i)
            kind = how
            coq_ops.append(f"GAdd {cNl(chosen)}")
            an, av = snap()
            # ---- property oracle: freshness against everything the graph has seen, explicit names kept
            for i in range(len(nodes)):
                if bn[i] is not None and an[i] != bn[i]:
                    bad.append(f"{how}: explicit node name {bn[i]!r} changed to {an[i]!r}")
            for i in range(len(values)):
                if bv[i] is not None and av[i] != bv[i]:
                    bad.append(f"{how}: explicit value name {bv[i]!r} changed to {av[i]!r}")
            # nodes the graph has certainly registered: all of them when the call succeeded.  After a raise nothing is
            # assumed registered (since fix dff454e nothing is; before it, the nodes before the first foreign one were),
            # but a name given to an unnamed object must still be fresh and counts as seen from then on.
            processed = chosen if ok else [i for i in chosen if bn[i] is None and nodes[i].name is not None]
            for i in processed:
                n = nodes[i]
                if bn[i] is None:
                    if n.name is None:
                        if ok:
                            bad.append(f"{how}: node left unnamed")
                    elif n.name in seen_n:
                        bad.append(f"{how}: generated node name {n.name!r} was already seen by the graph")
                seen_n.add(n.name)
                for v in n.outputs:
                    j = next(k for k, w in enumerate(values) if w is v)
                    if bv[j] is None:
                        if v.name is None:
                            if ok:
                                bad.append(f"{how}: value left unnamed")
                        elif v.name in seen_v:
                            bad.append(f"{how}: generated value name {v.name!r} was already seen by the graph")
                    seen_v.add(v.name)
        elif kind == "remove":
            cand = [i for i, n in enumerate(nodes) if (n.graph is g) != o["invalid"] and i not in limbo]
            if not cand:
                continue
            c = cand[int(o["pick"] * len(cand))]
            try:
                g.remove(nodes[c])
            except ValueError:
                ok = False
            coq_ops.append(f"GRemove {cN(c)}")
        elif kind == "setnodename":
            if not nodes:
                continue
            c = int(o["pick"] * len(nodes))
            nodes[c].name = o["name"]
            coq_ops.append(f"GSetNodeName {cN(c)} {cname(o['name'])}")
        elif kind == "setvaluename":
            cand = [i for i, v in enumerate(values) if not v.is_initializer()]
            if not cand:
                continue
            c = cand[int(o["pick"] * len(cand))]
            values[c].name = o["name"]
            coq_ops.append(f"GSetValueName {cN(c)} {cname(o['name'])}")
        else:
            raise AssertionError(kind)
        nn, vn = snap()
        steps.append({"ok": ok, "nn": nn, "vn": vn})
        tn = list(chosen) if kind in ("append", "extend", "insert_before", "insert_after") else []
        touched.append((tn, [j for j, w in enumerate(values) if any(w in nodes[i].outputs for i in tn)]))
        kinds.append(kind + ("" if ok else ":raise"))
    return {"known": known, "coq_ops": coq_ops, "steps": steps, "touched": touched, "n_nodes": len(nodes), "n_values": len(values), "bad": bad,
            "kinds": kinds, "generated": sum(1 for s in (seen_v | seen_n) if s and (s.startswith("val_") or s.startswith("node_")))}


def a_cases_text(results: list[dict]) -> str:
    """One case per history: the model-level ops; after every op the outcome and the names of all handles
    whose name changed in the implementation (plus the handles the op touched); at the end all names."""
    cases = []
    for r in results:
        nn, nv = r["n_nodes"], r["n_values"]
        terms = []
        pn: list = []
        pv: list = []
        for s, touched in zip(r["steps"], r["touched"]):
            dn = [i for i in range(len(s["nn"])) if i >= len(pn) or pn[i] != s["nn"][i] or i in touched[0]]
            dv = [i for i in range(len(s["vn"])) if i >= len(pv) or pv[i] != s["vn"][i] or i in touched[1]]
            terms.append("(%s, %s, %s)" % (cbool(s["ok"]), clist(cpair(cN(i), cname(s["nn"][i])) for i in dn),
                                           clist(cpair(cN(i), cname(s["vn"][i])) for i in dv)))
            pn, pv = (s["nn"] or pn), s["vn"]
        assert len(terms) == len(r["coq_ops"])
        last = r["steps"][-1]
        cases.append("(%s, %s, %s, %s, %s, %s)" % (clist(r["coq_ops"]), clist(terms), cNl(range(nn)), cNl(range(nv)),
                                                   clist(cname(x) for x in last["nn"] + [None] * (nn - len(last["nn"]))),
                                                   clist(cname(x) for x in last["vn"])))
    return case_file(
        "Definition cases : list a_case :=\n  "
        + clist(cases).replace("); (", ");\n  (") + ".\n"
        "Eval vm_compute in (failing a_agree cases).\n")


def oracle_history(ops: list[dict]) -> list[str]:
    r = run_history(ops)
    return r["bad"] + r["known"]      # the stronger reading at construction is enforced since fix f54d66f


# =========================================================================== (B) NameFixPass

B_VAL_NAMES = [None, None, "", "x", "x", "x_1", "x_2", "v", "v_1", "w", "w_1", "x_1_1", "y", "v_2"]
B_NODE_NAMES = [None, None, "", "n", "n", "n_1", "node", "node_1", "n_2", "m"]
B_INIT_NAMES = ["w", "w_1", "x", "x_1", "v", "v_1", "w_2", "x_2", "y"]


def gen_model(rng, small: bool = False) -> dict:
    """A model specification: nested graphs over value / node handles, with names."""
    st = {"nv": 0, "nn": 0, "ng": 0, "vnames": [], "nnames": [], "init_of": {}}

    def new_value(name):
        st["vnames"].append(name)
        st["nv"] += 1
        return st["nv"] - 1

    def gen_graph(depth: int, outer: list[int], isfunc: bool, later_pool: list[int]) -> dict:
        gid = st["ng"]
        st["ng"] += 1
        ins = [new_value(rng.choice(B_VAL_NAMES)) for _ in range(rng.choice([0, 1, 1, 2, 3] if depth == 0 else [0, 0, 1, 2]))]
        inits = []
        if not isfunc:   # a Function body has no initializers (FunctionProto cannot carry them)
            names = rng.sample(B_INIT_NAMES, rng.choice([0, 0, 1, 2, 2, 3] if not small else [0, 1, 2]))
            for nm in names:
                if ins and rng.random() < 0.12 and st["vnames"][ins[0]] not in (None, "") \
                        and ins[0] not in st["init_of"] and st["vnames"][ins[0]] not in names:
                    v = ins[0]          # the same Value is graph input and initializer
                else:
                    v = new_value(nm)
                st["init_of"][v] = gid
                inits.append(v)
        own = list(ins) + list(inits)
        nodes = []
        n_nodes = rng.choice([0, 1, 2, 2, 3, 4] if depth == 0 else [0, 1, 1, 2])
        if small:
            n_nodes = min(n_nodes, 2)
        # pre-allocate outputs so that "later" (unsorted) references are possible
        planned = []
        for _ in range(n_nodes):
            planned.append([new_value(rng.choice(B_VAL_NAMES)) for _ in range(rng.choice([1, 1, 1, 2, 0]))])
        for k in range(n_nodes):
            nid = st["nn"]
            st["nn"] += 1
            st["nnames"].append(rng.choice(B_NODE_NAMES))
            nins = []
            for _ in range(rng.choice([0, 1, 1, 2, 3])):
                r = rng.random()
                visible = own + outer
                later = [v for outs in planned[k + 1:] for v in outs] + later_pool
                if r < 0.06:
                    nins.append(None)
                elif r < 0.12:
                    nins.append(new_value(rng.choice(B_VAL_NAMES)))      # dangling value (owned by nothing)
                elif r < 0.20 and later:
                    nins.append(rng.choice(later))                        # unsorted reference
                elif visible:
                    nins.append(rng.choice(visible))
            subs = []
            if depth < 2 and rng.random() < (0.45 if depth == 0 else 0.25):
                later_here = [v for outs in planned[k + 1:] for v in outs] + later_pool
                for _ in range(rng.choice([1, 1, 2])):
                    subs.append(gen_graph(depth + 1, own + planned[k] + outer, False, later_here))
            nodes.append({"nid": nid, "ins": nins, "outs": planned[k], "subs": subs,
                          "multi": len(subs) > 1 and rng.random() < 0.5})
            own = own + planned[k]
        outs = []
        for _ in range(rng.choice([0, 1, 1, 2])):
            pool = own
            if pool:
                outs.append(rng.choice(pool))
        return {"gid": gid, "isfunc": isfunc, "ins": ins, "outs": outs, "inits": inits, "nodes": nodes}

    main = gen_graph(0, [], False, [])
    funcs = [gen_graph(0, [], True, []) for _ in range(rng.choice([0, 0, 1, 2] if not small else [0, 0, 1]))]
    if funcs and main["inits"] and rng.random() < 0.06:
        # not valid ONNX (function bodies are closed): a function node reads an initializer of the main graph
        for f in funcs:
            if f["nodes"]:
                f["nodes"][0]["ins"].append(rng.choice(main["inits"]))
                break
    return {"main": main, "funcs": funcs, "vnames": st["vnames"], "nnames": st["nnames"],
            "init_of": {str(k): v for k, v in st["init_of"].items()}}


def _graphs_of(gs: dict):
    yield gs
    for n in gs["nodes"]:
        for s in n["subs"]:
            yield from _graphs_of(s)


def build_model(spec: dict):
    """Real onnx_ir objects for a specification.  Returns (model, values, nodes, graphs) by handle."""
    import numpy as np
    import onnx_ir as ir

    init_of = {int(k): v for k, v in spec["init_of"].items()}
    values: dict[int, object] = {}
    for vid, nm in enumerate(spec["vnames"]):
        if vid in init_of:
            values[vid] = ir.Value(name=nm, const_value=ir.Tensor(np.zeros((1,), dtype=np.float32), name=nm),
                                   type=ir.TensorType(ir.DataType.FLOAT), shape=ir.Shape([1]))
        else:
            values[vid] = ir.Value(name=f"tmp{vid}", type=ir.TensorType(ir.DataType.FLOAT))
    nodes: dict[int, object] = {}
    graphs: dict[int, object] = {}

    def mk_graph(gs: dict):
        ns = []
        for n in gs["nodes"]:
            subs = [mk_graph(s) for s in n["subs"]]
            attrs = []
            if subs:
                if n.get("multi"):
                    attrs.append(ir.Attr("branches", ir.AttributeType.GRAPHS, subs))
                else:
                    for i, s in enumerate(subs):
                        attrs.append(ir.AttrGraph(f"body{i}", s))
            attrs.append(ir.AttrInt64("k", 7))
            node = ir.Node("", "Op%d" % (n["nid"] % 3), [None if i is None else values[i] for i in n["ins"]],
                           attributes=attrs, outputs=[values[o] for o in n["outs"]], name=f"tmpn{n['nid']}")
            nodes[n["nid"]] = node
            ns.append(node)
        g = ir.Graph([values[i] for i in gs["ins"]], [values[o] for o in gs["outs"]], nodes=ns,
                     initializers=[values[i] for i in gs["inits"]], name=f"g{gs['gid']}")
        graphs[gs["gid"]] = g
        return g

    main = mk_graph(spec["main"])
    funcs = []
    for i, fs in enumerate(spec["funcs"]):
        fg = mk_graph(fs)
        funcs.append(ir.Function("fd", f"fn{i}", graph=fg, attributes=[]))
    model = ir.Model(main, ir_version=10, functions=funcs)
    # final names (missing / duplicated ones) are set after construction: construction would name them
    for vid, nm in enumerate(spec["vnames"]):
        if vid not in init_of:
            values[vid].name = nm
    for nid, nm in enumerate(spec["nnames"]):
        nodes[nid].name = nm
    return model, values, nodes, graphs


def _structure(spec, values, nodes, graphs) -> dict:
    """Everything but names, by handle (for 'nothing but names has changed')."""
    vh = {id(v): k for k, v in values.items()}
    nh = {id(n): k for k, n in nodes.items()}
    gh = {id(g): k for k, g in graphs.items()}

    def hv(v):
        return None if v is None else vh.get(id(v), "foreign")
    out = {"nodes": {}, "graphs": {}, "values": {}}
    for k, n in nodes.items():
        attrs = []
        for a in n.attributes.values():
            if a.type.name == "GRAPH":
                attrs.append((a.name, "G", gh.get(id(a.value))))
            elif a.type.name == "GRAPHS":
                attrs.append((a.name, "GS", [gh.get(id(x)) for x in a.value]))
            else:
                attrs.append((a.name, a.type.name, repr(a.value)))
        out["nodes"][k] = (n.op_type, n.domain, n.overload, [hv(i) for i in n.inputs], [hv(o) for o in n.outputs],
                           attrs, gh.get(id(n.graph)), n.doc_string, dict(n.metadata_props))
    for k, g in graphs.items():
        out["graphs"][k] = ([hv(i) for i in g.inputs], [hv(o) for o in g.outputs],
                            sorted(hv(i) for i in g.initializers.values()), [nh[id(n)] for n in g], g.name,
                            dict(g.opset_imports))
    for k, v in values.items():
        p = v.producer()
        out["values"][k] = (repr(v.type), repr(v.shape), id(v.const_value) if v.const_value is not None else None,
                            None if p is None else nh.get(id(p)), v.index(), v.is_graph_input(), v.is_graph_output(),
                            v.is_initializer(), sorted((nh.get(id(u.node)), u.idx) for u in v.uses()))
    return out


def run_namefix(spec: dict, built=None, pass_obj=None) -> dict:
    """Run NameFixPass on the model of `spec` (or on already built objects, with a given pass object)."""
    from onnx_ir.passes.common.naming import NameFixPass
    model, values, nodes, graphs = built if built is not None else build_model(spec)
    before = _structure(spec, values, nodes, graphs)
    err = None
    msg = ""
    modified = None
    try:
        res = (pass_obj if pass_obj is not None else NameFixPass())(model)
        modified = bool(res.modified)
        same_model = res.model is model
    except Exception as e:  # noqa: BLE001
        err = common.exn_name(e)
        msg = str(e)
        same_model = True
    after = _structure(spec, values, nodes, graphs)
    # payload tokens: everything of a value / node that is not a name, as a small integer (0 = never seen before)
    table: dict = {}

    def tok(x, add):
        key = json.dumps(x, default=str, sort_keys=True)
        if key not in table:
            if not add:
                return 0
            table[key] = len(table) + 1
        return table[key]
    vx0 = [tok(("v", before["values"][i]), True) for i in range(len(values))]
    nx0 = [tok(("n", before["nodes"][i]), True) for i in range(len(nodes))]
    vx1 = [tok(("v", after["values"][i]), False) for i in range(len(values))]
    nx1 = [tok(("n", after["nodes"][i]), False) for i in range(len(nodes))]
    vh = {id(v): k for k, v in values.items()}
    gh = {id(g): k for k, g in graphs.items()}
    vown = [None if values[i].graph is None else gh.get(id(values[i].graph)) for i in range(len(values))]
    inits = {}
    for gid in sorted(graphs):
        inits[gid] = [(k, vh[id(v)]) for k, v in graphs[gid].initializers.items()]
    return {"err": err, "msg": msg, "modified": modified, "vn": [values[i].name for i in range(len(values))],
            "nn": [nodes[i].name for i in range(len(nodes))], "inits": inits, "struct_same": before == after,
            "vx0": vx0, "nx0": nx0, "vx1": vx1, "nx1": nx1, "vown": vown,
            "same_model": same_model}


def gen_edits(rng, spec: dict) -> list:
    """Edits applied between two runs of ONE pass object: give a value / node the current name of another one."""
    init_of = {int(k) for k in spec["init_of"]}
    plain = [i for i in range(len(spec["vnames"])) if i not in init_of]
    edits = []
    for _ in range(rng.choice([1, 1, 2, 3])):
        if rng.random() < 0.7 and len(plain) >= 1 and len(spec["vnames"]) >= 2:
            t = rng.choice(plain)
            src = rng.choice([i for i in range(len(spec["vnames"])) if i != t])
            edits.append(["v", t, src])
        elif len(spec["nnames"]) >= 2:
            t, src = rng.sample(range(len(spec["nnames"])), 2)
            edits.append(["n", t, src])
    return edits


def run_namefix_reuse(spec: dict, edits: list, other: dict | None = None) -> dict:
    """ONE NameFixPass object: run on the model, apply the edits to the live objects, run the same object again
    (and, if `other` is given, then on a second model).  Returns the observation of the first run, the specification
    describing the edited model (what a FRESH pass object would be given) and the observation of the second run."""
    from onnx_ir.passes.common.naming import NameFixPass
    built = build_model(spec)
    model, values, nodes, graphs = built
    pobj = NameFixPass()
    obs1 = run_namefix(spec, built=built, pass_obj=pobj)
    out = {"obs1": obs1, "spec2": None, "obs2": None, "obs3": None}
    if obs1["err"] is not None:
        return out
    for kind, t, src in edits:
        if kind == "v":
            if not values[t].is_initializer():
                values[t].name = values[src].name
        else:
            nodes[t].name = nodes[src].name
    spec2 = json.loads(json.dumps(spec))
    spec2["vnames"] = [values[i].name for i in range(len(values))]
    spec2["nnames"] = [nodes[i].name for i in range(len(nodes))]
    vh = {id(v): k for k, v in values.items()}
    for top in [spec2["main"]] + spec2["funcs"]:
        for gs in _graphs_of(top):
            gs["inits"] = [vh[id(v)] for v in graphs[gs["gid"]].initializers.values()]
    out["spec2"] = spec2
    out["obs2"] = run_namefix(spec2, built=built, pass_obj=pobj)
    if other is not None:
        out["obs3"] = run_namefix(other, pass_obj=pobj)
    return out


def _visible_chain(spec):
    """For every graph: (graph spec, list of enclosing-scope value handles visible from it)."""
    out = []

    def walk(gs, visible):
        out.append((gs, list(visible)))
        own = list(gs["ins"]) + list(gs["inits"])
        for n in gs["nodes"]:
            own = own + list(n["outs"])
            for s in n["subs"]:
                # values of p that precede the node (its own outputs excluded: weaker reading)
                walk(s, visible + [v for v in own if v not in n["outs"]])
    walk(spec["main"], [])
    for f in spec["funcs"]:
        walk(f, [])
    return out


def ill_scoped(spec, outer_ok: bool = False) -> bool:
    """True when some value owned by a graph is first reached by the traversal in a scope that is neither that
    graph's nor one enclosing it (unsorted outer-scope capture, sibling capture): its name is then recorded in
    a scope that is discarded before the owner's later values are named.  These are the models outside the
    hypothesis of C15_fix_post."""
    owner, anc = {}, {}

    def index(gs, chain):
        anc[gs["gid"]] = chain + [gs["gid"]]
        for v in list(gs["ins"]) + list(gs["inits"]):
            owner.setdefault(v, gs["gid"])
        for n in gs["nodes"]:
            for v in n["outs"]:
                owner.setdefault(v, gs["gid"])
            for s in n["subs"]:
                index(s, chain + [gs["gid"]])
    for top in [spec["main"]] + spec["funcs"]:
        index(top, [])
    bad = [False]

    def walk(gs, seen):
        def touch(v):
            if v is None or v in seen:
                return
            if v in owner and gs["gid"] not in anc[owner[v]]:
                # first met outside its graph's scope and the enclosing ones.  With outer_ok (the code since fix
                # 5fabe37) a capture from an ENCLOSING graph is fine: the owner's scope is open and gets the name.
                if not (outer_ok and owner[v] in anc[gs["gid"]]):
                    bad[0] = True
            seen.add(v)
        for v in list(gs["ins"]) + list(gs["outs"]) + list(gs["inits"]):
            touch(v)
        for n in gs["nodes"]:
            for v in list(n["ins"]) + list(n["outs"]):
                touch(v)
            for s in n["subs"]:
                walk(s, seen)
    for top in [spec["main"]] + spec["funcs"]:
        walk(top, set())
    return bad[0]


def unclosed(spec) -> bool:
    """True when a top-level traversal (main graph or a function body) meets an initializer of a graph it does not
    enter (e.g. a function body reading an initializer of the main graph) - outside the hypothesis of C15_fix_total."""
    init_of = {int(k): v for k, v in spec["init_of"].items()}
    for top in [spec["main"]] + spec["funcs"]:
        entered, met = set(), set()
        for gs in _graphs_of(top):
            if not gs["isfunc"]:
                entered.add(gs["gid"])
            met.update(gs["ins"], gs["outs"])
            for n in gs["nodes"]:
                met.update(v for v in n["ins"] if v is not None)
                met.update(n["outs"])
        if any(v in init_of and init_of[v] not in entered for v in met):
            return True
    return False


def shares_values(spec) -> bool:
    """True when two top-level traversals (main graph, function bodies) meet a common value - e.g. a function body
    reading a value of the main graph: outside the disjointness hypothesis of C15_fix_keeps_unique."""
    seen: set = set()
    for top in [spec["main"]] + spec["funcs"]:
        met: set = set()
        for gs in _graphs_of(top):
            met.update(gs["ins"], gs["outs"], gs["inits"])
            for n in gs["nodes"]:
                met.update(v for v in n["ins"] if v is not None)
                met.update(n["outs"])
        if met & seen:
            return True
        seen |= met
    return False


def oracle_namefix(spec: dict, obs: dict) -> list[dict]:
    """The property clauses on the implementation's result.  Each failure is {kind, detail, ...}."""
    bad = []
    if obs["err"] is not None:
        bad.append({"kind": "raises", "detail": f"{obs['err']}: {obs['msg'][:160]}"})
        return bad
    vn, nn = obs["vn"], obs["nn"]
    if not obs["struct_same"]:
        bad.append({"kind": "structure", "detail": "something other than names changed"})
    used_vals = set()
    for top in [spec["main"]] + spec["funcs"]:
        for gs in _graphs_of(top):
            used_vals.update(gs["ins"], gs["outs"], gs["inits"])
            for n in gs["nodes"]:
                used_vals.update(v for v in n["ins"] if v is not None)
                used_vals.update(n["outs"])
    for v in sorted(used_vals):
        if not vn[v]:
            bad.append({"kind": "empty", "detail": f"value {v} has no name"})
    for i, s in enumerate(nn):
        if not s:
            bad.append({"kind": "empty", "detail": f"node {i} has no name"})
    for gs, visible in _visible_chain(spec):
        own = []
        for v in list(gs["ins"]) + list(gs["inits"]) + [o for n in gs["nodes"] for o in n["outs"]]:
            if v not in own:
                own.append(v)
        names = {}
        for v in own:
            if vn[v] in names:
                bad.append({"kind": "dup_value", "detail": f"graph {gs['gid']}: values {names[vn[v]]} and {v} are both named {vn[v]!r}"})
            names.setdefault(vn[v], v)
        for u in visible:
            if u not in own and vn[u] in names:
                bad.append({"kind": "shadow", "detail": f"graph {gs['gid']}: value {names[vn[u]]} has the name {vn[u]!r} of visible outer value {u}"})
        nnames = {}
        for n in gs["nodes"]:
            if nn[n["nid"]] in nnames:
                bad.append({"kind": "dup_node", "detail": f"graph {gs['gid']}: nodes {nnames[nn[n['nid']]]} and {n['nid']} are both named {nn[n['nid']]!r}"})
            nnames.setdefault(nn[n["nid"]], n["nid"])
        if not gs["isfunc"] or gs["inits"]:
            for k, v in obs["inits"].get(gs["gid"], obs["inits"].get(str(gs["gid"]), [])):
                if vn[v] != k:
                    bad.append({"kind": "init_key", "detail": f"graph {gs['gid']}: initializer {v} named {vn[v]!r} is keyed {k!r}"})
    # names that were already unique are kept (unique in the whole model)
    cnt: dict = {}
    for v in sorted(used_vals):
        cnt[spec["vnames"][v]] = cnt.get(spec["vnames"][v], 0) + 1
    for v in sorted(used_vals):
        o = spec["vnames"][v]
        if o and cnt[o] == 1 and vn[v] != o:
            taken = [u for u in sorted(used_vals) if vn[u] == o]
            bad.append({"kind": "unique_lost", "detail": f"value {v}: unique name {o!r} became {vn[v]!r}", "taken_by": taken})
    ncnt: dict = {}
    for s in spec["nnames"]:
        ncnt[s] = ncnt.get(s, 0) + 1
    for i, o in enumerate(spec["nnames"]):
        if o and ncnt[o] == 1 and nn[i] != o:
            taken = [j for j in range(len(nn)) if nn[j] == o]
            bad.append({"kind": "unique_lost_node", "detail": f"node {i}: unique name {o!r} became {nn[i]!r}", "taken_by": taken})
    return bad


def classify_namefix(spec: dict, obs: dict, bad: list[dict]) -> dict[str, list[dict]]:
    """Map each failure to a known-finding key (by site) or to '' (not known)."""
    out: dict[str, list[dict]] = {}
    illsc = None
    for b in bad:
        key = ""
        if b["kind"] == "raises" and "ValueError" in b["detail"] and "Cannot rename initializer" in b["detail"]:
            key = "namefix-unclosed-initializer-capture" if unclosed(spec) else "namefix-raises-initializer-collision"
        elif b["kind"] in ("unique_lost", "unique_lost_node") and b.get("taken_by"):
            # the unique name was handed out as a fresh name to an object visited earlier
            orig = spec["vnames"] if b["kind"] == "unique_lost" else spec["nnames"]
            now = obs["vn"] if b["kind"] == "unique_lost" else obs["nn"]
            if all(orig[t] != now[t] for t in b["taken_by"]):
                key = "namefix-shared-value-unique-lost" if (b["kind"] == "unique_lost" and shares_values(spec)) \
                    else "namefix-renames-unique-name"
        elif b["kind"] in ("dup_value", "shadow"):
            if illsc is None:
                illsc = ill_scoped(spec, outer_ok=True)
            if illsc:
                key = "namefix-sibling-capture"
            elif shares_values(spec):
                # a function body sharing a value with the main graph: the second run meets names of the first
                key = "namefix-shared-value-unique-lost"
        out.setdefault(key, []).append(b)
    return out


def _cgraph(gs: dict) -> str:
    nodes = []
    for n in gs["nodes"]:
        nodes.append("Node %s %s %s %s" % (cN(n["nid"]), clist(copt(i, cN) for i in n["ins"]), cNl(n["outs"]),
                                          clist("(" + _cgraph(s) + ")" for s in n["subs"])))
    return "Graph %s %s %s %s %s" % (cN(gs["gid"]), cbool(gs["isfunc"]), cNl(gs["ins"]), cNl(gs["outs"]),
                                    clist("(" + x + ")" for x in nodes))


def _cinits(d: dict) -> str:
    return clist(cpair(cN(int(g)), clist(cpair(cstr(k), cN(v)) for k, v in d[g])) for g in sorted(d, key=int))


def b_case_term(spec: dict, obs: dict) -> str:
    init0: dict = {}
    for top in [spec["main"]] + spec["funcs"]:
        for gs in _graphs_of(top):
            init0[gs["gid"]] = [(spec["vnames"][v], v) for v in gs["inits"]]
    nv, nn = len(spec["vnames"]), len(spec["nnames"])
    exp = "(%s, %s, %s, %s, %s, %s, %s)" % (
        copt(obs["err"]), cbool(bool(obs["modified"])), clist(cname(x) for x in obs["vn"]),
        clist(cname(x) for x in obs["nn"]), _cinits(obs["inits"]), cNl(obs["vx1"]), cNl(obs["nx1"]))
    return "((%s), %s, %s, %s, %s, %s, %s, %s, %s, %s, %s)" % (
        _cgraph(spec["main"]), clist("(" + _cgraph(f) + ")" for f in spec["funcs"]),
        clist(cpair(cN(i), cname(x)) for i, x in enumerate(spec["vnames"])),
        clist(cpair(cN(i), cname(x)) for i, x in enumerate(spec["nnames"])),
        _cinits(init0), cNl(range(nv)), cNl(range(nn)),
        clist(cpair(cN(i), cN(x)) for i, x in enumerate(obs["vx0"])),
        clist(cpair(cN(i), cN(x)) for i, x in enumerate(obs["nx0"])),
        clist(cpair(cN(i), copt(x, cN)) for i, x in enumerate(obs["vown"])), exp)


def b_cases_text(cases: list[tuple[dict, dict]]) -> str:
    body = ("Definition cases : list b_case :=\n  "
            + clist([b_case_term(s, o) for s, o in cases]).replace("; ((Graph", ";\n  ((Graph") + ".\n"
            "Eval vm_compute in (failing b_agree cases).\n")
    return case_file(body)


def shrink_model(spec: dict, still_fails) -> dict:
    """Greedy structural shrinking of a model specification (handles are kept, only references dropped)."""
    cur = json.loads(json.dumps(spec))

    def attempts(s):
        # drop functions, nodes, subgraphs, inputs, outputs, initializers, node inputs; simplify names
        for i in range(len(s["funcs"])):
            c = json.loads(json.dumps(s))
            del c["funcs"][i]
            yield c
        tops = ["main"] + [("funcs", i) for i in range(len(s["funcs"]))]
        for t in tops:
            def get(c):
                return c["main"] if t == "main" else c["funcs"][t[1]]
            paths = []

            def collect(gs, path):
                paths.append(path)
                for ni, n in enumerate(gs["nodes"]):
                    for si, sub in enumerate(n["subs"]):
                        collect(sub, path + [(ni, si)])
            collect(get(s), [])
            for path in paths:
                def at(c):
                    g = get(c)
                    for ni, si in path:
                        g = g["nodes"][ni]["subs"][si]
                    return g
                g0 = at(s)
                for ni in range(len(g0["nodes"])):
                    c = json.loads(json.dumps(s))
                    del at(c)["nodes"][ni]
                    yield c
                    for si in range(len(g0["nodes"][ni]["subs"])):
                        c = json.loads(json.dumps(s))
                        del at(c)["nodes"][ni]["subs"][si]
                        yield c
                    for ii in range(len(g0["nodes"][ni]["ins"])):
                        c = json.loads(json.dumps(s))
                        del at(c)["nodes"][ni]["ins"][ii]
                        yield c
                for fld in ("ins", "outs", "inits"):
                    for i in range(len(g0[fld])):
                        c = json.loads(json.dumps(s))
                        v = at(c)[fld][i]
                        del at(c)[fld][i]
                        if fld == "inits":
                            c["init_of"].pop(str(v), None)
                            if v in at(c)["ins"]:
                                continue
                        yield c
        for i, nm in enumerate(s["nnames"]):
            if nm != f"k{i}":
                c = json.loads(json.dumps(s))
                c["nnames"][i] = f"k{i}"
                yield c

    changed = True
    budget = 400
    while changed and budget > 0:
        changed = False
        for c in attempts(cur):
            budget -= 1
            if budget <= 0:
                break
            try:
                if still_fails(c):
                    cur, changed = c, True
                    break
            except Exception:  # noqa: BLE001
                continue
    return cur


# =========================================================================== (C) rename_values

C_NAMES = ["a", "b", "c", "d", "e", "", "a_1", "zz"]


def gen_rename(rng) -> dict:
    ngraphs = rng.choice([1, 1, 2])
    vals = []        # {"name", "role": init/input/both/out/free, "graph"}
    for g in range(ngraphs):
        names = rng.sample(["a", "b", "c", "d", "e"], rng.choice([1, 2, 3, 4]))
        for nm in names:
            # "pending": registered in graph.initializers without a tensor yet (const_value None), which
            # Graph(initializers=...) and graph.initializers[...] accept
            vals.append({"name": nm, "role": "both" if rng.random() < 0.15 else "init", "graph": g,
                         "pending": rng.random() < 0.3})
        for _ in range(rng.choice([0, 1, 2])):
            vals.append({"name": rng.choice(["a", "b", "x", "in", None]), "role": "input", "graph": g})
        for _ in range(rng.choice([0, 1, 2])):
            vals.append({"name": rng.choice(["a", "c", "o", None]), "role": "out", "graph": g})
    for _ in range(rng.choice([0, 1])):
        vals.append({"name": rng.choice(["a", "f", None]), "role": "free", "graph": None})
    n = len(vals)
    inits = [i for i, v in enumerate(vals) if v["role"] in ("init", "both")]
    mode = rng.choice(["perm", "perm", "swap", "partial", "fresh", "random", "random", "collide", "dupvalue", "mismatch"])
    vs: list[int] = []
    ns: list = []
    if mode == "perm":
        # a permutation of the names of the initializers of one graph (cycles included)
        g = rng.randrange(ngraphs)
        grp = [i for i in inits if vals[i]["graph"] == g]
        names = [vals[i]["name"] for i in grp]
        rng.shuffle(names)
        vs, ns = grp, names
        extra = [i for i in range(n) if i not in grp and rng.random() < 0.3]
        vs = vs + extra
        ns = ns + [rng.choice(C_NAMES) for _ in extra]
    elif mode == "swap" and len(inits) >= 2:
        a, b = rng.sample(inits, 2)
        vs, ns = [a, b], [vals[b]["name"], vals[a]["name"]]
    elif mode == "partial":
        k = rng.randrange(0, n + 1)
        vs = rng.sample(range(n), k)
        ns = [rng.choice(C_NAMES) for _ in vs]
    elif mode == "fresh":
        vs = rng.sample(range(n), rng.randrange(0, n + 1))
        ns = [f"new{i}" for i in range(len(vs))]
    elif mode == "collide" and inits:
        a = rng.choice(inits)
        others = [vals[i]["name"] for i in inits if i != a] or ["a"]
        vs, ns = [a], [rng.choice(others)]
    elif mode == "dupvalue" and n:
        a = rng.randrange(n)
        nm = rng.choice(C_NAMES)
        vs, ns = [a, rng.randrange(n), a], [nm, rng.choice(C_NAMES), nm if rng.random() < 0.5 else rng.choice(C_NAMES)]
    elif mode == "mismatch":
        vs = rng.sample(range(n), min(n, 2))
        ns = [rng.choice(C_NAMES) for _ in range(len(vs) + rng.choice([1, -1]) if vs else 1)]
    else:
        k = rng.randrange(0, 6)
        vs = [rng.randrange(n) for _ in range(k)]
        ns = [rng.choice(C_NAMES) for _ in range(k)]
    return {"ngraphs": ngraphs, "vals": vals, "vs": vs, "ns": ns, "mode": mode}


def build_rename(spec: dict):
    import numpy as np
    import onnx_ir as ir
    vals = []
    for i, v in enumerate(spec["vals"]):
        if v["role"] in ("init", "both"):
            if v.get("pending"):
                vals.append(ir.Value(name=v["name"], type=ir.TensorType(ir.DataType.FLOAT), shape=ir.Shape([1])))
            else:
                vals.append(ir.Value(name=v["name"], const_value=ir.Tensor(np.zeros((1,), dtype=np.float32), name=v["name"])))
        else:
            vals.append(ir.Value(name=f"tmp{i}"))
    graphs = []
    for g in range(spec["ngraphs"]):
        ins = [vals[i] for i, v in enumerate(spec["vals"]) if v["graph"] == g and v["role"] in ("input", "both")]
        inits = [vals[i] for i, v in enumerate(spec["vals"]) if v["graph"] == g and v["role"] in ("init", "both")]
        outs = [vals[i] for i, v in enumerate(spec["vals"]) if v["graph"] == g and v["role"] == "out"]
        nodes = [ir.Node("", "Op", ins[:1], outputs=outs, name="n")] if outs else []
        graphs.append(ir.Graph(ins, outs[:1], nodes=nodes, initializers=inits, name=f"g{g}"))
    for i, v in enumerate(spec["vals"]):
        if v["role"] not in ("init", "both"):
            vals[i].name = v["name"]
    return vals, graphs


def observe_rename(vals, graphs) -> dict:
    vh = {id(v): i for i, v in enumerate(vals)}
    gh = {id(g): i for i, g in enumerate(graphs)}
    return {"vn": [v.name for v in vals],
            "inits": {i: [(k, vh.get(id(v), 999)) for k, v in g.initializers.items()] for i, g in enumerate(graphs)},
            "isinit": [v.is_initializer() for v in vals],
            "vgraph": [None if v.producer() is not None else (None if v.graph is None else gh.get(id(v.graph), 99)) for v in vals],
            "isio": [v.is_graph_input() or v.is_graph_output() for v in vals],
            "const": [v.const_value is not None for v in vals],
            "prod": [v.producer() is not None for v in vals]}


def run_rename(spec: dict) -> dict:
    from onnx_ir import _convenience
    vals, graphs = build_rename(spec)
    before = observe_rename(vals, graphs)
    err = None
    try:
        _convenience.rename_values([vals[i] for i in spec["vs"]], list(spec["ns"]))
    except Exception as e:  # noqa: BLE001
        err = common.exn_name(e)
    after = observe_rename(vals, graphs)
    return {"before": before, "after": after, "err": err}


def oracle_rename(spec: dict, obs: dict) -> list[str]:
    bad = []
    b, a = obs["before"], obs["after"]
    if obs["err"] is not None:
        if a != b:
            bad.append(f"raised {obs['err']} but the state changed: names {b['vn']} -> {a['vn']}, initializers {b['inits']} -> {a['inits']}")
        return bad
    target = {}
    for v, n in zip(spec["vs"], spec["ns"]):
        target.setdefault(v, n)
    for i in range(len(a["vn"])):
        want = target.get(i, b["vn"][i])
        if a["vn"][i] != want:
            bad.append(f"value {i} is named {a['vn'][i]!r}, expected {want!r}")
    for g in b["inits"]:
        if sorted(v for _, v in a["inits"][g]) != sorted(v for _, v in b["inits"][g]):
            bad.append(f"graph {g}: set of initializers changed")
        for k, v in a["inits"][g]:
            if v == 999 or a["vn"][v] != k:
                bad.append(f"graph {g}: initializer {v} keyed {k!r} but named {a['vn'][v] if v != 999 else '?'}")
    if a["isinit"] != b["isinit"] or a["vgraph"] != b["vgraph"]:
        bad.append("initializer flags / owning graphs changed")
    return bad


def c_case_term(spec: dict, obs: dict) -> str:
    b, a = obs["before"], obs["after"]
    n = len(b["vn"])

    def al(xs, f):
        return clist(cpair(cN(i), f(x)) for i, x in enumerate(xs))

    def cobs(o):
        return "(%s, %s, %s, %s, %s)" % (clist(cname(x) for x in o["vn"]), _cinits(o["inits"]),
                                        clist(cbool(x) for x in o["isinit"]), clist(copt(x, cN) for x in o["vgraph"]),
                                        clist(cbool(x) for x in o["const"]))
    res = "Ok tt" if obs["err"] is None else f"Raise {obs['err']}"
    return "(%s, %s, %s, %s, %s, %s, %s, %s, %s, %s, (%s, %s))" % (
        al(b["vn"], cname), _cinits(b["inits"]), al(b["isinit"], cbool), al(b["isio"], cbool),
        al(b["vgraph"], lambda x: copt(x, cN)), al(b["prod"], cbool), al(b["const"], cbool),
        cNl(spec["vs"]), clist(cstr(x) for x in spec["ns"]), cNl(range(n)), res, cobs(a))


def c_cases_text(cases) -> str:
    body = ("Definition cases : list c_case :=\n  " + clist([c_case_term(s, o) for s, o in cases]).replace("); ([", ");\n  ([")
            + ".\nEval vm_compute in (failing c_agree cases).\n")
    return case_file(body)


# =========================================================================== known findings

def replay_known(ck) -> None:
    for k in ck._known:
        if k.get("status") != "known":
            continue
        spec = k["witness"]
        if k.get("part") == "A":
            r = run_history(spec)
            if r["known"]:
                ck.known_finding(k["key"], k["what"])
            else:
                ck.broken(f"known-finding-stale:{k['key']}", "the recorded history no longer shows the defect: "
                          + json.dumps({"names": r["steps"][-1]})[:800])
            continue
        obs = run_namefix(spec)
        bad = oracle_namefix(spec, obs)
        cls = classify_namefix(spec, obs, bad)
        if k["key"] in cls:
            ck.known_finding(k["key"], k["what"])
        else:
            ck.broken(f"known-finding-stale:{k['key']}",
                      "the recorded witness no longer fails that way on the implementation; the model reproduces a "
                      "defect the code no longer has: " + json.dumps({"observed": obs, "failures": bad}, default=str)[:1500])


# =========================================================================== main

def _chunks(xs, n):
    return [xs[i:i + n] for i in range(0, len(xs), n)]


def _eval_failing(ck, texts: list[tuple[str, str]]) -> list[list[int]]:
    outs = ck.coq_eval_many(texts, timeout=900)
    res = []
    for (tag, _), (rc, out) in zip(texts, outs):
        if rc != 0:
            raise RuntimeError(f"case file {tag} did not compile:\n{out[-3000:]}")
        res.append(common.parse_nat_list(out))
    return res


def part_a(ck, n_hist: int, n_ops: int, corpus: list) -> tuple[list, list]:
    """Returns (oracle failures, correspondence mismatches)."""
    results, hists = [], []
    for ops in corpus:
        hists.append(ops)
    for i in range(n_hist):
        hists.append(gen_history(ck.rng, ck.rng.choice([4, 8, n_ops, n_ops])))
    fails = []
    for ops in hists:
        r = run_history(ops)
        results.append(r)
        ck.count(len(r["kinds"]))
        for k in r["kinds"]:
            ck.hist("A_ops", k)
        if r["bad"]:
            fails.append((ops, r["bad"]))
        if r["known"] and ck.known("ctor-names-inputs-before-registering-explicit-names"):
            ck.known_finding("ctor-names-inputs-before-registering-explicit-names",
                             ck.known("ctor-names-inputs-before-registering-explicit-names")["what"])
            ck.hist("A_ops", "ctor:generated-equals-later-explicit")
        elif r["known"]:
            fails.append((ops, r["known"]))
        if r["generated"] >= 2:
            ck.nontriv(("A", r["coq_ops"]))
    if results:
        ck.sample({"part": "A", "ops": results[-1]["coq_ops"][:6], "last_names": results[-1]["steps"][-1]})
    texts = [(f"cases_a{j}", a_cases_text(ch)) for j, ch in enumerate(_chunks(results, 150))]
    mism = []
    for j, idxs in enumerate(_eval_failing(ck, texts)):
        for i in idxs:
            mism.append(hists[j * 150 + i])
    ck.coverage["traces_validated_against_impl"] = ck.coverage.get("traces_validated_against_impl", 0) + len(results)
    return fails, mism


def part_b(ck, n_models: int, corpus: list) -> tuple[list, list]:
    cases = []
    specs = list(corpus)
    for i in range(n_models):
        specs.append(gen_model(ck.rng, small=(i % 3 == 0)))
    fails = []
    for spec in specs:
        obs = run_namefix(spec)
        cases.append((spec, obs))
        ck.count()
        ck.hist("B_outcome", obs["err"] or ("modified" if obs["modified"] else "unchanged"))
        depth = max((len(v) for _, v in _visible_chain(spec)), default=0)
        ck.hist("B_shape", "nested" if any(n["subs"] for n in spec["main"]["nodes"]) else "flat")
        if spec["funcs"]:
            ck.hist("B_shape", "with_functions")
        if ill_scoped(spec):
            ck.hist("B_shape", "ill_scoped")
        if ill_scoped(spec, outer_ok=True):
            ck.hist("B_shape", "sibling_capture")
        if unclosed(spec):
            ck.hist("B_shape", "unclosed")
        bad = oracle_namefix(spec, obs)
        for b in bad:
            ck.hist("B_oracle_failures", b["kind"])
        if bad:
            fails.append((spec, obs, bad))
        names = [x for x in spec["vnames"] if x]
        if obs["modified"] and (len(set(names)) < len(names) or depth > 0):
            ck.nontriv(("B", spec))
    # ---- one pass object reused: second run after an edit (and a run on a second model) must behave like a fresh one
    reuse_fail = []
    for i, spec in enumerate(specs):
        if i % 3 != 1 or len(spec["vnames"]) < 2:
            continue
        edits = gen_edits(ck.rng, spec)
        other = gen_model(ck.rng, small=True) if i % 6 == 1 else None
        r = run_namefix_reuse(spec, edits, other)
        if r["obs2"] is None:
            continue
        ck.count()
        ck.hist("B_outcome", "reuse:" + (r["obs2"]["err"] or ("modified" if r["obs2"]["modified"] else "unchanged")))
        cases.append((r["spec2"], r["obs2"]))
        bad2 = oracle_namefix(r["spec2"], r["obs2"])
        if bad2:
            reuse_fail.append(({"model": spec, "edits": edits}, r["spec2"], r["obs2"], bad2))
        if other is not None and r["obs3"] is not None:
            ck.count()
            ck.hist("B_outcome", "reuse:second-model")
            cases.append((other, r["obs3"]))
            bad3 = oracle_namefix(other, r["obs3"])
            if bad3:
                fails.append((other, r["obs3"], bad3))
    for case, spec2, obs2, bad2 in reuse_fail:
        unknown = [b for k, its in classify_namefix(spec2, obs2, bad2).items() if not (k and ck.known(k)) for b in its]
        for k in classify_namefix(spec2, obs2, bad2):
            if k and ck.known(k):
                ck.known_finding(k, ck.known(k)["what"])
        if unknown and not any("reused pass object" in v for v in ck.violations):
            ck.violation({"kind": "oracle", "part": "B2", "model": case["model"], "edits": case["edits"],
                          "what": "one NameFixPass object, run / edit / run again: the second run violates the property "
                                  "(reused pass object)", "second_run": obs2, "failures": unknown, "broken": ck.broken_items})
            break
    if cases:
        ck.sample({"part": "B", "vnames_before": cases[-1][0]["vnames"], "vnames_after": cases[-1][1]["vn"],
                   "outcome": cases[-1][1]["err"] or "ok"})
    texts = [(f"cases_b{j}", b_cases_text(ch)) for j, ch in enumerate(_chunks(cases, 120))]
    mism = []
    for j, idxs in enumerate(_eval_failing(ck, texts)):
        for i in idxs:
            mism.append(cases[j * 120 + i])
    ck.coverage["traces_validated_against_impl"] = ck.coverage.get("traces_validated_against_impl", 0) + len(cases)
    return fails, mism


def part_c(ck, n: int, corpus: list) -> tuple[list, list]:
    cases = []
    specs = list(corpus) + [gen_rename(ck.rng) for _ in range(n)]
    fails = []
    for spec in specs:
        obs = run_rename(spec)
        cases.append((spec, obs))
        ck.count()
        ck.hist("C_mode", spec.get("mode", "corpus"))
        ck.hist("C_outcome", obs["err"] or "ok")
        if any(spec["vals"][v].get("pending") for v in spec["vs"] if v < len(spec["vals"])):
            ck.hist("C_mode", "touches_pending_initializer")
        bad = oracle_rename(spec, obs)
        if bad:
            fails.append((spec, obs, bad))
        if any(obs["before"]["isinit"][v] for v in spec["vs"] if v < len(obs["before"]["isinit"])):
            ck.nontriv(("C", spec["vals"], spec["vs"], spec["ns"]))
    if cases:
        ck.sample({"part": "C", "values": cases[-1][0]["vs"], "names": cases[-1][0]["ns"], "outcome": cases[-1][1]["err"] or "ok",
                   "names_after": cases[-1][1]["after"]["vn"]})
    texts = [(f"cases_c{j}", c_cases_text(ch)) for j, ch in enumerate(_chunks(cases, 250))]
    mism = []
    for j, idxs in enumerate(_eval_failing(ck, texts)):
        for i in idxs:
            mism.append(cases[j * 250 + i])
    ck.coverage["traces_validated_against_impl"] = ck.coverage.get("traces_validated_against_impl", 0) + len(cases)
    return fails, mism


def _load_corpus() -> dict:
    out = {"A": [], "B": [], "C": []}
    d = os.path.join(common.CORPUS, "C15")
    if os.path.isdir(d):
        for fn in sorted(os.listdir(d)):
            if fn.endswith(".json"):
                with open(os.path.join(d, fn)) as f:
                    j = json.load(f)
                out[j["part"]].append(j["case"])
    return out


def shrink_history(ops: list[dict]) -> list[dict]:
    cur = list(ops)
    changed = True
    while changed:
        changed = False
        for i in range(len(cur) - 1, 0, -1):
            c = cur[:i] + cur[i + 1:]
            try:
                if oracle_history(c):
                    cur, changed = c, True
                    break
            except Exception:  # noqa: BLE001
                continue
    return cur


def report_b(ck, spec, obs, bad, reported: set) -> None:
    cls = classify_namefix(spec, obs, bad)
    for key, items in cls.items():
        if key and ck.known(key):
            ck.known_finding(key, ck.known(key)["what"])
            continue
        sig = ("B", tuple(sorted({b["kind"] for b in items})))
        if sig in reported:
            continue
        reported.add(sig)
        kinds = {b["kind"] for b in items}

        def still(c):
            o = run_namefix(c)
            bb = oracle_namefix(c, o)
            return any((not k or not ck.known(k)) and any(x["kind"] in kinds for x in its)
                       for k, its in classify_namefix(c, o, bb).items())
        small = shrink_model(spec, still)
        o2 = run_namefix(small)
        ck.violation({"kind": "oracle", "part": "B", "model": small, "observed": o2,
                      "failures": oracle_namefix(small, o2), "broken": ck.broken_items})


def run(ck) -> None:
    import logging
    logging.disable(logging.WARNING)
    ck.trust("Coq 8.16.1 kernel (coqc; vm_compute in case files and in the *_refuted witnesses; no native_compute)",
             "harness/props/c15.py (generators, builders of ir objects from specifications, observation, Coq literal printer)",
             "modelled not verified: CPython int->str (decimal) as N.to_uint; set/dict semantics as duplicate-free / "
             "insertion-ordered lists; object identity as handles; SimpleNameGenerator only; tensor name follows value name")
    ck.assumptions += ["CPython 3.12 dict insertion order", "values/nodes are ir.Value/ir.Node, names are str or None"]
    ck.coverage["rule"] = ("A: histories in which the authority generated >= 2 names; B: models with duplicated/missing names "
                           "or nested scopes that the pass modified; C: assignments that touch an initializer")
    ck.notes.append("level=proof: all principal theorems are proved at full strength: C15_fresh* (A), C15_fix_total / "
                    "C15_fix_post / C15_fix_keeps_unique(_node) / C15_fix_only_names (B, for the code after fix 25cf9b5, under "
                    "the hypotheses WF0 / closed_run / well_scoped / NoDup nodes stated in Property.v, each shown necessary by a "
                    "_refuted witness that is a known finding) and C15_rename_all_or_nothing (C)")
    generate(ck)
    ck.prove()
    corpus = _load_corpus()
    q = not ck.thorough
    reported: set = set()

    # ---- (A) name authority on real graphs
    try:
        a_fail, a_mis = part_a(ck, 260 if q else 6000, 30 if q else 60, corpus["A"])
    except RuntimeError as e:
        a_fail, a_mis = [], []
        ck.broken("correspondence:name-authority", str(e))
    for ops in a_mis[:3]:
        ck.broken("correspondence:name-authority", json.dumps({"history": ops})[:3500])
    for ops, bad in a_fail[:1]:
        small = shrink_history(ops)
        ck.violation({"kind": "oracle", "part": "A", "history": small, "failures": oracle_history(small),
                      "broken": ck.broken_items})

    # ---- (B) NameFixPass
    try:
        b_fail, b_mis = part_b(ck, 420 if q else 12000, corpus["B"])
    except RuntimeError as e:
        b_fail, b_mis = [], []
        ck.broken("correspondence:name-fix-pass", str(e))
    for spec, obs in b_mis[:3]:
        ck.broken("correspondence:name-fix-pass", json.dumps({"model": spec, "observed": obs}, default=str)[:3800])

    # ---- (C) rename_values
    try:
        c_fail, c_mis = part_c(ck, 600 if q else 20000, corpus["C"])
    except RuntimeError as e:
        c_fail, c_mis = [], []
        ck.broken("correspondence:rename-values", str(e))
    for spec, obs in c_mis[:3]:
        ck.broken("correspondence:rename-values", json.dumps({"case": spec, "observed": obs}, default=str)[:3800])
    for spec, obs, bad in c_fail[:1]:
        ck.violation({"kind": "oracle", "part": "C", "case": spec, "observed": obs, "failures": bad,
                      "broken": ck.broken_items})

    # ---- known findings are replayed on the implementation, then oracle failures are classified
    replay_known(ck)
    for spec, obs, bad in b_fail:
        report_b(ck, spec, obs, bad, reported)

    if ck.broken_items and not ck.violations:
        search(ck)


def search(ck) -> None:
    """A proof obligation or a correspondence broke and the regular run found no failing input: run the
    property oracles alone on fresh cases of all three parts, the diverging ones first."""
    reported: set = set()
    for b in ck.broken_items:
        try:
            j = json.loads(b["detail"])
        except Exception:  # noqa: BLE001
            continue
        if "history" in j:
            bad = oracle_history(j["history"])
            if bad:
                small = shrink_history(j["history"])
                ck.violation({"kind": "oracle-after-broken-obligation", "part": "A", "history": small,
                              "failures": oracle_history(small), "broken": ck.broken_items})
                return
    budget = 3000 if not ck.thorough else 40000
    for i in range(budget):
        ops = gen_history(ck.rng, 40)
        ck.count()
        bad = oracle_history(ops)
        if bad:
            small = shrink_history(ops)
            ck.violation({"kind": "oracle-after-broken-obligation", "part": "A", "history": small,
                          "failures": oracle_history(small), "broken": ck.broken_items})
            return
        spec = gen_model(ck.rng, small=(i % 2 == 0))
        obs = run_namefix(spec)
        bb = oracle_namefix(spec, obs)
        if bb:
            n0 = len(ck.violations)
            report_b(ck, spec, obs, bb, reported)
            if len(ck.violations) > n0:
                return
        spec = gen_rename(ck.rng)
        obs = run_rename(spec)
        bb = oracle_rename(spec, obs)
        if bb:
            ck.violation({"kind": "oracle-after-broken-obligation", "part": "C", "case": spec, "observed": obs,
                          "failures": bb, "broken": ck.broken_items})
            return


def replay(rp: dict) -> int:
    import logging
    logging.disable(logging.WARNING)
    part = rp.get("part")
    if part == "A":
        bad = oracle_history(rp["history"])
        print(json.dumps({"history": rp["history"], "failures": bad}, indent=1))
        return 1 if bad else 0
    if part == "B":
        obs = run_namefix(rp["model"])
        bad = oracle_namefix(rp["model"], obs)
        print(json.dumps({"observed": obs, "failures": bad}, indent=1, default=str))
        return 1 if bad else 0
    if part == "B2":
        r = run_namefix_reuse(rp["model"], rp["edits"])
        bad = oracle_namefix(r["spec2"], r["obs2"]) if r["obs2"] is not None else []
        print(json.dumps({"second_run": r["obs2"], "failures": bad}, indent=1, default=str))
        return 1 if bad else 0
    if part == "C":
        obs = run_rename(rp["case"])
        bad = oracle_rename(rp["case"], obs)
        print(json.dumps({"observed": obs, "failures": bad}, indent=1, default=str))
        return 1 if bad else 0
    print("replay names a broken obligation/correspondence, no concrete input:",
          json.dumps(rp.get("broken"), indent=1)[:3000])
    return 1
